"""C08: value universe generator, spec <-> Python <-> Gallina conversions, the structural
equality-with-type used by the discrimination oracle, and the classifiers of the two known findings.

A spec is the JSON tree described in harness/impl/c08_impl.py.  Nothing here imports joblib.
"""
import struct

HEXDIGITS = set("0123456789abcdef")


# ----------------------------------------------------------------- spec constructors
def N():
    return ["N"]


def B(b):
    return ["B", bool(b)]


def I(n):
    return ["I", str(int(n))]


def fbits(x):
    return struct.unpack(">Q", struct.pack(">d", x))[0]


def F(x):
    return ["F", str(fbits(x))]


def S(s):
    return ["S", s.encode("utf-8", "surrogatepass").hex()]


def Y(b):
    return ["Y", bytes(b).hex()]


def T(xs):
    return ["T", list(xs)]


def L(xs):
    return ["L", list(xs)]


def D(kvs):
    return ["D", [[k, v] for k, v in kvs]]


def E(xs):
    return ["E", list(xs)]


def Z(xs):
    return ["Z", list(xs)]


# ----------------------------------------------------------------- spec -> python (harness side copy)
def build(s):
    t = s[0]
    if t == "N":
        return None
    if t == "B":
        return bool(s[1])
    if t == "I":
        return int(s[1])
    if t == "F":
        return struct.unpack(">d", struct.pack(">Q", int(s[1])))[0]
    if t == "S":
        return bytes.fromhex(s[1]).decode("utf-8", "surrogatepass")
    if t == "Y":
        return bytes.fromhex(s[1])
    if t == "T":
        return tuple(build(x) for x in s[1])
    if t == "L":
        return [build(x) for x in s[1]]
    if t == "D":
        return {build(k): build(v) for k, v in s[1]}
    if t == "E":
        return set(build(x) for x in s[1])
    if t == "Z":
        return frozenset(build(x) for x in s[1])
    raise ValueError(s)


def canon(s):
    """structural equality WITH type: two specs denote the same value iff their canon is equal.
    Floats by bit pattern; dict/set/frozenset as unordered collections."""
    t = s[0]
    if t in ("N",):
        return ("N",)
    if t == "B":
        return ("B", bool(s[1]))
    if t in ("I", "F"):
        return (t, int(s[1]))
    if t in ("S", "Y"):
        return (t, s[1])
    if t in ("T", "L"):
        return (t, tuple(canon(x) for x in s[1]))
    if t == "D":
        return (t, frozenset((canon(k), canon(v)) for k, v in s[1]))
    if t in ("E", "Z"):
        return (t, frozenset(canon(x) for x in s[1]))
    raise ValueError(s)


def well_formed(s):
    """the spec lists every dict key / set element once (Python equality), so that building it in
    any insertion order gives the same value"""
    t = s[0]
    if t in ("T", "L"):
        return all(well_formed(x) for x in s[1])
    if t == "D":
        ks = [build(k) for k, _ in s[1]]
        return len(set(ks)) == len(ks) and all(well_formed(k) and well_formed(v) for k, v in s[1])
    if t in ("E", "Z"):
        ks = [build(x) for x in s[1]]
        return len(set(ks)) == len(ks) and all(well_formed(x) for x in s[1])
    return True


# ----------------------------------------------------------------- classifiers of the known findings
def _keys_of(s):
    if s[0] == "D":
        return [k for k, _ in s[1]]
    if s[0] in ("E", "Z"):
        return s[1]
    return None


def _children(s):
    if s[0] in ("T", "L", "E", "Z"):
        return s[1]
    if s[0] == "D":
        return [x for kv in s[1] for x in kv]
    return []


def _contains_frozenset(s):
    return s[0] == "Z" or any(_contains_frozenset(c) for c in _children(s))


def unordered_frozenset_keys(s):
    """F12 class: some dict/set/frozenset has two keys a != b for which neither a < b nor b < a holds and
    no TypeError is raised, the incomparability coming from frozensets (subset is a partial order):
    sorted() silently returns an order that depends on the iteration order."""
    ks = _keys_of(s)
    if ks is not None:
        vals = [(k, build(k)) for k in ks if _contains_frozenset(k)]
        for i in range(len(vals)):
            for j in range(i + 1, len(vals)):
                a, b = vals[i][1], vals[j][1]
                try:
                    if a != b and not (a < b) and not (b < a):
                        return True
                except TypeError:
                    pass
    return any(unordered_frozenset_keys(c) for c in _children(s))


def mixed_kind(ks):
    """sorted(keys) raises TypeError"""
    try:
        sorted(build(k) for k in ks)
        return False
    except TypeError:
        return True


def _is_digest_str(k):
    if k[0] != "S":
        return False
    try:
        t = bytes.fromhex(k[1]).decode("ascii")
    except UnicodeDecodeError:
        return False
    return len(t) == 32 and set(t) <= HEXDIGITS


def masq_skeleton(s):
    """F13 class: canon, except that a container whose keys take the digest fallback (mixed kinds) and a
    container whose keys are all 32-hex-digit strings are both replaced by (kind, 'MASQ', #keys, values)."""
    t = s[0]
    ks = _keys_of(s)
    if ks is not None and len(ks) >= 1 and (all(_is_digest_str(k) for k in ks) or mixed_kind(ks)):
        if t == "D":
            return (t, "MASQ", len(ks), frozenset(masq_skeleton(v) for _, v in s[1]))
        return (t, "MASQ", len(ks))
    if t in ("T", "L"):
        return (t, tuple(masq_skeleton(x) for x in s[1]))
    if t == "D":
        return (t, frozenset((masq_skeleton(k), masq_skeleton(v)) for k, v in s[1]))
    if t in ("E", "Z"):
        return (t, frozenset(masq_skeleton(x) for x in s[1]))
    return canon(s)


def uses_fallback(s):
    ks = _keys_of(s)
    if ks is not None and mixed_kind(ks):
        return True
    return any(uses_fallback(c) for c in _children(s))


# ----------------------------------------------------------------- spec -> Gallina
def _zl(bs):
    bs = list(bs)
    if len(bs) > 48 and len(set(bs)) == 1:
        return "(repeat %d %d%%nat)" % (bs[0], len(bs))
    for p in (2, 3, 4):
        if len(bs) > 48 and len(bs) % p == 0 and bs == bs[:p] * (len(bs) // p):
            return "(concat (repeat [%s] %d%%nat))" % ("; ".join(map(str, bs[:p])), len(bs) // p)
    return "[" + "; ".join(str(b) for b in bs) + "]"


def coq_value(s):
    t = s[0]
    if t == "N":
        return "VNone"
    if t == "B":
        return "(VBool %s)" % ("true" if s[1] else "false")
    if t == "I":
        n = int(s[1])
        return "(VInt (%d))" % n
    if t == "F":
        return "(VFloat %s)" % s[1]
    if t == "S":
        return "(VStr %s)" % _zl(bytes.fromhex(s[1]))
    if t == "Y":
        return "(VBytes %s)" % _zl(bytes.fromhex(s[1]))
    if t in ("T", "L", "E", "Z"):
        c = {"T": "VTuple", "L": "VList", "E": "VSet", "Z": "VFrozenSet"}[t]
        return "(%s [%s])" % (c, "; ".join(coq_value(x) for x in s[1]))
    if t == "D":
        return "(VDict [%s])" % "; ".join("(%s, %s)" % (coq_value(k), coq_value(v)) for k, v in s[1])
    raise ValueError(s)


# ----------------------------------------------------------------- leaves
INTS = [0, 1, -1, 2, -2, 3, 7, 8, 127, 128, 255, 256, 257, 65535, 65536, 65537, 2 ** 31 - 1, 2 ** 31, 2 ** 31 + 1,
        -2 ** 31, -2 ** 31 - 1, -2 ** 31 + 1, 2 ** 32, 2 ** 63 - 1, 2 ** 63, 2 ** 63 + 1, -2 ** 63, -2 ** 63 - 1, 2 ** 64,
        -127, -128, -129, -255, -256, -257, -32768, -32769, -65536, -8388608, -8388609, 10 ** 30, -10 ** 30,
        2 ** (8 * 255 - 1) - 1, 2 ** (8 * 255 - 1), -2 ** (8 * 255 - 1), -2 ** (8 * 255 - 1) - 1]
FLOATS = [0.0, -0.0, 1.0, -1.0, 2.0, 0.5, 1.5, 255.0, 256.0, 1e300, -1e300, 5e-324, 2.2250738585072014e-308,
          float("inf"), float("-inf"), 2.0 ** 31, 2.0 ** 63, 1e22, 0.1, 3.0]
NAN = float("nan")
STRS = ["", "a", "b", "ab", "ba", "a\0", "\0", "A", "\xe9", "e\u0301", "\ud800", "\udfff", "\uffff", "\U00010000",
        "\U0001F600", "0", "1", "None", "True", "_sequence", "aa", "\x7f", "\x80", "a" * 255, "a" * 256, "a" * 257,
        "d41d8cd98f00b204e9800998ecf8427e", "0357109b163771392cc674173d921e4b"]
BYTESS = [b"", b"a", b"b", b"ab", b"ba", b"\0", b"\xff", b"0", b"a" * 255, b"a" * 256, b"a" * 257, b"\x80\x03N."]
BIG = [S("a" * 65535), S("a" * 65536), Y(b"a" * 65535), Y(b"a" * 65536), S("\xe9" * 32768)]


def leaves():
    out = [N(), B(True), B(False)]
    out += [I(n) for n in INTS] + [F(x) for x in FLOATS] + [F(NAN)]
    out += [S(s) for s in STRS] + [Y(b) for b in BYTESS]
    return out


def hashable_leaves():
    """leaves usable as dict keys / set elements (NaN excluded: NaN == NaN is False, outside the universe)"""
    return [x for x in leaves() if not (x[0] == "F" and build(x) != build(x))]


def dedupe(specs):
    """drop specs that are Python-equal to an earlier one (1 / 1.0 / True cannot be two keys of a dict)"""
    seen, out = set(), []
    for s in specs:
        v = build(s)
        if v in seen:
            continue
        seen.add(v)
        out.append(s)
    return out


# ----------------------------------------------------------------- random generator
KEY_FAMILIES = ["int", "int", "num", "str", "str", "bytes", "tuple_int", "tuple_mixed", "fs_chain", "mixed", "mixed",
                "deepmixed", "fs_anti"]


def gen_keys(rng, family, n):
    if family == "int":
        pool = [I(x) for x in rng.sample(INTS, min(n, len(INTS)))] + [I(rng.randint(-300, 70000)) for _ in range(n)]
    elif family == "num":
        pool = [I(x) for x in INTS[:20]] + [F(x) for x in FLOATS] + [B(True), B(False)] + [F(rng.randint(-5, 300) / 2) for _ in range(n)]
    elif family == "str":
        pool = [S(s) for s in STRS] + [S("".join(rng.choice("ab\xe9\uffff\U00010000") for _ in range(rng.randint(0, 4)))) for _ in range(n)]
    elif family == "bytes":
        pool = [Y(b) for b in BYTESS] + [Y(bytes(rng.choice([0, 97, 98, 255]) for _ in range(rng.randint(0, 4)))) for _ in range(n)]
    elif family == "tuple_int":
        pool = [T([I(rng.choice([0, 1, 2, 256, -1])) for _ in range(rng.randint(0, 5))]) for _ in range(3 * n)]
    elif family == "tuple_mixed":
        pool = [T([I(rng.choice([0, 1, 2])), S(rng.choice(["", "a", "b"])), rng.choice([N(), Y(b"a"), F(0.5)])][:rng.randint(1, 3)])
                for _ in range(3 * n)]
    elif family == "fs_chain":
        base = rng.sample(range(10), min(n, 10))
        pool = [Z([I(x) for x in base[:i]]) for i in range(len(base) + 1)]
    elif family == "fs_anti":
        pool = [Z([I(rng.randint(0, 4)) for _ in range(rng.randint(0, 3))]) for _ in range(2 * n)]
        pool = [Z(dedupe(z[1])) for z in pool]
    elif family == "mixed":
        pool = hashable_leaves()
    elif family == "deepmixed":
        pool = [T([I(1), S("a")]), T([I(1), I(2)]), T([I(0), N()]), T([I(0), Y(b"")]), T([]), T([N()]), T([N(), I(1)]),
                T([Z([I(1)]), I(0)]), I(5), Z([]), Z([S("a"), I(1)])]
    else:
        raise ValueError(family)
    rng.shuffle(pool)
    return dedupe(pool)[:n]


def gen_value(rng, depth, stats=None):
    r = rng.random()
    if depth <= 0 or r < 0.3:
        return rng.choice(LEAVES)
    kind = rng.choice(["T", "T", "L", "L", "D", "D", "E", "E", "Z"])
    n = rng.choice([0, 1, 1, 2, 2, 3, 3, 4, 5, 7])
    if kind in ("T", "L"):
        return [kind, [gen_value(rng, depth - 1, stats) for _ in range(n)]]
    fam = rng.choice(KEY_FAMILIES)
    ks = gen_keys(rng, fam, n)
    if stats is not None:
        stats[fam] = stats.get(fam, 0) + 1
    if kind == "D":
        return D([(k, gen_value(rng, depth - 1, stats)) for k in ks])
    return [kind, ks]


LEAVES = leaves()


def wrappers(x, hashable):
    out = [x, T([x]), L([x]), T([x, x]), L([x, x]), D([(I(0), x)]), L([L([x])]), T([T([x])])]
    if hashable:
        out += [E([x]), Z([x]), D([(x, x)]), D([(x, I(0))]), E([T([x])]), D([(T([x]), N())])]
    return out


def special_cases():
    """boundary cases named in the design: batch boundaries, memo index 255/256, long strings"""
    out = []
    for n in (999, 1000, 1001, 1999, 2000, 2001):
        out.append(L([I(i % 7) for i in range(n)]))
    out.append(L([L([])] * 1000))
    out.append(T([I(i % 3) for i in range(1001)]))
    out.append(D([(I(i), I(0)) for i in range(1001)]))
    out.append(D([(I(i), I(0)) for i in range(1000)]))
    out.append(D([(I(i), I(0)) for i in range(999)]))
    out.append(E([I(i) for i in range(1001)]))
    out.append(E([I(i) for i in range(1000)]))
    out.append(Z([S(str(i)) for i in range(300)]))
    out.append(D([(S("k%d" % i), L([I(i)])) for i in range(300)]))
    out.append(D([((I(i) if i % 2 else S(str(i))), I(i)) for i in range(70)]))      # fallback, > 64 keys
    for n in (254, 255, 256, 257, 300):
        out.append(L([L([])] * n))
        out.append(L([T([I(0)])] * n + [E([I(1)]), E([I(2)]), Z([I(3)]), Z([I(4)])]))   # class memo index around 256
        out.append(T([D([])] * n))
    out.append(L([E([I(1)])] * 3 + [L([])] * 260 + [E([I(2)]), Z([]), Z([I(1)])]))
    out.extend(BIG)
    out.append(L([S("aa"), S("aa")]))                                  # equal but distinct strings
    out.append(L([Y(b"aa" * 200), Y(b"aa" * 200)]))
    out.append(T([T([I(1), I(2)]), T([I(1), I(2)])]))                  # equal but distinct tuples
    # near collisions across container kinds
    for inner in ([], [I(1)], [I(1), I(2)], [I(1), I(2), I(3)], [I(1), I(2), I(3), I(4)]):
        out += [T(inner), L(inner), E(inner), Z(inner), D([(k, N()) for k in inner]), D([(k, k) for k in inner])]
        out += [T([T(inner)]), L([T(inner)]), T([L(inner)]), E([T(inner)]), Z([T(inner)]), E([Z(inner)]), Z([Z(inner)])]
    out += [L([I(1), L([I(2)])]), L([L([I(1)]), I(2)]), L([L([I(1), I(2)])]), T([I(1), T([I(2)])]), T([T([I(1)]), I(2)])]
    out += [D([(S("a"), D([(S("b"), I(1))]))]), D([(S("a"), I(1)), (S("b"), I(1))]), D([(S("a"), S("b"))]),
            D([(S("ab"), I(1))]), D([(S("a"), I(1))]), D([(Y(b"a"), I(1))]), D([(I(1), S("a"))])]
    # sets of frozensets: chains are totally ordered, antichains are finding F12
    out += [E([Z([]), Z([I(1)]), Z([I(1), I(2)])]), E([Z([I(0)]), Z([I(1), I(2)])]), Z([Z([I(0)]), Z([I(1)])]),
            D([(Z([I(0)]), I(0)), (Z([I(1), I(2)]), I(1))]), E([Z([I(0)]), Z([I(1)]), Z([I(2)]), Z([I(0), I(1)])])]
    return out


F12_WITNESS = E([Z([I(0)]), Z([I(1), I(2)])])
F12_WITNESS_DICT = D([(Z([I(0)]), S("x")), (Z([I(1), I(2)]), S("y"))])
F13_WITNESS = D([(I(1), S("x")), (S("a"), S("y"))])
F13_WITNESS_SET = E([I(1), S("a")])


def universe(rng, n_random, depth=4):
    """list of (spec, origin)"""
    out = []
    hl = set(map(repr, hashable_leaves()))
    for x in LEAVES:
        for w in wrappers(x, repr(x) in hl):
            out.append((w, "leaf-wrapper"))
    for s in special_cases():
        out.append((s, "special"))
    stats = {}
    for _ in range(n_random):
        out.append((gen_value(rng, depth, stats), "random"))
    # exact duplicates (independently generated equal values must collide)
    for s, o in list(out[:40]) + list(out[-40:]):
        out.append((s, "duplicate"))
    bad = [s for s, _ in out if not well_formed(s)]
    if bad:
        raise RuntimeError("generator produced an ill-formed spec: %r" % (bad[0],))
    return out, stats


def size(s):
    return 1 + sum(size(c) for c in _children(s))


def kind_hist(specs):
    h = {}

    def walk(s):
        h[s[0]] = h.get(s[0], 0) + 1
        for c in _children(s):
            walk(c)
    for s in specs:
        walk(s)
    return h


# ===================================================================== extension: identity, globals, numpy
DTYPES = [("u1", 1), ("i1", 1), ("<i4", 4), (">i2", 2), ("<f8", 8), ("?", 1), ("<U1", 4), ("S2", 2),
          ([["a", "<i2"], ["b", "u1"]], 3)]
SHAPES = [[], [0], [1], [3], [2, 3], [3, 2], [1, 3], [3, 1], [2, 0], [2, 3, 2], [2, 1, 2], [4]]
LAYOUTS = ["C", "C", "F", "T", "slice", "bcast", "neg"]
GLOB_NAMES = ["int", "join", "OrderedDict", "main_fn", "MainCls", "ndarray", "json.dumps", "Sub"]   # python functions / classes only:
# builtin functions (len, pickle.dump) are bound methods of their module for Hasher.save -> _MyHash, outside the model


def arr_spec(rng, dtype=None, shape=None, layout=None, klass=None, data=None):
    dt, isz = dtype if dtype is not None else rng.choice(DTYPES)
    shape = list(shape if shape is not None else rng.choice(SHAPES))
    n = 1
    for s in shape:
        n *= s
    if data is None:
        if dt == "?":
            data = bytes(rng.choice([0, 1]) for _ in range(n))
        elif dt == "<U1":
            data = b"".join(bytes([rng.choice([0, 97, 98, 233]), 0, 0, 0]) for _ in range(n))
        else:
            data = bytes(rng.choice([0, 1, 2, 127, 128, 255]) for _ in range(n * isz))
    layout = layout or rng.choice(LAYOUTS)
    if not shape and layout == "slice":
        layout = "C"            # indexing a 0-d array yields a numpy scalar, not an array
    klass = klass or rng.choice(["ndarray", "ndarray", "ndarray", "memmap", "sub"])
    if klass == "memmap" and n == 0:
        klass = "ndarray"
    if klass == "memmap" and layout not in ("C", "T"):
        layout = "C"
    return ["arr", {"dtype": dt, "shape": shape, "data": bytes(data).hex(), "layout": layout, "klass": klass}]


class _Ids(object):
    def __init__(self):
        self.n = 0
        self.registered = []     # (id, kind) usable as a reference target at this point of the traversal

    def fresh(self):
        self.n += 1
        return self.n


def gen_x(rng, depth, ids, with_np=True):
    r = rng.random()
    if ids.registered and r < 0.22:
        return ["ref", rng.choice(ids.registered)[0]]
    if depth <= 0 or r < 0.45:
        c = rng.random()
        if with_np and c < 0.35:
            return arr_spec(rng)
        if c < 0.5:
            return ["glob", rng.choice(GLOB_NAMES)]
        return ["leaf", gen_value(rng, 1)]
    kind = rng.choice(["T", "T", "L", "D"])
    i = ids.fresh()
    n = rng.choice([0, 1, 2, 2, 3, 4, 5])
    if kind == "T":
        ch = [gen_x(rng, depth - 1, ids, with_np) for _ in range(n)]
        if ch:
            ids.registered.append((i, "T"))      # a tuple is memoised after its items; () never
        return ["T", i, ch]
    ids.registered.append((i, kind))              # lists / dicts are memoised before their items
    if kind == "L":
        return ["L", i, [gen_x(rng, depth - 1, ids, with_np) for _ in range(n)]]
    fam = rng.choice(["int", "str", "bytes", "tuple_int", "num"])
    ks = gen_keys(rng, fam, n)
    return ["D", i, [[k, gen_x(rng, depth - 1, ids, with_np)] for k in ks]]


def x_special(rng):
    t = ["T", 1, [["leaf", I(1)], ["leaf", I(2)]]]
    out = [
        ["L", 9, [t, ["ref", 1]]],                                   # F17 witness: one tuple twice
        ["L", 9, [t, ["T", 2, [["leaf", I(1)], ["leaf", I(2)]]]]],   # ... vs two equal tuples
        ["D", 9, [[S("a"), t], [S("b"), ["ref", 1]]]],
        ["T", 9, [t, ["L", 3, [["ref", 1]]]]],
        ["L", 1, [["ref", 1]]],                                      # recursive list
        ["D", 1, [[I(0), ["ref", 1]]]],                              # recursive dict
        ["L", 9, [["L", 1, []], ["ref", 1], ["ref", 1]]],
        ["T", 9, [["T", 1, [["leaf", I(i)] for i in range(5)]], ["ref", 1]]],
        ["L", 9, [["T", 5, []], ["T", 6, []]]],
        ["L", 9, [["L", 100 + i, []] for i in range(300)] + [["ref", 100], ["ref", 370], ["ref", 399]]],
        # a tuple that contains itself through a list, reached first through the tuple (sorted key order): the
        # "Subtle" branch of save_tuple (POP * n / POP_MARK + BINGET)
        ["D", 1, [[S("b"), ["L", 5, [["T", 7, [["ref", 5], ["leaf", I(1)]]]]]], [S("a"), ["ref", 7]]]],
        ["D", 1, [[S("b"), ["L", 5, [["T", 7, [["ref", 5]] + [["leaf", I(i)] for i in range(4)]]]]], [S("a"), ["ref", 7]]]],
        ["L", 9, [["glob", "join"], ["glob", "join"], ["glob", "int"]]],
        ["T", 9, [["glob", "main_fn"], ["glob", "MainCls"], ["glob", "join"], ["glob", "main_fn"]]],
        ["D", 9, [[S("f"), ["glob", "main_fn"]], [S("g"), ["glob", "json.dumps"]]]],
        ["L", 9, [["leaf", E([I(1)])], ["glob", "Sub"], ["leaf", Z([I(2)])], ["leaf", E([I(3)])]]],
    ]
    a = arr_spec(rng, ("u1", 1), [3], "C", "ndarray", bytes([1, 2, 3]))
    b = arr_spec(rng, ("<i4", 4), [2, 3], "F", "ndarray")
    out += [a, b, ["L", 9, [a, a, b]], ["T", 9, [a]], ["D", 9, [[S("x"), a], [S("y"), b]]],
            ["L", 9, [["leaf", L([I(1)])], a, ["leaf", T([I(2)])], b, ["ref", 9]]]]
    for dt in DTYPES:
        for sh in ([], [0], [3], [2, 3]):
            out.append(arr_spec(rng, dt, sh, "C", "ndarray"))
    for sh in SHAPES:
        n = 1
        for x in sh:
            n *= x
        data = bytes(rng.choice([0, 1, 2, 127, 128, 255]) for _ in range(4 * n))
        for lay in ("C", "F", "T", "slice", "bcast", "neg"):       # one buffer, every layout
            out.append(arr_spec(rng, ("<i4", 4), sh, lay, "ndarray", data))
    for k in ("memmap", "sub"):
        for lay in ("C", "T"):
            out.append(arr_spec(rng, (">i2", 2), [2, 3], lay, k))
    return out


def xcases(rng, n_random):
    cases = []
    for x in x_special(rng):
        cases.append({"x": x, "coerce": False})
        if x[0] == "arr" and x[1]["klass"] != "ndarray":
            cases.append({"x": x, "coerce": True})
    mm = arr_spec(rng, ("u1", 1), [4], "C", "memmap", bytes([9, 8, 7, 6]))
    nd = arr_spec(rng, ("u1", 1), [4], "C", "ndarray", bytes([9, 8, 7, 6]))
    cases += [{"x": ["L", 9, [mm, nd]], "coerce": True}, {"x": ["L", 9, [mm, nd]], "coerce": False},
              {"x": mm, "coerce": True, "twin": "mm"}, {"x": nd, "coerce": True, "twin": "nd"},
              {"x": mm, "coerce": False, "twin": "mm0"}, {"x": nd, "coerce": False, "twin": "nd0"}]
    for _ in range(n_random):
        cases.append({"x": gen_x(rng, 3, _Ids()), "coerce": rng.random() < 0.3})
    return cases


def unshare(x):
    """the same structure built from fresh objects only (references replaced by copies)"""
    defs = {}
    counter = [10 ** 6]

    def collect(y):
        if y[0] in ("T", "L"):
            defs[y[1]] = y
            for c in y[2]:
                collect(c)
        elif y[0] == "D":
            defs[y[1]] = y
            for _, c in y[2]:
                collect(c)
    collect(x)

    def copy(y, stack):
        counter[0] += 1
        i = counter[0]
        if y[0] == "ref":
            if y[1] in stack:
                return None              # recursive reference: no finite unshared counterpart
            return copy(defs[y[1]], stack)
        if y[0] in ("T", "L"):
            ch = [copy(c, stack + [y[1]]) for c in y[2]]
            return None if any(c is None for c in ch) else [y[0], i, ch]
        if y[0] == "D":
            ch = [[k, copy(c, stack + [y[1]])] for k, c in y[2]]
            return None if any(c is None for _, c in ch) else ["D", i, ch]
        return y
    return copy(x, [])


def ref_kinds(x):
    """kinds ('T' / 'L' / 'D') of the objects that occur more than once"""
    kinds = {}
    out = set()

    def walk(y):
        if y[0] in ("T", "L", "D"):
            kinds[y[1]] = y[0]
            for c in (y[2] if y[0] != "D" else [c for _, c in y[2]]):
                walk(c)
        elif y[0] == "ref":
            out.add(kinds.get(y[1], "?"))
    walk(x)
    return out


def _bl(hexs):
    return _zl(bytes.fromhex(hexs))


def coq_xvalue(d, defs=None, stack=()):
    """Gallina xvalue from the description returned by c08x_impl.py.  Every occurrence of a shared object
    carries its full definition (the model looks the id up in the memo first, so whichever occurrence the
    traversal -- e.g. the sorted order of a dict -- reaches first is the one that gets encoded); only a
    reference to an object that is still being built (a cycle) is a stub."""
    if defs is None:
        defs = {}

        def collect(y):
            if y[0] in ("T", "L"):
                defs[y[1]] = y
                for c in y[2]:
                    collect(c)
            elif y[0] == "D":
                defs[y[1]] = y
                for _, c in y[2]:
                    collect(c)
        collect(d)
    t = d[0]
    if t == "leaf":
        return "(XLeaf %s)" % coq_value(d[1])
    if t == "glob":
        return "(XGlobal %s)" % _bl(d[1])
    if t == "arr":
        a = d[1]
        raw = bytes.fromhex(a["elems"])
        isz = a["itemsize"]
        elems = [raw[i:i + isz] for i in range(0, len(raw), isz)] if isz else []
        return ("(XArr {| a_klass := %s; a_is_memmap := %s; a_dtype_pickle := %s; a_shape := [%s]; a_strides := [%s]; "
                "a_cflag := %s; a_fflag := %s; a_elems := [%s] |})"
                % (_bl(a["klass"]), "true" if a["is_memmap"] else "false", _bl(a["dtype_pickle"]),
                   "; ".join("(%d)" % s for s in a["shape"]), "; ".join("(%d)" % s for s in a["strides"]),
                   "true" if a["cflag"] else "false", "true" if a["fflag"] else "false",
                   "; ".join(_zl(e) for e in elems)))
    if t == "ref":
        if d[1] in stack:
            # a list / dict that is still being built is already in the memo: a stub is enough
            return {"L": "(XList (%d) [])", "D": "(XDict (%d) [])"}[d[2]] % d[1]
        return coq_xvalue(defs[d[1]], defs, stack)
    # tuples are memoised AFTER their items: a tuple reached again from inside itself (through a list or dict)
    # is saved a second time in full, so it is never a stub; every cycle goes through a list or dict, which ends
    # the expansion
    st = stack + (d[1],) if t != "T" else stack
    if t in ("T", "L"):
        return "(%s (%d) [%s])" % ("XTuple" if t == "T" else "XList", d[1], "; ".join(coq_xvalue(c, defs, st) for c in d[2]))
    if t == "D":
        return "(XDict (%d) [%s])" % (d[1], "; ".join("(%s, %s)" % (coq_value(k), coq_xvalue(c, defs, st)) for k, c in d[2]))
    raise ValueError(d)


def x_has(d, kind):
    if d[0] == kind:
        return True
    if d[0] in ("T", "L"):
        return any(x_has(c, kind) for c in d[2])
    if d[0] == "D":
        return any(x_has(c, kind) for _, c in d[2])
    return False


# ===================================================================== constants regenerated from the live source
class GenError(Exception):
    pass


OPCODE_NAMES = ["PROTO", "STOP", "NONE", "NEWTRUE", "NEWFALSE", "BININT1", "BININT2", "BININT", "LONG1", "LONG4", "BINFLOAT",
                "BINUNICODE", "SHORT_BINBYTES", "BINBYTES", "EMPTY_TUPLE", "TUPLE1", "TUPLE2", "TUPLE3", "MARK", "TUPLE",
                "EMPTY_LIST", "APPEND", "APPENDS", "EMPTY_DICT", "SETITEM", "SETITEMS", "BINPUT", "LONG_BINPUT", "BINGET",
                "LONG_BINGET", "GLOBAL", "NEWOBJ", "BUILD", "POP", "POP_MARK"]


def _bytes_def(name, b):
    return "Definition %s : list Z := [%s]." % (name, "; ".join(str(x) for x in bytes(b)))


def gen_constants(hashing_path, live):
    """Gallina text of coq/Gen/C08_Constants.v: what Model/HashEnc*.v copies by hand from joblib/hashing.py (read
    off the AST of the CURRENT source, fail-closed) and from the pickle module of the implementation interpreter
    (`live`, printed by impl/c08_impl.py).  Proofs/HashEncGenTie.v proves the model's constants equal to these."""
    import ast
    src = open(hashing_path, encoding="utf-8").read()
    tree = ast.parse(src)
    classes = {n.name: n for n in tree.body if isinstance(n, ast.ClassDef)}
    funcs = {n.name: n for n in tree.body if isinstance(n, ast.FunctionDef)}
    for need in ("_ConsistentSet", "_ConsistentFrozenSet", "Hasher", "NumpyHasher"):
        if need not in classes:
            raise GenError("class %s not found in hashing.py" % need)
    if "hash" not in funcs:
        raise GenError("function hash not found")
    # _ConsistentFrozenSet derives from _ConsistentSet
    bases = [b.id for b in classes["_ConsistentFrozenSet"].bases if isinstance(b, ast.Name)]
    if bases != ["_ConsistentSet"]:
        raise GenError("_ConsistentFrozenSet bases: %r" % bases)
    # the attribute assigned in _ConsistentSet.__init__
    attrs = sorted({t.attr for n in ast.walk(classes["_ConsistentSet"]) if isinstance(n, ast.Assign)
                    for t in n.targets if isinstance(t, ast.Attribute) and isinstance(t.value, ast.Name) and t.value.id == "self"})
    if len(attrs) != 1:
        raise GenError("_ConsistentSet assigns %r" % attrs)
    hasher = classes["Hasher"]
    meths = {n.name: n for n in hasher.body if isinstance(n, ast.FunctionDef)}
    # protocol literal in Hasher.__init__
    protos = [n.value.value for n in ast.walk(meths["__init__"]) if isinstance(n, ast.Assign)
              and any(isinstance(t, ast.Name) and t.id == "protocol" for t in n.targets) and isinstance(n.value, ast.Constant)]
    if len(protos) != 1:
        raise GenError("protocol assignments: %r" % protos)
    # memoize: isinstance(obj, (<types>)) -> return
    skips = None
    for n in ast.walk(meths["memoize"]):
        if isinstance(n, ast.If) and isinstance(n.test, ast.Call) and getattr(n.test.func, "id", None) == "isinstance" \
                and len(n.body) == 1 and isinstance(n.body[0], ast.Return):
            a = n.test.args[1]
            skips = sorted(e.id for e in (a.elts if isinstance(a, ast.Tuple) else [a]) if isinstance(e, ast.Name))
    if skips is None:
        raise GenError("memoize: isinstance guard not found")
    # dispatch[...] = save_set / save_frozenset registrations in the class body
    disp = []
    for n in hasher.body:
        if isinstance(n, ast.Assign) and isinstance(n.targets[0], ast.Subscript) and getattr(n.targets[0].value, "id", None) == "dispatch" \
                and isinstance(n.value, ast.Name) and n.value.id in ("save_set", "save_frozenset"):
            disp.append((ast.unparse(n.targets[0].slice), n.value.id))
    # which wrapper class each save_* method instantiates
    wraps = {}
    for mname in ("save_set", "save_frozenset"):
        if mname not in meths:
            raise GenError("Hasher.%s missing" % mname)
        calls = [c.func.id for c in ast.walk(meths[mname]) if isinstance(c, ast.Call) and isinstance(c.func, ast.Name)
                 and c.func.id.startswith("_Consistent")]
        if len(calls) != 1:
            raise GenError("%s wraps %r" % (mname, calls))
        wraps[mname] = calls[0]
    # NumpyHasher tags
    strs = [n.value for n in ast.walk(classes["NumpyHasher"]) if isinstance(n, ast.Constant) and isinstance(n.value, str)]
    for tag in ("HASHED", "_HASHED_DTYPE"):
        if tag not in strs:
            raise GenError("NumpyHasher: constant %r not found" % tag)
    # hash(): default and admissible algorithm names
    hf = funcs["hash"]
    defaults = {a.arg: d.value for a, d in zip(hf.args.args[-len(hf.args.defaults):], hf.args.defaults) if isinstance(d, ast.Constant)}
    valid = [tuple(e.value for e in n.value.elts) for n in ast.walk(hf) if isinstance(n, ast.Assign)
             and getattr(n.targets[0], "id", None) == "valid_hash_names" and isinstance(n.value, ast.Tuple)]
    if defaults.get("hash_name") is None or len(valid) != 1:
        raise GenError("hash(): defaults %r valid %r" % (defaults, valid))
    ops = live.get("opcodes") or {}
    missing = [o for o in OPCODE_NAMES if o not in ops]
    if missing:
        raise GenError("implementation interpreter did not report opcodes %r" % missing)
    out = ["(* GENERATED by harness/gen_c08.py from %s and the pickle module of the implementation interpreter." % "joblib/hashing.py",
           "   Do not edit: rewritten on every run of ./check C08. *)",
           "From Coq Require Import ZArith List.", "Import ListNotations.", "Open Scope Z_scope.", ""]
    for o in OPCODE_NAMES:
        out.append("Definition g_%s : Z := %d." % (o, ops[o]))
    out.append("Definition g_opcodes : list Z := [%s]." % "; ".join("g_" + o for o in OPCODE_NAMES[:-2]))
    out.append("Definition g_protocol : Z := %d." % protos[0])
    out.append("Definition g_batchsize : Z := %d." % live["batchsize"])
    mod = "joblib.hashing\n"
    out.append(_bytes_def("g_set_global", (mod + wraps["save_set"] + "\n").encode()))
    out.append(_bytes_def("g_fset_global", (mod + wraps["save_frozenset"] + "\n").encode()))
    out.append(_bytes_def("g_live_set_global", live["set_name"].encode()))
    out.append(_bytes_def("g_live_fset_global", live["fset_name"].encode()))
    out.append(_bytes_def("g_sequence_attr", attrs[0].encode()))
    out.append(_bytes_def("g_tag_hashed", b"HASHED"))
    out.append(_bytes_def("g_tag_dtype", b"_HASHED_DTYPE"))
    out.append("Definition g_memoize_skips : list (list Z) := [%s]." % "; ".join("[%s]" % "; ".join(str(x) for x in s.encode()) for s in skips))
    out.append("Definition g_dispatch : list (list Z * list Z) := [%s]." % "; ".join(
        "([%s], [%s])" % ("; ".join(str(x) for x in k.encode()), "; ".join(str(x) for x in v.encode())) for k, v in disp))
    out.append(_bytes_def("g_default_hash_name", defaults["hash_name"].encode()))
    out.append("Definition g_valid_hash_names : list (list Z) := [%s]." % "; ".join(
        "[%s]" % "; ".join(str(x) for x in s.encode()) for s in valid[0]))
    out.append("Definition g_pickler_is_pure_python : bool := %s." % ("true" if live.get("pickler_is_pure_python") else "false"))
    return "\n".join(out) + "\n"
