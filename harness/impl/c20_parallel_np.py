"""Sampled life-cycle of joblib's per-call temporary folder (TemporaryResourcesManager + the real loky
resource tracker) through real ``Parallel`` calls with numpy arrays large enough to be memmapped.
Interpreter: python3-vt (numpy) with PYTHONPATH = repo under test.

usage: c20_parallel_np.py <scratch> normal|kill|kill-rel|terminate-pending|kill-werror      -> one JSON line on stdout

normal: two calls inside one ``with Parallel`` block, then a normal interpreter exit.
kill  : the tasks block; the parent process is SIGKILLed in the middle of the call, then (loky workers
        outlive their parent until their idle timeout and keep the tracker pipe open) both workers.
kill-rel: as kill, with JOBLIB_TEMP_FOLDER given as a relative name and the tracker started under another cwd.
terminate-pending: MemmappingExecutor.terminate(kill_workers=False) while a submitted task whose argument was
        dumped to a tracked temp file is still pending behind a blocking task (one worker): the pending user must
        still find its file and return the right value.
kill-werror: the same with ``python -W error`` (inherited by the tracker): known finding F18b.
Observed: the workers see an existing memmap file under JOBLIB_TEMP_FOLDER while the call runs;
after the parent is gone (and its workers and tracker have ended) nothing is left there.
"""
import json
import os
import signal
import subprocess
import sys
import tempfile
import time

WORKLOAD = r"""
import json, os, sys, time
import numpy as np
import joblib
from joblib.externals.loky.backend.resource_tracker import _resource_tracker

flag_dir, mode = sys.argv[1], sys.argv[2]

def task(a, i, block):
    from joblib.externals.loky.backend.resource_tracker import _resource_tracker as _rt
    fn = getattr(a, "filename", None)
    with open(os.path.join(flag_dir, "seen-%d-%d" % (os.getpid(), i)), "w") as f:
        json.dump({"filename": fn, "exists": bool(fn and os.path.exists(fn)), "pid": os.getpid(),
                   "tracker": _rt._pid}, f)
    if block:
        t0 = time.time()  # "kill" and "kill-werror"
        while not os.path.exists(os.path.join(flag_dir, "go")) and time.time() - t0 < 8:
            time.sleep(0.01)
    return float(a.sum()) + i

if mode == "kill-rel":
    # the tracker is started while the cwd is A; JOBLIB_TEMP_FOLDER is the relative name "tmp" (below the parent)
    os.chdir("A")
    _resource_tracker.ensure_running()
    os.chdir("..")
a = np.ones(30000)
with joblib.Parallel(n_jobs=2, max_nbytes=1000) as p:
    out1 = p(joblib.delayed(task)(a, i, mode.startswith("kill")) for i in range(4))
    mid = sorted(os.listdir(os.environ["JOBLIB_TEMP_FOLDER"]))
    out2 = p(joblib.delayed(task)(a * 2, 10 + i, False) for i in range(3))
print(json.dumps({"out1": out1, "out2": out2, "mid": mid, "tracker": _resource_tracker._pid}), flush=True)
"""


WORKLOAD_TERMINATE = r"""
import json, os, sys, time, threading
import numpy as np
from joblib.executor import get_memmapping_executor
flag_dir = sys.argv[1]
def blocker(flag_dir):
    t0 = time.time()
    while not os.path.exists(os.path.join(flag_dir, "go")) and time.time() - t0 < 20:
        time.sleep(0.01)
    return "unblocked"
def user(a, flag_dir):
    fn = getattr(a, "filename", None)
    ok = bool(fn and os.path.exists(fn))
    with open(os.path.join(flag_dir, "seen-%d" % os.getpid()), "w") as f:
        json.dump({"filename": fn, "exists": ok}, f)
    return float(a.sum())
tmp = os.environ["JOBLIB_TEMP_FOLDER"]
ex = get_memmapping_executor(1, max_nbytes=1000, context_id="ctxA")
f1 = ex.submit(blocker, flag_dir)
a = np.ones(30000)
f2 = ex.submit(user, a, flag_dir)
# wait until the argument of the pending task has been dumped (and registered) by the feeder thread
t0 = time.time()
def dumped():
    return [os.path.join(d, x) for d, _, fs in os.walk(tmp) for x in fs]
while not dumped() and time.time() - t0 < 10:
    time.sleep(0.01)
before = dumped()
threading.Timer(1.0, lambda: open(os.path.join(flag_dir, "go"), "w").close()).start()
ex.terminate(kill_workers=False)
res = {}
for name, f in (("f1", f1), ("f2", f2)):
    try:
        res[name] = f.result(timeout=30)
    except BaseException as e:
        res[name] = "EXC %s: %s" % (type(e).__name__, str(e)[:200])
print(json.dumps({"before": [os.path.basename(x) for x in before], "res": res, "after": dumped()}))
"""


def gone(pid):
    try:
        with open("/proc/%d/stat" % pid) as f:
            return f.read().rsplit(")", 1)[1].split()[0] == "Z"
    except (FileNotFoundError, ProcessLookupError):
        return True


def main():
    scratch, mode = sys.argv[1], sys.argv[2]
    base = tempfile.mkdtemp(prefix="c20np-", dir=scratch)
    tmpf = os.path.join(base, "tmp")
    flags = os.path.join(base, "flags")
    os.makedirs(tmpf)
    os.makedirs(flags)
    os.makedirs(os.path.join(base, "A"))
    env = dict(os.environ, JOBLIB_TEMP_FOLDER="tmp" if mode == "kill-rel" else tmpf)
    errf = open(os.path.join(base, "stderr"), "wb")
    wflags = ["-W", "error"] if mode == "kill-werror" else []
    p = subprocess.Popen([sys.executable] + wflags + ["-c", WORKLOAD_TERMINATE if mode == "terminate-pending" else WORKLOAD, flags, mode], env=env, stdout=subprocess.PIPE, stderr=errf,
                         stdin=subprocess.DEVNULL, cwd=base)
    res = {"mode": mode, "flags": []}

    def seen():
        out = []
        for fn in os.listdir(flags):
            if fn.startswith("seen-"):
                try:
                    out.append(json.load(open(os.path.join(flags, fn))))
                except ValueError:
                    pass
        return out

    if mode.startswith("kill"):
        t0 = time.time()
        while len({x["pid"] for x in seen()}) < 2 and time.time() - t0 < 30 and p.poll() is None:
            time.sleep(0.01)
        s = seen()
        workers = sorted({x["pid"] for x in s})
        res["seen"] = s
        res["during"] = sorted(os.listdir(tmpf))
        res["files_during"] = [os.path.exists(x["filename"]) for x in s if x["filename"]]
        if len(workers) < 2:
            res["flags"].append("workers-not-seen")
        if p.poll() is not None:
            res["flags"].append("workload-ended-early")
        else:
            os.kill(p.pid, signal.SIGKILL)
        p.wait()
        # the parent is gone, its two workers are still blocked inside their tasks and still hold the pipe
        res["after_parent_kill"] = sorted(os.listdir(tmpf))
        res["workers_alive_then"] = [not gone(w) for w in workers]
        for w in workers:
            try:
                os.kill(w, signal.SIGKILL)
            except OSError:
                pass
        trackers = sorted({x.get("tracker") for x in s if x.get("tracker")})
        res["trackers"] = trackers
        t0 = time.time()
        # definitive end point: the tracker process has terminated (EOF phase over)
        while trackers and not all(gone(t) for t in trackers) and time.time() - t0 < 30:
            time.sleep(0.01)
        if not trackers or not all(gone(t) for t in trackers):
            res["flags"].append("tracker-unknown-or-still-running-after-60s")
            while os.listdir(tmpf) and time.time() - t0 < 30:
                time.sleep(0.05)
        res["left"] = sorted(os.listdir(tmpf))
        res["waited_s"] = round(time.time() - t0, 2)
    elif mode == "terminate-pending":
        pass  # handled below (own workload)
    else:
        try:
            out, _ = p.communicate(timeout=60)
        except subprocess.TimeoutExpired:
            p.kill()
            out = b""
            res["flags"].append("workload-timeout")
        res["rc"] = p.returncode
        try:
            w = json.loads(out.decode().strip().splitlines()[-1])
        except Exception:  # noqa
            w = None
            res["flags"].append("no-output")
        res["workload"] = w
        res["seen"] = seen()
        if w and w.get("tracker"):
            t0 = time.time()
            while not gone(w["tracker"]) and time.time() - t0 < 30:
                time.sleep(0.02)
            if not gone(w["tracker"]):
                res["flags"].append("tracker-still-running-after-90s")
        t0 = time.time()
        while os.listdir(tmpf) and time.time() - t0 < 5:
            time.sleep(0.05)
        res["left"] = sorted(os.listdir(tmpf))
    if mode == "terminate-pending":
        try:
            out, _ = p.communicate(timeout=60)
            res["workload"] = json.loads(out.decode().strip().splitlines()[-1])
        except subprocess.TimeoutExpired:
            p.kill()
            res["flags"].append("workload-timeout")
        except Exception:  # noqa
            res["flags"].append("no-output")
        res["seen"] = seen()
        res["left"] = sorted(os.listdir(tmpf))
    errf.close()
    try:
        res["stderr_tail"] = open(os.path.join(base, "stderr"), "rb").read().decode("utf-8", "replace")[-500:]
    except OSError:
        pass
    print(json.dumps(res), flush=True)


if __name__ == "__main__":
    main()
