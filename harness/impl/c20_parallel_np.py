"""Sampled life-cycle of joblib's per-call temporary folder (TemporaryResourcesManager + the real loky
resource tracker) through real ``Parallel`` calls with numpy arrays large enough to be memmapped.
Interpreter: python3-vt (numpy) with PYTHONPATH = repo under test.

usage: c20_parallel_np.py <scratch> normal|kill|kill-rel|terminate-pending|two-calls|kill-werror      -> one JSON line on stdout

normal: two calls inside one ``with Parallel`` block, then a normal interpreter exit.
kill  : the tasks block; the parent process is SIGKILLed in the middle of the call, then (loky workers
        outlive their parent until their idle timeout and keep the tracker pipe open) both workers.
kill-rel: as kill, with JOBLIB_TEMP_FOLDER given as a relative name and the tracker started under another cwd.
terminate-pending: MemmappingExecutor.terminate(kill_workers=False) while a submitted task whose argument was
        dumped to a tracked temp file is still pending behind a blocking task (one worker): the pending user must
        still find its file and return the right value.
two-calls: two Parallel objects share the reusable loky executor; call B (generator) is blocked on a task while the
        unrelated call A completes: B's memmap file, folder and context must survive the end of A.
same-array-contexts: the real ArrayMemmapForwardReducer + manager: ONE large array sent under three successive contexts
        (a loop over Parallel objects on the shared executor), the worker's MAYBE_UNLINK played by the driver: the file
        must outlive the first release in every context; registers per context are counted.
delete-race: delete_folder(allow_non_empty=False) on a folder that is non-empty at the first listing and empty right
        after it (os.listdir of joblib.disk wrapped), and the real end-of-call clean-up with the tracker resumed 0.25 s
        after it started: the folder must be gone afterwards.
kill-werror: the same with ``python -W error`` (inherited by the tracker): known finding F18b.
Observed: the workers see an existing memmap file under JOBLIB_TEMP_FOLDER while the call runs;
after the parent is gone (and its workers and tracker have ended) nothing is left there.
"""
import json
import os
import signal
import subprocess
import sys
import tempfile
import time

WORKLOAD = r"""
import json, os, sys, time
import numpy as np
import joblib
from joblib.externals.loky.backend.resource_tracker import _resource_tracker

flag_dir, mode = sys.argv[1], sys.argv[2]

def task(a, i, block):
    from joblib.externals.loky.backend.resource_tracker import _resource_tracker as _rt
    fn = getattr(a, "filename", None)
    with open(os.path.join(flag_dir, "seen-%d-%d" % (os.getpid(), i)), "w") as f:
        json.dump({"filename": fn, "exists": bool(fn and os.path.exists(fn)), "pid": os.getpid(),
                   "tracker": _rt._pid}, f)
    if block:
        t0 = time.time()  # "kill" and "kill-werror"
        while not os.path.exists(os.path.join(flag_dir, "go")) and time.time() - t0 < 8:
            time.sleep(0.01)
    return float(a.sum()) + i

if mode == "kill-rel":
    # the tracker is started while the cwd is A; JOBLIB_TEMP_FOLDER is the relative name "tmp" (below the parent)
    os.chdir("A")
    _resource_tracker.ensure_running()
    os.chdir("..")
a = np.ones(30000)
with joblib.Parallel(n_jobs=2, max_nbytes=1000) as p:
    out1 = p(joblib.delayed(task)(a, i, mode.startswith("kill")) for i in range(4))
    mid = sorted(os.listdir(os.environ["JOBLIB_TEMP_FOLDER"]))
    out2 = p(joblib.delayed(task)(a * 2, 10 + i, False) for i in range(3))
print(json.dumps({"out1": out1, "out2": out2, "mid": mid, "tracker": _resource_tracker._pid}), flush=True)
"""


WORKLOAD_TERMINATE = r"""
import json, os, sys, time, threading
import numpy as np
from joblib.executor import get_memmapping_executor
flag_dir = sys.argv[1]
def blocker(flag_dir):
    t0 = time.time()
    while not os.path.exists(os.path.join(flag_dir, "go")) and time.time() - t0 < 20:
        time.sleep(0.01)
    return "unblocked"
def user(a, flag_dir):
    fn = getattr(a, "filename", None)
    ok = bool(fn and os.path.exists(fn))
    with open(os.path.join(flag_dir, "seen-%d" % os.getpid()), "w") as f:
        json.dump({"filename": fn, "exists": ok}, f)
    return float(a.sum())
tmp = os.environ["JOBLIB_TEMP_FOLDER"]
ex = get_memmapping_executor(1, max_nbytes=1000, context_id="ctxA")
f1 = ex.submit(blocker, flag_dir)
a = np.ones(30000)
f2 = ex.submit(user, a, flag_dir)
# wait until the argument of the pending task has been dumped (and registered) by the feeder thread
t0 = time.time()
def dumped():
    return [os.path.join(d, x) for d, _, fs in os.walk(tmp) for x in fs]
while not dumped() and time.time() - t0 < 10:
    time.sleep(0.01)
before = dumped()
threading.Timer(1.0, lambda: open(os.path.join(flag_dir, "go"), "w").close()).start()
ex.terminate(kill_workers=False)
res = {}
for name, f in (("f1", f1), ("f2", f2)):
    try:
        res[name] = f.result(timeout=30)
    except BaseException as e:
        res[name] = "EXC %s: %s" % (type(e).__name__, str(e)[:200])
print(json.dumps({"before": [os.path.basename(x) for x in before], "res": res, "after": dumped()}))
"""


WORKLOAD_TWO_CALLS = r"""
import json, os, sys, time
import numpy as np
import joblib
from joblib import Parallel, delayed

flag_dir = sys.argv[1]
root = os.environ["JOBLIB_TEMP_FOLDER"]

def total(a, i):
    return float(a.sum()) + i

def small(i):
    return i + 1

def blocker(release):
    t0 = time.time()
    while not os.path.exists(release) and time.time() - t0 < 40:
        time.sleep(0.02)
    return -1.0

def wait(cond, limit=20):
    t0 = time.time()
    while not cond() and time.time() - t0 < limit:
        time.sleep(0.02)
    return cond()

big = np.arange(20000, dtype=np.float64)
release = os.path.join(flag_dir, "release")
out = {"setup": [], "problems": []}
# call B: two quick tasks on a memmapped array and one long task; B is still running during the checks
pb = Parallel(n_jobs=2, max_nbytes=1000, return_as="generator", pre_dispatch=2, batch_size=1)
gen_b = pb([delayed(total)(big, 0), delayed(blocker)(release), delayed(total)(big, 2)])
first = next(gen_b)
if not wait(lambda: pb.n_completed_tasks >= 2):
    out["setup"].append("quick tasks of B did not finish")
time.sleep(0.5)
manager = pb._backend._workers._temp_folder_manager
folder_b = manager._cached_temp_folders.get(pb._id)
files_b = [os.path.join(folder_b, f) for f in os.listdir(folder_b)] if folder_b and os.path.isdir(folder_b) else []
out["files_b"] = len(files_b)
if not files_b:
    out["setup"].append("call B has no memmap file")
# call A: unrelated short call on the same reusable executor, completes while B is unfinished
pa = Parallel(n_jobs=2, max_nbytes=1000)
res_a = pa(delayed(small)(i) for i in range(4))
out["res_a"] = res_a
if pb._backend._workers is None or pb._backend._workers._temp_folder_manager is not manager:
    out["setup"].append("B is not running any more / the calls do not share one executor")
time.sleep(0.7)   # let the tracker process what the end of A sent
for f in files_b:
    if not os.path.exists(f):
        out["problems"].append("memmap file of the still running call B was deleted when the unrelated call A finished")
if folder_b and not os.path.isdir(folder_b):
    out["problems"].append("temporary folder of the still running call B was deleted when call A finished")
if pb._id not in manager._cached_temp_folders:
    out["problems"].append("context of the still running call B was forgotten by the manager when call A finished")
open(release, "w").close()
rest = list(gen_b)
out["res_b_ok"] = ([first] + rest == [float(big.sum()), -1.0, float(big.sum()) + 2])
if not out["res_b_ok"]:
    out["problems"].append("wrong results for call B: %r" % ([first] + rest,))
del gen_b
wait(lambda: not any(os.path.exists(f) for f in files_b), 10)
if any(os.path.exists(f) for f in files_b):
    out["problems"].append("files of call B not deleted after B ended")
print(json.dumps(out), flush=True)
"""


WORKLOAD_CONTEXTS = r"""
import json, os, sys, time
import numpy as np
import joblib
from joblib._memmapping_reducer import ArrayMemmapForwardReducer, TemporaryResourcesManager
from joblib.externals.loky.backend import resource_tracker as rt

flag_dir = sys.argv[1]
root = os.environ["JOBLIB_TEMP_FOLDER"]
errp = os.path.join(os.path.dirname(flag_dir), "stderr")
n_sync = [0]
raw_register = rt.register

def sync():
    n_sync[0] += 1
    marker = "jvsync-%d" % n_sync[0]
    raw_register(marker, "jvsynctype")
    t0 = time.time()
    while time.time() - t0 < 15:
        with open(errp, "rb") as f:
            if marker.encode() in f.read():
                return True
        time.sleep(0.001)
    return False

sent = []
def wrap(kind, func):
    def f(name, rtype):
        sent.append([kind, rtype, name])
        return func(name, rtype)
    return f
rt.register = wrap("reg", rt.register)
rt.unregister = wrap("unreg", rt.unregister)
rt.maybe_unlink = wrap("unl", rt.maybe_unlink)

out = {"problems": [], "contexts": [], "synced": True}
mgr = TemporaryResourcesManager(root, context_id="ctxA")
reducer = ArrayMemmapForwardReducer(0, mgr.resolve_temp_folder_name, "r", True, prewarm=False)
a = np.arange(5000, dtype=np.float64)
for ctx in ("ctxA", "ctxB", "ctxC"):
    mgr.set_current_context(ctx)
    folder = mgr.resolve_temp_folder_name()
    del sent[:]
    _, (filename, _, _) = reducer(a)                 # the parent pickles `a` for a task of this call
    first_regs = sum(1 for k, t, n in sent if k == "reg" and n == filename)
    rt.maybe_unlink(filename, "file")               # the worker that got the task drops its memmap
    out["synced"] &= sync()
    alive_after_first_release = os.path.exists(filename)
    _, (filename2, _, _) = reducer(a)                # same array, next task of the same call
    regs = sum(1 for k, t, n in sent if k == "reg" and n == filename)
    rt.maybe_unlink(filename, "file")               # second worker done
    out["synced"] &= sync()
    alive_before_end = os.path.exists(filename)
    mgr._clean_temporary_resources(context_id=ctx, force=False)   # end of the call
    out["synced"] &= sync()
    out["contexts"].append({"ctx": ctx, "same_file": filename2 == filename, "in_folder": os.path.dirname(filename) == folder,
                            "registers_first_send": first_regs, "registers_total": regs,
                            "alive_after_first_release": alive_after_first_release, "alive_before_end": alive_before_end,
                            "folder_gone_after_end": not os.path.exists(folder)})
print(json.dumps(out), flush=True)
os._exit(0)
"""

WORKLOAD_RACE = r"""
import json, os, signal, sys, threading, time
import joblib, joblib.disk
from joblib._memmapping_reducer import TemporaryResourcesManager
from joblib.externals.loky.backend import resource_tracker as rt

flag_dir = sys.argv[1]
root = os.environ["JOBLIB_TEMP_FOLDER"]
out = {}

# (i) delete_folder driven directly: the folder holds one file at the first listing and is emptied right after it
#     (what the tracker does when it handles the last MAYBE_UNLINK a moment later)
folder = os.path.join(root, "direct")
os.makedirs(folder)
victim = os.path.join(folder, "last.pkl")
open(victim, "wb").close()
real_os = os
class OsProxy(object):
    calls = 0
    def __getattr__(self, name):
        return getattr(real_os, name)
    def listdir(self, path):
        r = real_os.listdir(path)
        OsProxy.calls += 1
        if OsProxy.calls == 1 and real_os.path.exists(victim):
            real_os.unlink(victim)
        return r
joblib.disk.os = OsProxy()
t0 = time.time()
try:
    joblib.disk.delete_folder(folder, allow_non_empty=False)
    out["direct_raised"] = None
except Exception as e:
    out["direct_raised"] = "%s: %s" % (type(e).__name__, str(e)[:120])
joblib.disk.os = real_os
out["direct_listings"] = OsProxy.calls
out["direct_folder_left"] = os.path.exists(folder)
out["direct_seconds"] = round(time.time() - t0, 2)

# (ii) the real path: end-of-call clean-up racing with the tracker, which is frozen while the clean-up starts and
#      resumed 0.25 s later (inside delete_folder's retry window of 10 x 0.1 s)
mgr = TemporaryResourcesManager(root, context_id="ctxR")
f2 = mgr.resolve_temp_folder_name()
os.makedirs(f2)
fn = os.path.join(f2, "array.pkl")
open(fn, "wb").close()
rt.register(fn, "file")
time.sleep(0.3)
pid = rt._resource_tracker._pid
os.kill(pid, signal.SIGSTOP)
threading.Timer(0.25, lambda: os.kill(pid, signal.SIGCONT)).start()
mgr._clean_temporary_resources(context_id="ctxR", force=False)
out["real_folder_left"] = os.path.exists(f2)
out["real_file_left"] = os.path.exists(fn)
print(json.dumps(out), flush=True)
os._exit(0)
"""


OWN_WORKLOAD = ("terminate-pending", "two-calls", "same-array-contexts", "delete-race")


def gone(pid):
    try:
        with open("/proc/%d/stat" % pid) as f:
            return f.read().rsplit(")", 1)[1].split()[0] == "Z"
    except (FileNotFoundError, ProcessLookupError):
        return True


def main():
    scratch, mode = sys.argv[1], sys.argv[2]
    base = tempfile.mkdtemp(prefix="c20np-", dir=scratch)
    tmpf = os.path.join(base, "tmp")
    flags = os.path.join(base, "flags")
    os.makedirs(tmpf)
    os.makedirs(flags)
    os.makedirs(os.path.join(base, "A"))
    env = dict(os.environ, JOBLIB_TEMP_FOLDER="tmp" if mode == "kill-rel" else tmpf)
    errf = open(os.path.join(base, "stderr"), "wb")
    wflags = ["-W", "error"] if mode == "kill-werror" else []
    p = subprocess.Popen([sys.executable] + wflags + ["-c", {"terminate-pending": WORKLOAD_TERMINATE, "two-calls": WORKLOAD_TWO_CALLS,
                                                              "same-array-contexts": WORKLOAD_CONTEXTS, "delete-race": WORKLOAD_RACE}.get(mode, WORKLOAD), flags, mode], env=env, stdout=subprocess.PIPE, stderr=errf,
                         stdin=subprocess.DEVNULL, cwd=base)
    res = {"mode": mode, "flags": []}

    def seen():
        out = []
        for fn in os.listdir(flags):
            if fn.startswith("seen-"):
                try:
                    out.append(json.load(open(os.path.join(flags, fn))))
                except ValueError:
                    pass
        return out

    if mode.startswith("kill"):
        t0 = time.time()
        while len({x["pid"] for x in seen()}) < 2 and time.time() - t0 < 30 and p.poll() is None:
            time.sleep(0.01)
        s = seen()
        workers = sorted({x["pid"] for x in s})
        res["seen"] = s
        res["during"] = sorted(os.listdir(tmpf))
        res["files_during"] = [os.path.exists(x["filename"]) for x in s if x["filename"]]
        if len(workers) < 2:
            res["flags"].append("workers-not-seen")
        if p.poll() is not None:
            res["flags"].append("workload-ended-early")
        else:
            os.kill(p.pid, signal.SIGKILL)
        p.wait()
        # the parent is gone, its two workers are still blocked inside their tasks and still hold the pipe
        res["after_parent_kill"] = sorted(os.listdir(tmpf))
        res["workers_alive_then"] = [not gone(w) for w in workers]
        for w in workers:
            try:
                os.kill(w, signal.SIGKILL)
            except OSError:
                pass
        trackers = sorted({x.get("tracker") for x in s if x.get("tracker")})
        res["trackers"] = trackers
        t0 = time.time()
        # definitive end point: the tracker process has terminated (EOF phase over)
        while trackers and not all(gone(t) for t in trackers) and time.time() - t0 < 30:
            time.sleep(0.01)
        if not trackers or not all(gone(t) for t in trackers):
            res["flags"].append("tracker-unknown-or-still-running-after-60s")
            while os.listdir(tmpf) and time.time() - t0 < 30:
                time.sleep(0.05)
        res["left"] = sorted(os.listdir(tmpf))
        res["waited_s"] = round(time.time() - t0, 2)
    elif mode in OWN_WORKLOAD:
        pass  # handled below (own workload)
    else:
        try:
            out, _ = p.communicate(timeout=60)
        except subprocess.TimeoutExpired:
            p.kill()
            out = b""
            res["flags"].append("workload-timeout")
        res["rc"] = p.returncode
        try:
            w = json.loads(out.decode().strip().splitlines()[-1])
        except Exception:  # noqa
            w = None
            res["flags"].append("no-output")
        res["workload"] = w
        res["seen"] = seen()
        if w and w.get("tracker"):
            t0 = time.time()
            while not gone(w["tracker"]) and time.time() - t0 < 30:
                time.sleep(0.02)
            if not gone(w["tracker"]):
                res["flags"].append("tracker-still-running-after-90s")
        t0 = time.time()
        while os.listdir(tmpf) and time.time() - t0 < 5:
            time.sleep(0.05)
        res["left"] = sorted(os.listdir(tmpf))
    if mode in OWN_WORKLOAD:
        try:
            out, _ = p.communicate(timeout=90)
            res["workload"] = json.loads(out.decode().strip().splitlines()[-1])
        except subprocess.TimeoutExpired:
            p.kill()
            res["flags"].append("workload-timeout")
        except Exception:  # noqa
            res["flags"].append("no-output")
        res["seen"] = seen()
        res["left"] = sorted(os.listdir(tmpf))
    errf.close()
    try:
        res["stderr_tail"] = open(os.path.join(base, "stderr"), "rb").read().decode("utf-8", "replace")[-500:]
    except OSError:
        pass
    print(json.dumps(res), flush=True)


if __name__ == "__main__":
    main()
