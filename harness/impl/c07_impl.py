"""Implementation side of C07.  stdin: one JSON group per line; stdout: one JSON result per line.

group  : {"sig": [[kind, name, default|null], ...],      kind 0..4 = positional-only, positional-or-keyword,
          "meth": null | "pk" | "po",                    *args, keyword-only, **kwargs
          "partial": false|true,
          "receiver": "plain" | "falsy_bool" | "len0" | "bool_raises" | "eq_all" | "emptylist" | "emptydict" | "zero"
                      | "slots" | "classmethod",       what a bound method is bound to (default plain)
          "family": null | {"kind": "share"|"wraps", "sigs": [sig0, sig1, ...]},
          "calls": [[pos, kw, ign, idx?], ...]}           pos: [code], kw: [[name, code]], ign: [name|'*'|'**'] | null
result : {"src": <def line>, "res": [{"real": ..., "insp": ..., "fa": ...}, ...]}

All groups of one stdin are handled by ONE interpreter, in order (state that joblib keeps between calls is
exercised).  Values travel as integer codes: an int stands for itself, -1 None, -2 False, -3 '', -4 (), -5 True,
-10..-13 single objects whose ==/!= is non-standard (always True, always False, raising, array-like without truth
value), -14 inspect.Parameter.empty; results are encoded back by identity.

For every call three things are computed on the live interpreter / live joblib:
  real : the function is really CALLED (its body returns its parameters) -> dict | null (TypeError)
  insp : inspect.signature(f).bind(*pos, **kw) + apply_defaults()     -> dict | null (TypeError)
  fa   : joblib.func_inspect.filter_args(f, ign, pos, kw)             -> {"ok": dict} | {"raise": name}
A bound method is `obj.m` of a generated class whose first parameter is `s` (positional-or-keyword for
"pk", positional-only for "po"); the instance is written as the integer 999.

family "share": functions i >= 1 are built with types.FunctionType from the CODE OBJECT of function 0 and get
their own __defaults__/__kwdefaults__ (sigs[i] has the kinds and names of sigs[0], other defaults) -- the
situation of `lambda x, i=i` in a loop or closures of one factory.  family "wraps": every sigs[i] is an
independent function behind a functools.wraps decorator (family["wrappers"][i] selects one of four wrappers:
(*args, **kwargs), (*b, **k_), (d, *a_, **k_), (*b, _flag=1, **k_); inspect.signature follows __wrapped__); with
"meth" the decorated function is a METHOD of a generated class and the bound method is canonicalised.  calls[j][3] selects the function.
"""
import functools
import inspect
import json
import sys
import types
import warnings

from joblib.func_inspect import filter_args

PO, PK, VP, KO, VK = range(5)
SELF_NAME = "s"
SELF_VALUE = 999


class EqAll(object):
    """compares equal to everything (like unittest.mock.ANY)"""
    def __eq__(self, other):
        return True

    def __ne__(self, other):
        return False
    __hash__ = object.__hash__


class EqNone(object):
    """compares unequal to everything, itself included (NaN-like)"""
    def __eq__(self, other):
        return False

    def __ne__(self, other):
        return True
    __hash__ = object.__hash__


class CmpRaises(object):
    """comparisons raise"""
    def __eq__(self, other):
        raise RuntimeError("comparison refused")

    def __ne__(self, other):
        raise RuntimeError("comparison refused")
    __hash__ = object.__hash__


class _Ambiguous(object):
    def __bool__(self):
        raise ValueError("The truth value of an array with more than one element is ambiguous")


class CmpElementwise(object):
    """comparisons return an object without a truth value (array-like)"""
    def __eq__(self, other):
        return _Ambiguous()

    def __ne__(self, other):
        return _Ambiguous()
    __hash__ = object.__hash__


REPR_CALLS = [0]   # how often repr()/str() of a hostile value or receiver was asked for


class ReprRaises(object):
    """repr()/str() raise (ValueError, the class filter_args' own error branches raise)"""
    def __repr__(self):
        REPR_CALLS[0] += 1
        raise ValueError("hostile __repr__")
    __str__ = __repr__


class ReprCounts(object):
    """repr()/str() work but are counted (stands for an expensive or side-effecting __repr__)"""
    def __repr__(self):
        REPR_CALLS[0] += 1
        return "<ReprCounts>"
    __str__ = __repr__


# values with a non-standard equality / repr are single objects, always compared by IDENTITY here
OBJECTS = {-10: EqAll(), -11: EqNone(), -12: CmpRaises(), -13: CmpElementwise(), -14: inspect.Parameter.empty,
           -15: ReprRaises(), -16: ReprCounts()}
SPECIAL = {-1: None, -2: False, -3: "", -4: (), -5: True}
SPECIAL.update(OBJECTS)


def dec(c):
    return SPECIAL.get(c, c)


def enc(v, obj):
    if obj is not None and v is obj:
        return SELF_VALUE
    for code, o in OBJECTS.items():
        if v is o:
            return code
    if v is None:
        return -1
    if v is False:
        return -2
    if v is True:
        return -5
    if type(v) is str and v == "":
        return -3
    if type(v) is tuple and v == ():
        return -4
    if type(v) is int:
        return v
    return "?" + repr(v)


def src_of(sig, fname="f"):
    parts = []
    kinds = [p[0] for p in sig]
    for i, (k, nm, d) in enumerate(sig):
        if k == KO and VP not in kinds and (i == 0 or sig[i - 1][0] != KO):
            parts.append("*")
        s = {PO: nm, PK: nm, VP: "*" + nm, KO: nm, VK: "**" + nm}[k]
        if d is not None:
            s += ("=_OBJ[%d]" % d) if d in OBJECTS else ("=%r" % (dec(d),))
        parts.append(s)
        if k == PO and (i + 1 == len(sig) or sig[i + 1][0] != PO):
            parts.append("/")
    body = "return {" + ", ".join("%r: %s" % (p[1], p[1]) for p in sig) + "}"
    return "def %s(%s):\n    %s\n" % (fname, ", ".join(parts), body)


def full_sig(sig, meth):
    """signature of the underlying function of a bound method"""
    if not meth:
        return sig
    selfkind = PO if (meth == "po" or any(p[0] == PO for p in sig)) else PK
    return [[selfkind, SELF_NAME, None]] + [list(p) for p in sig]


def plain_function(fsig, name):
    ns = {"_OBJ": OBJECTS}
    src = src_of(fsig, name)
    exec(src, ns)
    return ns[name], src.splitlines()[0]


def same_code_function(f0, fsig, name):
    """a second function object on f0's code object, with the defaults of fsig"""
    posd = tuple(dec(p[2]) for p in fsig if p[0] in (PO, PK) and p[2] is not None)
    f = types.FunctionType(f0.__code__, f0.__globals__, name, posd or None)
    kwd = {p[1]: dec(p[2]) for p in fsig if p[0] == KO and p[2] is not None}
    f.__kwdefaults__ = kwd or None
    return f


def the_decorator(f):
    @functools.wraps(f)
    def wrapper(*args, **kwargs):
        return f(*args, **kwargs)
    return wrapper


def decorator_named_star(f):
    """wrapper whose first local variable is called like the first generated parameter name ('b')"""
    @functools.wraps(f)
    def wrapper(*b, **k_):
        return f(*b, **k_)
    return wrapper


def decorator_first_positional(f):
    """wrapper (d, *a_, **k_): an explicit first parameter, called like the second generated parameter name"""
    @functools.wraps(f)
    def wrapper(d, *a_, **k_):
        return f(d, *a_, **k_)
    return wrapper


def decorator_kwonly_default(f):
    """wrapper with a keyword-only default of its own"""
    @functools.wraps(f)
    def wrapper(*b, _flag=1, **k_):
        return f(*b, **k_)
    return wrapper


DECORATORS = [the_decorator, decorator_named_star, decorator_first_positional, decorator_kwonly_default]


def _raise_bool(self):
    raise RuntimeError("truth value refused")


def as_callable(f, meth, receiver="plain"):
    """(callable, receiver).  `receiver` selects what the method is bound to: an ordinary instance, instances
    with non-standard truthiness / equality, an instance of a class with __slots__, or the class itself
    (bound classmethod)."""
    if not meth:
        return f, None
    ns, bases = {"m": f}, (object,)
    if receiver == "falsy_bool":
        ns["__bool__"] = lambda self: False
    elif receiver == "len0":
        ns["__len__"] = lambda self: 0
    elif receiver == "bool_raises":
        ns["__bool__"] = _raise_bool
    elif receiver == "eq_all":
        ns["__eq__"] = lambda self, other: True
        ns["__ne__"] = lambda self, other: False
        ns["__hash__"] = object.__hash__
    elif receiver == "emptylist":
        bases = (list,)
    elif receiver == "emptydict":
        bases = (dict,)
    elif receiver == "zero":
        bases = (int,)
    elif receiver == "repr_raises":
        ns["__repr__"] = ns["__str__"] = ReprRaises.__repr__
    elif receiver == "repr_counts":
        ns["__repr__"] = ns["__str__"] = ReprCounts.__repr__
    elif receiver == "slots":
        ns["__slots__"] = ()
    elif receiver == "classmethod":
        ns["m"] = classmethod(f)
        cls = type("K", bases, ns)
        return cls.m, cls
    elif receiver != "plain":
        raise ValueError(receiver)
    obj = type("K", bases, ns)()
    return obj.m, obj


def make_all(g):
    """list of (callable, instance, def-line, bound signature) selected by calls[j][3]"""
    meth = g.get("meth")
    fam = g.get("family")
    if not fam:
        f, line = plain_function(full_sig(g["sig"], meth), "m" if meth else "f")
        c, obj = as_callable(f, meth, g.get("receiver", "plain"))
        return [(c, obj, line + ("  # bound to: " + g["receiver"] if g.get("receiver") else ""), g["sig"])]
    out = []
    if fam["kind"] == "share":
        f0, line0 = plain_function(full_sig(fam["sigs"][0], meth), "m" if meth else "f")
        for i, sg in enumerate(fam["sigs"]):
            f = f0 if i == 0 else same_code_function(f0, full_sig(sg, meth), "m" if meth else "f")
            c, obj = as_callable(f, meth, g.get("receiver", "plain"))
            out.append((c, obj, src_of(full_sig(sg, meth), "m" if meth else "f").splitlines()[0] + "  # code shared", sg))
    elif fam["kind"] == "wraps":
        # Python's own binding is that of the WRAPPED function (the wrappers are (*args, **kwargs)-like and may
        # even intercept names): the oracle calls the wrapped function directly, with the receiver prepended
        for i, sg in enumerate(fam["sigs"]):
            deco = DECORATORS[(fam.get("wrappers") or [0] * len(fam["sigs"]))[i]]
            if meth:
                f, line = plain_function(full_sig(sg, meth), "m")
                c, obj = as_callable(deco(f), meth, g.get("receiver", "plain"))
                out.append((c, obj, "@wraps[%s] %s" % (deco.__name__, line), sg,
                            (lambda f_, o_: (lambda *a, **k: f_(o_, *a, **k)))(f, obj)))
            else:
                f, line = plain_function(sg, "f")
                out.append((deco(f), None, "@wraps[%s] %s" % (deco.__name__, line), sg, f))
    else:
        raise ValueError(fam["kind"])
    return out


def norm_binding(d, fsig, obj):
    out = {}
    for k, nm, _ in fsig:
        if nm not in d:
            continue
        if k == VP:
            out[nm] = [enc(x, obj) for x in d[nm]]
        elif k == VK:
            out[nm] = {a: enc(x, obj) for a, x in d[nm].items()}
        else:
            out[nm] = enc(d[nm], obj)
    return out


def norm_fa(d, obj):
    out = {}
    for k, v in d.items():
        if k == "*" and isinstance(v, (list, tuple)):
            out[k] = [enc(x, obj) for x in v]
        elif k == "**" and isinstance(v, dict):
            out[k] = {a: enc(x, obj) for a, x in v.items()}
        else:
            out[k] = enc(v, obj)   # also a '*' / '**' entry of the wrong shape: reported as it is
    return out


def run_group(g):
    meth = g.get("meth")
    funcs = make_all(g)
    out = []
    args_as = g.get("args_as", "tuple")
    shared = {}
    for call in g["calls"]:
        pos, kw, ign = call[0], call[1], call[2]
        entry = funcs[call[3] if len(call) > 3 else 0]
        f, obj, line, sig = entry[:4]
        real_f = entry[4] if len(entry) > 4 else f
        target = functools.partial(f) if g.get("partial") else f
        pos = [dec(v) for v in pos]
        kwd = dict((k, dec(v)) for k, v in kw)
        r = {}
        try:
            r["real"] = norm_binding(real_f(*pos, **kwd), full_sig(sig, meth), obj)
        except TypeError:
            r["real"] = None
        try:
            ba = inspect.signature(f).bind(*pos, **kwd)
            ba.apply_defaults()
            insp = norm_binding(dict(ba.arguments), sig, obj)
            if meth:
                insp = dict({SELF_NAME: SELF_VALUE}, **insp)
            r["insp"] = insp
        except TypeError:
            r["insp"] = None
        # how the positional arguments are handed over: Memory passes a tuple; other callers pass lists
        # (possibly one list object they keep using), ranges, ...
        if args_as == "list":
            a = list(pos)
        elif args_as == "shared_list":
            a = shared.setdefault(json.dumps(call[0]), list(pos))
        elif args_as == "range" and pos and all(type(v) is int for v in pos) and pos == list(range(pos[0], pos[0] + len(pos))):
            a = range(pos[0], pos[0] + len(pos))
        else:
            a = tuple(pos)
        n0 = REPR_CALLS[0]
        try:
            with warnings.catch_warnings():
                warnings.simplefilter("ignore")
                d = filter_args(target, list(ign or []), a, dict(kwd))
        except Exception as e:  # noqa  -- the exception class is the observation
            d = None
            r["fa"] = {"raise": type(e).__name__}
        if d is not None:
            r["fa"] = {"ok": norm_fa(d, obj), "order": list(d.keys())}
        r["fa"]["repr_calls"] = REPR_CALLS[0] - n0
        r["fa"]["args_modified"] = not (len(a) == len(pos) and all(x is y for x, y in zip(a, pos)))
        if r["fa"]["args_modified"] and args_as == "shared_list":
            shared[json.dumps(call[0])] = list(pos)   # report every corruption once, then start again
        out.append(r)
    return {"src": funcs[0][2], "srcs": [x[2] for x in funcs], "res": out}


def main():
    for line in sys.stdin:
        line = line.strip()
        if not line:
            continue
        g = json.loads(line)
        try:
            r = run_group(g)
        except BaseException as e:  # harness-level failure is reported, not hidden
            r = {"harness_error": repr(e)}
        sys.stdout.write(json.dumps(r) + "\n")
    sys.stdout.flush()


if __name__ == "__main__":
    main()
