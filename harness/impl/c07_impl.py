"""Implementation side of C07.  stdin: one JSON group per line; stdout: one JSON result per line.

group  : {"sig": [[kind, name, default|null], ...],      kind 0..4 = positional-only, positional-or-keyword,
          "meth": null | "pk" | "po",                    *args, keyword-only, **kwargs
          "partial": false|true,
          "calls": [[pos, kw, ign], ...]}                pos: [int], kw: [[name, int]], ign: [name|'*'|'**'] | null
result : {"src": <def line>, "res": [{"real": ..., "insp": ..., "fa": ...}, ...]}

For every call three things are computed on the live interpreter / live joblib:
  real : the function is really CALLED (its body returns its parameters) -> dict | null (TypeError)
  insp : inspect.signature(f).bind(*pos, **kw) + apply_defaults()     -> dict | null (TypeError)
  fa   : joblib.func_inspect.filter_args(f, ign, pos, kw)             -> {"ok": dict} | {"raise": name}
A bound method is `obj.m` of a generated class whose first parameter is `s` (positional-or-keyword for
"pk", positional-only for "po"); the instance is written as the integer 999.
"""
import functools
import inspect
import json
import sys
import warnings

from joblib.func_inspect import filter_args

PO, PK, VP, KO, VK = range(5)
SELF_NAME = "s"
SELF_VALUE = 999


def src_of(sig, fname="f"):
    parts = []
    kinds = [p[0] for p in sig]
    for i, (k, nm, d) in enumerate(sig):
        if k == KO and VP not in kinds and (i == 0 or sig[i - 1][0] != KO):
            parts.append("*")
        s = {PO: nm, PK: nm, VP: "*" + nm, KO: nm, VK: "**" + nm}[k]
        if d is not None:
            s += "=%d" % d
        parts.append(s)
        if k == PO and (i + 1 == len(sig) or sig[i + 1][0] != PO):
            parts.append("/")
    body = "return {" + ", ".join("%r: %s" % (p[1], p[1]) for p in sig) + "}"
    return "def %s(%s):\n    %s\n" % (fname, ", ".join(parts), body)


def full_sig(sig, meth):
    """signature of the underlying function of a bound method"""
    if not meth:
        return sig
    selfkind = PO if (meth == "po" or any(p[0] == PO for p in sig)) else PK
    return [[selfkind, SELF_NAME, None]] + [list(p) for p in sig]


def make(sig, meth):
    ns = {}
    if meth:
        body = src_of(full_sig(sig, meth), "m")
        src = "class K:\n" + "".join("    " + ln + "\n" for ln in body.splitlines())
        exec(src, ns)
        obj = ns["K"]()
        return obj.m, obj, body.splitlines()[0]
    src = src_of(sig)
    exec(src, ns)
    return ns["f"], None, src.splitlines()[0]


def norm(x, obj):
    if isinstance(x, dict):
        return {k: norm(v, obj) for k, v in x.items()}
    if isinstance(x, (list, tuple)):
        return [norm(v, obj) for v in x]
    if obj is not None and x is obj:
        return SELF_VALUE
    return x


def run_group(g):
    sig, meth = g["sig"], g.get("meth")
    f, obj, line = make(sig, meth)
    target = f
    if g.get("partial"):
        target = functools.partial(f)
    out = []
    for pos, kw, ign in g["calls"]:
        kwd = dict((k, v) for k, v in kw)
        r = {}
        try:
            r["real"] = norm(f(*pos, **kwd), obj)
        except TypeError:
            r["real"] = None
        try:
            ba = inspect.signature(f).bind(*pos, **kwd)
            ba.apply_defaults()
            insp = norm(dict(ba.arguments), obj)
            if meth:
                insp = dict({SELF_NAME: SELF_VALUE}, **insp)
            r["insp"] = insp
        except TypeError:
            r["insp"] = None
        try:
            with warnings.catch_warnings():
                warnings.simplefilter("ignore")
                d = filter_args(target, list(ign or []), tuple(pos), dict(kwd))
            r["fa"] = {"ok": norm(d, obj), "order": list(d.keys())}
        except Exception as e:  # noqa  -- the exception class is the observation
            r["fa"] = {"raise": type(e).__name__}
        out.append(r)
    return {"src": line, "res": out}


def main():
    for line in sys.stdin:
        line = line.strip()
        if not line:
            continue
        g = json.loads(line)
        try:
            r = run_group(g)
        except BaseException as e:  # harness-level failure is reported, not hidden
            r = {"harness_error": repr(e)}
        sys.stdout.write(json.dumps(r) + "\n")
    sys.stdout.flush()


if __name__ == "__main__":
    main()
