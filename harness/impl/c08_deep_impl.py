"""Implementation side of C08, deeply nested values.  stdin: one JSON case per line {"kind": K, "depth": d};
stdout: one JSON result per line.

K in list | tuple | dict | mixed.  For the value a = nest(K, d, 'leaf-a'), a rebuilt copy of it and
b = nest(K, d, 'leaf-b') the script calls joblib.hash (md5 and sha1) under sys.setrecursionlimit(1000) and (5000),
from 0 / 40 / 150 extra Python frames, plus once with plenty of room (reference; also the Hasher.dump stream).
A RecursionError is reported as null (pickle's documented behaviour on such values), any other exception by name.
"""
import json
import sys

import joblib
from joblib import hashing

BIG = 60000


def nest(kind, depth, leaf):
    v = leaf
    for i in range(depth):
        k = kind if kind != "mixed" else ("list", "tuple", "dict")[i % 3]
        if k == "list":
            v = [v, i % 7]
        elif k == "tuple":
            v = (v, i % 7)
        else:
            v = {"k": v, "n": (i % 7,)}
    return v


def call_at(frames, f):
    if frames:
        return call_at(frames - 1, f)
    return f()


def attempt(limit, frames, v, **kw):
    sys.setrecursionlimit(limit)
    try:
        return call_at(frames, lambda: joblib.hash(v, **kw))
    except RecursionError:
        return None
    except Exception as e:  # noqa
        return "raise:" + type(e).__name__
    finally:
        sys.setrecursionlimit(1000)


def run(c):
    kind, depth = c["kind"], c["depth"]
    a, a2, b = nest(kind, depth, "leaf-a"), nest(kind, depth, "leaf-a"), nest(kind, depth, "leaf-b")
    out = {"ref": {}, "got": []}
    sys.setrecursionlimit(BIG)
    try:
        for algo in ("md5", "sha1"):
            out["ref"][algo] = [joblib.hash(a, hash_name=algo), joblib.hash(b, hash_name=algo)]
        h = hashing.Hasher()
        h.dump(a)
        out["stream"] = h.stream.getvalue().hex()
    finally:
        sys.setrecursionlimit(1000)
    for algo in ("md5", "sha1"):
        for limit in (1000, 5000):
            for frames in (0, 40, 150):
                out["got"].append({"algo": algo, "limit": limit, "frames": frames, "which": "a",
                                   "digest": attempt(limit, frames, a, hash_name=algo)})
            out["got"].append({"algo": algo, "limit": limit, "frames": 0, "which": "a-rebuilt",
                               "digest": attempt(limit, 0, a2, hash_name=algo)})
            out["got"].append({"algo": algo, "limit": limit, "frames": 0, "which": "b",
                               "digest": attempt(limit, 0, b, hash_name=algo)})
    return out


for line in sys.stdin:
    line = line.strip()
    if not line:
        continue
    c = json.loads(line)
    try:
        r = run(c)
    except BaseException as e:  # harness-level failure is reported, not hidden
        r = {"harness_error": repr(e)[:300]}
    sys.stdout.write(json.dumps(r) + "\n")
    sys.stdout.flush()
