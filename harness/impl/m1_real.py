"""Natural runs of joblib.Parallel on its real backends (sampling; never stands in for a theorem).

stdin : one JSON case per line
  {"backend": "threading"|"loky"|"multiprocessing"|"sequential", "n_jobs": int, "batch_size": int|"auto",
   "pre_dispatch": .., "return_as": "list"|"generator"|"generator_unordered", "N": int, "tfail": [..],
   "ifail": int|null, "reuse": int (calls on the same object), "with_block": bool, "seed": int, "verbose": int}
(progress messages of verbose > 0 go to stderr/stdout of this process and are discarded by the harness: only lines
starting with "{" are results)
stdout: one JSON result per line
"""
import json
import os
import random
import sys
import tempfile
import time

import os as _os_cov, sys as _sys_cov
if _os_cov.environ.get("VERIF_COV_OUT"):
    _sys_cov.path.insert(0, _os_cov.path.dirname(_os_cov.path.abspath(__file__)))
    import cov_hook  # noqa: F401  (diagnostic line coverage, off by default)
from joblib import Parallel, delayed

# results go to the original stdout; whatever joblib prints (verbose > 0, also from worker processes) goes to stderr
OUT = os.fdopen(os.dup(1), "w")
os.dup2(2, 1)
sys.stdout = sys.stderr


class TaskFail(ValueError):
    pass


class Finicky(Exception):
    """an exception whose constructor does not accept its own .args back (cannot be rebuilt as type(e)(*e.args))"""

    def __init__(self, code, msg):
        super().__init__("%s: %s" % (code, msg))
        self.code = code


class FalsyFail(ValueError):
    """an exception object whose truth value is False"""

    def __len__(self):
        return 0


class BaseFail(BaseException):
    """a failure that is not an Exception (like SystemExit / KeyboardInterrupt)"""


FLAG = {}
SLOW = [0]


def init_worker(k):
    FLAG["k"] = k


def task(logdir, call_no, i, fails, delay, exc="TaskFail", extra=None):
    fd = os.open(os.path.join(logdir, "exec.log"), os.O_WRONLY | os.O_APPEND | os.O_CREAT)
    os.write(fd, ("%d %d %d\n" % (call_no, i, os.getpid())).encode())
    os.close(fd)
    if os.path.exists(os.path.join(logdir, "spawn")) and call_no == 1:
        # the task starts a process of its own (it belongs to the worker's process tree)
        import subprocess
        sp = subprocess.Popen(["sleep", "60"])
        with open(os.path.join(logdir, "spawned_%d" % i), "w") as fh:
            fh.write(str(sp.pid))
        if fails:
            # let the other tasks start theirs: wait until every task of the call has recorded its process
            try:
                want = int(open(os.path.join(logdir, "spawn")).read() or 0)
            except (OSError, ValueError):
                want = 0
            end = time.time() + 20
            while time.time() < end and sum(1 for f in os.listdir(logdir) if f.startswith("spawned_")) < want:
                time.sleep(0.05)
            time.sleep(0.3)
    if delay:
        time.sleep(delay)
    if fails:
        with open(os.path.join(logdir, "fail_time"), "w") as fh:
            fh.write(repr(time.time()))
        if exc == "SystemExit":
            raise SystemExit("task failed", i)
        if exc == "KeyboardInterrupt":
            raise KeyboardInterrupt("task failed", i)
        if exc == "BaseFail":
            raise BaseFail("task failed", i)
        if exc == "Finicky":
            raise Finicky(i, "task failed")
        if exc == "FalsyFail":
            raise FalsyFail("task failed", i)
        if exc == "UnpicklableExc":
            import threading
            raise TaskFail("task failed", i, threading.Lock())
        if exc == "UnpicklableRet":
            import threading
            return (call_no, i, threading.Lock())
        raise TaskFail("task failed", i)
    if os.path.exists(os.path.join(logdir, "count_done")):
        fd = os.open(os.path.join(logdir, "done.log"), os.O_WRONLY | os.O_APPEND | os.O_CREAT)
        os.write(fd, ("%d\n" % call_no).encode())
        os.close(fd)
    return (call_no, i, FLAG.get("k"))


PLUG_SRC = """
def plug(logdir, call_no, i):
    fd = os.open(os.path.join(logdir, "exec.log"), os.O_WRONLY | os.O_APPEND | os.O_CREAT)
    os.write(fd, ("%d %d %d\\n" % (call_no, i, os.getpid())).encode())
    os.close(fd)
    return (call_no, i, K * 1000 + STATE[0])
"""


def make_plugins(raw=False):
    """two functions defined by value (not importable) under the SAME module name but in different global namespaces
    (plug-in scripts loaded with runpy / exec), each reading a constant and a mutable cell of its own namespace; they
    are wrapped once with joblib.wrap_non_picklable_objects and the same wrappers are used for every call"""
    from joblib import wrap_non_picklable_objects
    plugs, states = [], []
    for K in (1, 2):
        state = [0]
        ns = {"K": K, "__name__": "verif_plugin", "os": os, "STATE": state}
        exec(PLUG_SRC, ns)
        # raw: shipped as they are (loky pickles tasks with cloudpickle: both functions go through ONE pickler per batch)
        plugs.append(ns["plug"] if raw else wrap_non_picklable_objects(ns["plug"]))
        states.append(state)
    return plugs, states


PLUGINS = [None]
PULLS = {}
FASTFAIL = [False]
AHEAD = [None]
STATS_LEAK = [False]


def gen_input(logdir, call_no, N, tfail, ifail, rng, exc="TaskFail"):
    for i in range(N):
        if ifail is not None and i == ifail:
            raise KeyError("input failed", i)
        d = rng.choice([0, 0, 0.001, 0.003])
        if SLOW[0] and call_no == 1:
            d = 0.3 if i in tfail else SLOW[0]      # the other tasks of the failing call are still running when it fails
        if FASTFAIL[0] and call_no == 1:
            # the failure is immediate, the other tasks take their time, and the first one keeps an ordered caller waiting
            d = 0 if i in tfail else (1.5 if i == 0 else 0.05)
        PULLS[call_no] = i + 1
        if PLUGINS[0] is not None:
            plugs, states = PLUGINS[0]
            for st in states:
                st[0] = 10 * call_no          # the state the functions capture changes between the calls
            yield delayed(plugs[i % 2])(logdir, call_no, i)
            continue
        if AHEAD[0] is not None:
            # how far the consumption of the input is ahead of the completed tasks, at every pull
            try:
                done = sum(1 for l in open(os.path.join(logdir, "done.log")) if l.strip() == str(call_no))
            except OSError:
                done = 0
            AHEAD[0][call_no] = max(AHEAD[0].get(call_no, 0), i + 1 - done)
        if STATS_LEAK[0]:
            # first call: many very short tasks (the auto-batching grows the batches), failing late; later calls: slow tasks
            d = 0 if call_no == 1 else 0.25
        if i in tfail and exc == "UnpicklableArg":
            import threading
            # the task cannot even be handed to a worker process
            yield delayed(task)(logdir, call_no, i, False, d, exc, threading.Lock())
        else:
            yield delayed(task)(logdir, call_no, i, i in tfail, d, exc)
    if ifail is not None and ifail >= N:
        raise KeyError("input failed", N)


class LyingList:
    def __init__(self, items, announced):
        self.items, self.announced = items, announced

    def __len__(self):
        return self.announced

    def __iter__(self):
        return iter(self.items)


def one_call(p, c, logdir, call_no, rng, tfail, ifail):
    out = {"values": None, "raised": None}
    try:
        inp = gen_input(logdir, call_no, c["N"] if call_no == 1 else c.get("N2", c["N"]), tfail, ifail, rng, c.get("exc", "TaskFail"))
        if c.get("sized") and ifail is None:
            inp = list(inp)            # a sized input: Parallel knows the number of tasks (n_tasks)
            if c["sized"] in ("under", "over"):
                # ... or believes it does: len() is a hint (a progress-bar wrapper with an estimated total), the
                # items are what the iteration yields
                inp = LyingList(inp, max(0, len(inp) - 4) if c["sized"] == "under" else len(inp) + 3)
        r = p(inp)
        ab = c.get("abandon") if call_no == 1 else None
        if ab and c["return_as"] != "list":
            # the output generator is abandoned after `npull` values: closed, or dropped and collected
            how, npull = ab
            vals = []
            for _ in range(npull):
                try:
                    vals.append(list(next(r)))
                except StopIteration:
                    break
            import gc
            import warnings
            t0 = time.time()
            with warnings.catch_warnings():
                warnings.simplefilter("ignore")
                if how == "close":
                    r.close()
                else:
                    del r
                    gc.collect()
            out["close_s"] = round(time.time() - t0, 2)
            out["values"] = vals
            out["abandoned"] = True
        else:
            out["values"] = [[x if isinstance(x, (int, str, type(None))) else "<%s>" % type(x).__name__ for x in v] for v in r]
    except BaseException as e:  # noqa
        out["raised"] = [type(e).__name__, [a if isinstance(a, (int, str)) else repr(a) for a in e.args]]
        try:
            out["latency"] = round(time.time() - float(open(os.path.join(logdir, "fail_time")).read()), 2)
        except (OSError, ValueError):
            pass
        if c.get("slow") and c["backend"] == "loky":
            # the worker processes that ran tasks of this call: the abort kills them BEFORE the call raises
            pids = set()
            try:
                for line in open(os.path.join(logdir, "exec.log")):
                    cn, i, pid = line.split()
                    if int(cn) == call_no and int(pid) != os.getpid():
                        pids.add(int(pid))
            except OSError:
                pass

            def alive(pid):
                try:
                    os.kill(pid, 0)
                    return open("/proc/%d/stat" % pid).read().split()[2] != "Z"
                except (OSError, IndexError):
                    return False
            out["workers_alive"] = sum(1 for p0 in pids if alive(p0))
            out["workers_seen"] = len(pids)
    return out


def run(c):
    rng = random.Random(c.get("seed", 0))
    SLOW[0] = c.get("slow", 0)
    FASTFAIL[0] = bool(c.get("fastfail"))
    STATS_LEAK[0] = bool(c.get("stats_leak"))
    PLUGINS[0] = make_plugins(c.get("plugins") == "raw") if c.get("plugins") else None
    AHEAD[0] = {} if c.get("stats_leak") else None
    PULLS.clear()
    logdir = tempfile.mkdtemp(prefix="verif-m1real-")
    if c.get("spawn"):
        with open(os.path.join(logdir, "spawn"), "w") as fh:
            fh.write(str(c["N"]))
    if c.get("stats_leak"):
        open(os.path.join(logdir, "count_done"), "w").close()
    kw = dict(n_jobs=c["n_jobs"], batch_size=c["batch_size"], pre_dispatch=c["pre_dispatch"],
              return_as=c["return_as"], verbose=c.get("verbose", 0))
    if c.get("init") is not None:
        # backend options given to Parallel (here the pool initializer) must hold for every call, also for the pool
        # that is re-created after a failed call inside a with block
        kw["initializer"] = init_worker
        kw["initargs"] = (c["init"],)
    if c["backend"] != "default":
        kw["backend"] = c["backend"] if c["backend"] != "sequential" else "sequential"
    p = Parallel(**kw)
    calls = []

    def body():
        for k in range(c.get("reuse", 1)):
            # only the first call carries the failures; later calls must be clean
            tf = set(c.get("tfail", [])) if k == 0 else set()
            jf = c.get("ifail") if k == 0 else None
            calls.append(one_call(p, c, logdir, k + 1, rng, tf, jf))
    def whole():
        if c.get("with_block"):
            with p:
                body()
        else:
            body()
    # the call must terminate: run it under a watchdog (generous: the tasks take milliseconds)
    import threading
    th = threading.Thread(target=whole, daemon=True)
    th.start()
    th.join(c.get("watchdog", 60))
    hang = th.is_alive()
    execs = {}
    try:
        for line in open(os.path.join(logdir, "exec.log")):
            cn, i, pid = line.split()
            execs.setdefault(cn, []).append(int(i))
    except FileNotFoundError:
        pass
    orphans = []
    if c.get("spawn"):
        # processes started by the tasks of the (failed) first call: the abort kills the workers' process trees
        pids = []
        for f in os.listdir(logdir):
            if f.startswith("spawned_"):
                try:
                    pids.append(int(open(os.path.join(logdir, f)).read()))
                except ValueError:
                    pass

        def alive(pid):
            try:
                os.kill(pid, 0)
                return open("/proc/%d/stat" % pid).read().split()[2] != "Z"
            except (OSError, IndexError):
                return False
        end = time.time() + 3.0
        while time.time() < end and any(alive(p0) for p0 in pids):
            time.sleep(0.1)
        orphans = [p0 for p0 in pids if alive(p0)]
        for p0 in pids:
            try:
                os.kill(p0, 9)
            except OSError:
                pass
    import shutil
    shutil.rmtree(logdir, ignore_errors=True)
    return {"calls": list(calls), "execs": execs, "hang": hang, "pulls": {str(k): v for k, v in PULLS.items()},
            "orphans": len(orphans), "spawned": len(pids) if c.get("spawn") else 0,
            "ahead": {str(k): v for k, v in (AHEAD[0] or {}).items()}}


for line in sys.stdin:
    line = line.strip()
    if not line:
        continue
    c = json.loads(line)
    try:
        r = run(c)
    except BaseException as e:  # noqa
        import traceback
        r = {"harness_error": repr(e), "tb": traceback.format_exc()}
    OUT.write(json.dumps(r) + "\n")
    if r.get("hang"):
        OUT.flush()
        os._exit(0)      # the stuck call cannot be recovered; the harness restarts after this case
    OUT.flush()
