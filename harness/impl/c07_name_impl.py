"""Implementation side of the get_func_name / func_id part of C07 (model M2b).

stdin : one JSON description per line
        {"module": str|null, "name": str|null, "qualname": str|null, "file": str|null, "file_known": bool}
        name/qualname null -> a callable INSTANCE (no __name__, no __qualname__); otherwise a real function
        object (types.FunctionType) with these attributes; "file" is its code's co_filename, registered in
        linecache when file_known (what IPython does for cells), otherwise it does not exist anywhere.
stdout: {"modules": [...], "name": str, "func_id": str}   from joblib.func_inspect.get_func_name and
        joblib.memory._build_func_identifier, or {"raise": name}
"""
import json
import linecache
import sys
import types

from joblib.func_inspect import get_func_name
from joblib.memory import _build_func_identifier


def build(d):
    if d["name"] is None:
        cls = type("C", (), {"__call__": lambda self, x: x})
        cls.__module__ = d["module"]
        return cls()
    fname = d["file"] or "<no-file>"
    src = "def f(x):\n    return x\n"
    code = compile(src, fname, "exec")
    ns = {}
    exec(code, ns)
    f = ns["f"]
    if d["file"] and d.get("file_known"):
        linecache.cache[fname] = (len(src), None, src.splitlines(True), fname)
    f.__module__ = d["module"]
    f.__name__ = d["name"]
    f.__qualname__ = d["qualname"]
    return f


def e2e_closures():
    """two closures of one factory cached in one Memory: what does the second one return?"""
    import shutil
    import tempfile
    import warnings
    from joblib import Memory
    tmp = tempfile.mkdtemp(prefix="verif-c07-")
    try:
        with warnings.catch_warnings():
            warnings.simplefilter("ignore")
            mem = Memory(tmp, verbose=0)

            def make(k):
                def g(x):
                    return x + k
                return g
            g1, g2 = mem.cache(make(1)), mem.cache(make(1000))
            return {"func_ids": [g1.func_id, g2.func_id], "g1(1)": g1(1), "g2(1)": g2(1), "expected_g2(1)": 1001}
    finally:
        shutil.rmtree(tmp, ignore_errors=True)


for line in sys.stdin:
    line = line.strip()
    if not line:
        continue
    d = json.loads(line)
    if d.get("mode") == "e2e_closures":
        try:
            r = e2e_closures()
        except BaseException as e:
            r = {"harness_error": repr(e)}
        sys.stdout.write(json.dumps(r) + "\n")
        continue
    try:
        f = build(d)
        try:
            modules, name = get_func_name(f)
            r = {"modules": list(modules), "name": name, "func_id": _build_func_identifier(f)}
        except Exception as e:  # noqa
            r = {"raise": type(e).__name__}
    except BaseException as e:
        r = {"harness_error": repr(e)}
    sys.stdout.write(json.dumps(r) + "\n")
sys.stdout.flush()
