"""Client-side sample for C20: 1-3 REAL client processes that share one REAL loky resource tracker
(started by the first client through the public ``ensure_running``; the others are forked from it and
inherit the pipe) and use only the public API ``register / maybe_unlink / unregister``.  Clients exit
normally or are killed with SIGKILL at points chosen by the scenario.

stdin: one JSON scenario per line, stdout: one JSON result per line.  argv[1]: scratch directory.

scenario = {"n": 1..3, "script": [[client, op, resource] ...]}
    op in reg | unl | unreg  (resource: name in the temp root, rtype derived from the name)
       | exit | kill         (resource ignored)
Every client still alive at the end of the script is then ended in script order ("exit").

After each operation the acting client synchronises with the tracker (it registers a marker name with an
unknown resource type and waits for the tracker's ValueError naming it on the shared stderr file: the
pipe is FIFO and shared, so everything written before has been processed) and the orchestrator samples
the file system.
After the last client is gone the orchestrator waits for the tracker process to terminate.
"""
import json
import os
import shutil
import signal
import sys
import tempfile
import time

FILES = ["f1", "f2", "d1/f3", "a:b", " sp ace:x "]
FOLDERS = ["d1", "d2"]
UNIVERSE = FILES + FOLDERS


def rtype_of(res):
    return "folder" if res in FOLDERS else "file"


def proc_gone(pid):
    try:
        with open("/proc/%d/stat" % pid) as f:
            st = f.read()
        return st.rsplit(")", 1)[1].split()[0] == "Z"
    except (FileNotFoundError, ProcessLookupError):
        return True


# ------------------------------------------------------------------------------- client
def client_loop(cid, cmd_fd, ack_fd, root, errp):
    from joblib.externals.loky.backend import resource_tracker as rt

    def ack(msg):
        os.write(ack_fd, ("%d %s\n" % (cid, msg)).encode())

    n_sync = [0]

    def sync():
        # a request with an unknown resource type, through the public API: the tracker logs a
        # ValueError naming it on the stderr it inherited from client 0 (a file).  The pipe is FIFO
        # and shared, so everything written before has been processed when the marker shows up;
        # this does not depend on the reference-counting logic under test.
        n_sync[0] += 1
        marker = "jvsync-%d-%d" % (cid, n_sync[0])
        rt.register(marker, "jvsynctype")
        t0 = time.time()
        pos = 0
        tail = b""
        while True:
            with open(errp, "rb") as f:
                f.seek(pos)
                data = f.read()
            pos += len(data)
            tail = (tail + data)[-4096:] if not data else tail[-200:] + data
            if marker.encode() in tail:
                return True
            if time.time() - t0 > 10:
                return False
            time.sleep(0.0005)

    ack("pid %d %d" % (os.getpid(), rt._resource_tracker._pid or -1))
    f = os.fdopen(cmd_fd, "r", buffering=1)
    for ln in f:
        parts = ln.split()
        if not parts:
            continue
        op = parts[0]
        if op == "exit":
            ack("bye")
            return
        res = bytes.fromhex(parts[1]).decode() if parts[1] != "-" else "-"
        path = os.path.join(root, res)
        rtype = rtype_of(res)
        if op == "reg":
            rt.register(path, rtype)
        elif op == "unl":
            rt.maybe_unlink(path, rtype)
        elif op == "unreg":
            rt.unregister(path, rtype)
        elif op == "sync":
            pass
        ack("ok" if sync() else "sync-timeout")


def client_main(argv):
    n = int(argv[0])
    root = argv[1]
    ack_fd = int(argv[2])
    errp = argv[3]
    cmd_fds = [int(x) for x in argv[4:4 + n]]
    from joblib.externals.loky.backend import resource_tracker as rt
    rt.ensure_running()
    for cid in range(1, n):
        pid = os.fork()
        if pid == 0:
            for j, fd in enumerate(cmd_fds):
                if j != cid:
                    os.close(fd)
            try:
                client_loop(cid, cmd_fds[cid], ack_fd, root, errp)
            finally:
                os._exit(0)
    for j, fd in enumerate(cmd_fds):
        if j != 0:
            os.close(fd)
    client_loop(0, cmd_fds[0], ack_fd, root, errp)


# ------------------------------------------------------------------------- orchestrator
def create(root, res):
    p = os.path.join(root, res)
    if res in FOLDERS:
        os.makedirs(p, exist_ok=True)
        with open(os.path.join(p, "untracked"), "w") as f:
            f.write("u")
    else:
        os.makedirs(os.path.dirname(p), exist_ok=True)
        with open(p, "w") as f:
            f.write("x")


def exists_vec(root):
    return [os.path.lexists(os.path.join(root, r)) for r in UNIVERSE]


class Acks:
    def __init__(self, fd):
        self.fd = fd
        self.buf = b""
        os.set_blocking(fd, False)

    def get(self, timeout=25):
        t0 = time.time()
        while b"\n" not in self.buf:
            try:
                d = os.read(self.fd, 4096)
            except BlockingIOError:
                d = None
            if d:
                self.buf += d
            elif d == b"":
                return None
            else:
                if time.time() - t0 > timeout:
                    return None
                time.sleep(0.0005)
        ln, _, self.buf = self.buf.partition(b"\n")
        return ln.decode().split()


def run_scenario(sc, scratch):
    import subprocess
    n = sc["n"]
    root = tempfile.mkdtemp(prefix="c20cl-", dir=scratch)
    for res in UNIVERSE:
        create(root, res)
    ack_r, ack_w = os.pipe()
    pipes = [os.pipe() for _ in range(n)]
    errp = os.path.join(os.path.dirname(root), os.path.basename(root) + ".stderr")
    errf = open(errp, "wb")
    a = subprocess.Popen([sys.executable, os.path.abspath(__file__), "--client", str(n), root, str(ack_w), errp]
                         + [str(r) for r, _ in pipes],
                         pass_fds=[ack_w] + [r for r, _ in pipes], stdin=subprocess.DEVNULL,
                         stdout=subprocess.DEVNULL, stderr=errf, cwd=root)
    errf.close()
    os.close(ack_w)
    for r, _ in pipes:
        os.close(r)
    wfd = [w for _, w in pipes]
    acks = Acks(ack_r)
    out = {"obs": [], "flags": [], "tracker_pid": None}
    pids = {}
    for _ in range(n):
        m = acks.get()
        if not m or m[1] != "pid":
            out["flags"].append("startup-failed")
            break
        pids[int(m[0])] = int(m[2])
        out["tracker_pid"] = int(m[3])
    alive = set(pids)

    def send(c, text):
        os.write(wfd[c], (text + "\n").encode())

    def end_client(c, how):
        if how == "kill":
            os.kill(pids[c], signal.SIGKILL)
        else:
            send(c, "exit")
            acks.get()
        t0 = time.time()
        if c == 0:
            try:
                a.wait(timeout=30)
            except Exception:
                out["flags"].append("client-0-did-not-end")
        else:
            while not proc_gone(pids[c]):
                if time.time() - t0 > 30:
                    out["flags"].append("client-%d-did-not-end" % c)
                    break
                time.sleep(0.001)
        alive.discard(c)
        os.close(wfd[c])
        wfd[c] = None

    script = list(sc["script"])
    script += [[c, "exit", None] for c in range(n)]
    if "startup-failed" not in out["flags"]:
        for c, op, res in script:
            if c not in alive:
                continue
            if op in ("exit", "kill"):
                end_client(c, op)
                if alive:
                    # somebody is still connected: ask a survivor to synchronise, then look
                    s = min(alive)
                    send(s, "sync -")
                    m = acks.get()
                    if not m or m[1] != "ok":
                        out["flags"].append("sync-failed-after-%s" % op)
                out["obs"].append({"op": [c, op, None], "exists": exists_vec(root), "alive": sorted(alive),
                                   "tracker_running": not proc_gone(out["tracker_pid"])})
                continue
            send(c, "%s %s" % (op, res.encode().hex()))
            m = acks.get()
            if not m or m[1] != "ok":
                out["flags"].append("op-failed:%s" % (m,))
                break
            out["obs"].append({"op": [c, op, res], "exists": exists_vec(root), "alive": sorted(alive),
                               "tracker_running": not proc_gone(out["tracker_pid"])})
    # everybody is gone (or the run is being abandoned): make sure no client keeps the pipe open
    for c in list(alive):
        try:
            os.kill(pids[c], signal.SIGKILL)
        except OSError:
            pass
        out["flags"].append("forced-kill-%d" % c)
    try:
        a.wait(timeout=30)
    except Exception:
        a.kill()
    t0 = time.time()
    ended = True
    while out["tracker_pid"] and out["tracker_pid"] > 0 and not proc_gone(out["tracker_pid"]):
        if time.time() - t0 > 30:
            ended = False
            break
        time.sleep(0.002)
    out["tracker_ended"] = ended
    if not ended:
        out["flags"].append("tracker-still-running-30s-after-last-client")
    out["final_exists"] = exists_vec(root)
    out["untracked_d2"] = os.path.exists(os.path.join(root, "d2", "untracked"))
    try:
        out["stderr_tail"] = open(errp, "rb").read().decode("utf-8", "replace")[-800:]
        os.unlink(errp)
    except OSError:
        pass
    if out["tracker_pid"] and not ended:
        try:
            os.kill(out["tracker_pid"], signal.SIGKILL)
        except OSError:
            pass
    os.close(ack_r)
    for w in wfd:
        if w is not None:
            os.close(w)
    shutil.rmtree(root, ignore_errors=True)
    return out


def main():
    if len(sys.argv) > 1 and sys.argv[1] == "--client":
        client_main(sys.argv[2:])
        return
    scratch = sys.argv[1]
    hangs = 0
    for ln in sys.stdin:
        if not ln.strip():
            continue
        sc = json.loads(ln)
        if hangs >= 2:  # early stop: do not wait for the same time-out again and again
            sys.stdout.write(json.dumps({"skipped": "early stop after 2 time-outs in this stream"}) + "\n")
            sys.stdout.flush()
            continue
        try:
            res = run_scenario(sc, scratch)
            if res.get("flags"):
                hangs += 1
        except Exception as e:  # noqa
            import traceback
            res = {"harness_error": "%s: %s" % (type(e).__name__, e), "tb": traceback.format_exc()[-800:]}
        sys.stdout.write(json.dumps(res) + "\n")
        sys.stdout.flush()


if __name__ == "__main__":
    main()
