"""Implementation side of the C08 extension (identity/memo, save_global, NumpyHasher).
Runs under the numpy interpreter (python3-vt, PYTHONPATH = repo).  stdin: one JSON case per line,
stdout: one JSON result per line (first line: live constants).

case  : {"x": xspec, "coerce": bool}
xspec : ["leaf", spec]                      spec as in c08_impl.py (a tree of fresh objects)
        | ["arr", {"dtype": str | [[name, str]..], "shape": [..], "data": hex (C-order bytes), "layout": L, "klass": K}]
              L in C | F | T | slice | bcast | neg ;  K in ndarray | memmap | sub
        | ["glob", name]                    a module-level function / class from GLOBALS
        | ["T", id, [xspec..]] | ["L", id, [xspec..]] | ["D", id, [[spec, xspec]..]]
        | ["ref", id]                       the object built under that id (same identity)
result: {"chunks": [hex..] the arguments of self._hash.update in order, "md5": joblib.hash(v, coerce_mmap=..),
         "desc": xspec with arrays / globals replaced by what the model needs (live values)}
"""
import collections
import json
import os
import pickle
import struct
import sys
import tempfile

import numpy as np

import joblib
from joblib import hashing

sys.path.insert(0, os.path.dirname(os.path.abspath(__file__)))
import c08_impl  # noqa: E402  (build / describe of plain specs)


def main_fn(a, b=1):
    return a


class MainCls(object):
    pass


class Sub(np.ndarray):
    pass


GLOBALS = {"int": int, "join": os.path.join, "OrderedDict": collections.OrderedDict,
           "main_fn": main_fn, "MainCls": MainCls, "ndarray": np.ndarray,
           "json.dumps": json.dumps, "Sub": Sub}

TMP = tempfile.mkdtemp(prefix="verif-c08x-")
_counter = [0]


def qualified(obj):
    name = getattr(obj, "__qualname__", None) or obj.__name__
    return ("%s\n%s\n" % (pickle.whichmodule(obj, name), name)).encode("utf-8")


def build_arr(d):
    dt = d["dtype"]
    dtype = np.dtype([tuple(f) for f in dt]) if isinstance(dt, list) else np.dtype(dt)
    shape = tuple(d["shape"])
    base = np.frombuffer(bytes.fromhex(d["data"]), dtype=dtype).reshape(shape).copy()
    lay = d["layout"]
    if lay == "C":
        a = base
    elif lay == "F":
        a = np.asfortranarray(base)
    elif lay == "T":
        a = base.T
    elif lay == "slice":
        big = np.zeros(tuple(2 * s for s in shape), dtype=dtype)
        sl = tuple(slice(None, None, 2) for _ in shape)
        big[sl] = base
        a = big[sl]
    elif lay == "bcast":
        a = np.broadcast_to(base, (2,) + shape)
    elif lay == "neg":
        a = base[::-1] if base.ndim else base
    else:
        raise ValueError(lay)
    k = d["klass"]
    if k == "sub":
        a = a.view(Sub)
    elif k == "memmap":
        _counter[0] += 1
        path = os.path.join(TMP, "m%d.bin" % _counter[0])
        c = np.ascontiguousarray(a)
        if c.size == 0:
            raise ValueError("empty memmap")
        mm = np.memmap(path, dtype=dtype, mode="w+", shape=c.shape)
        mm[...] = c
        mm.flush()
        a = np.memmap(path, dtype=dtype, mode="r", shape=c.shape)
        if lay == "T":
            a = a.T
    elif k != "ndarray":
        raise ValueError(k)
    return a


def describe_arr(a):
    flat = a.flatten()            # logical C order
    raw = flat.tobytes()
    return {"klass": qualified(type(a)).hex(), "is_memmap": isinstance(a, np.memmap),
            "dtype_pickle": pickle.dumps(a.dtype).hex(), "hasobject": bool(a.dtype.hasobject),
            "shape": list(a.shape), "strides": list(a.strides), "cflag": bool(a.flags.c_contiguous),
            "fflag": bool(a.flags.f_contiguous), "itemsize": a.dtype.itemsize, "elems": raw.hex(),
            "dtype_str": str(a.dtype)}


def build(x, objs, desc_out):
    """returns (python object, description)"""
    t = x[0]
    if t == "leaf":
        v = c08_impl.build(x[1], "id")
        return v, ["leaf", c08_impl.describe(v)]
    if t == "arr":
        a = build_arr(x[1])
        return a, ["arr", describe_arr(a)]
    if t == "glob":
        g = GLOBALS[x[1]]
        return g, ["glob", qualified(g).hex()]
    if t == "ref":
        return objs[x[1]][0], ["ref", x[1], objs[x[1]][1]]
    if t == "T":
        items = [build(c, objs, desc_out) for c in x[2]]
        v = tuple(i[0] for i in items)
        objs[x[1]] = (v, "T")
        return v, ["T", x[1], [i[1] for i in items]]
    if t == "L":
        v = []
        objs[x[1]] = (v, "L")
        ds = []
        for c in x[2]:
            o, dsc = build(c, objs, desc_out)
            v.append(o)
            ds.append(dsc)
        return v, ["L", x[1], ds]
    if t == "D":
        v = {}
        objs[x[1]] = (v, "D")
        ds = []
        for k, c in x[2]:
            kk = c08_impl.build(k, "id")
            o, dsc = build(c, objs, desc_out)
            v[kk] = o
            ds.append([c08_impl.describe(kk), dsc])
        return v, ["D", x[1], ds]
    raise ValueError("bad xspec " + repr(x)[:60])


class Recorder(object):
    def __init__(self):
        self.chunks = []

    def update(self, b):
        self.chunks.append(bytes(b))

    def hexdigest(self):
        return ""


def run(c):
    v, desc = build(c["x"], {}, None)
    coerce = bool(c.get("coerce"))
    try:
        h = hashing.NumpyHasher(coerce_mmap=coerce)
        h._hash = Recorder()
        h.hash(v)
        chunks = [b.hex() for b in h._hash.chunks]
        md5 = joblib.hash(v, coerce_mmap=coerce)
        sha1 = joblib.hash(v, hash_name="sha1", coerce_mmap=coerce)
    except Exception as e:  # noqa
        return {"raise": type(e).__name__, "desc": desc}
    return {"chunks": chunks, "md5": md5, "sha1": sha1, "desc": desc}


def main():
    const = {"ndarray_name": qualified(np.ndarray).decode(), "numpy": np.__version__,
             "numpy_loaded_hasher": type(hashing.hash.__globals__["NumpyHasher"]).__name__,
             "default_pickle_protocol": pickle.DEFAULT_PROTOCOL}
    sys.stdout.write(json.dumps({"const": const}) + "\n")
    for line in sys.stdin:
        line = line.strip()
        if not line:
            continue
        c = json.loads(line)
        try:
            r = run(c)
        except BaseException as e:  # harness-level failure is reported, not hidden
            r = {"harness_error": repr(e)[:300]}
        sys.stdout.write(json.dumps(r) + "\n")
    sys.stdout.flush()
    import shutil
    shutil.rmtree(TMP, ignore_errors=True)


if __name__ == "__main__":
    main()
