"""Implementation side of C20 (tracker loop).  stdin: one JSON case per line; stdout: one JSON
result per line.  argv[1]: scratch directory.

case = {"steps": [{"pre": [resource, ...], "line": "<raw bytes as latin-1 text>", "nl": bool,
                   "sig": ["INT"|"TERM", "pid"|"group"] (optional)}, ...],
        "werror": bool, "pending": [["INT"|"TERM", "pid"|"group"], ...] (optional), "faults": {name: k} (optional)}
  "sig"     : that signal is sent to the tracker (its pid / its process group) just before the line
  "faults"  : {name: k}: inside the tracker process os.unlink(name) raises PermissionError on its first k attempts
  "pending" : the tracker is spawned with SIGINT/SIGTERM blocked, as ensure_running() does, and these
              signals are sent immediately; the child enters main() only once they are pending
  "pre"  : resources of the universe to (re)create before the line is sent
  "nl"   : False only for the last step (a final line without newline: no synchronisation possible,
           what it deletes is reported together with the EOF phase)

For every case a fresh temp directory is populated, the real ``resource_tracker.main(fd)`` is started
in a subprocess (c20_tracker_child.py) with that directory as cwd, the lines are written to its pipe
one by one and, after each, a synchronisation group
    REGISTER:__sync<k>:file / MAYBE_UNLINK:__sync<k>:file / SYNC<k>:x:file
is sent.  The third line is an unknown command: its traceback on stderr proves that the tracker has
read past the first two, so whether the sentinel clean-up call is in the log is then a fact, not
a matter of timing.  After the group the clean-up log, stderr and the file system are sampled.
"""
import json
import os
import re
import shutil
import signal
import subprocess
import sys
import tempfile
import time

HERE = os.path.dirname(os.path.abspath(__file__))
FILES = ["f1", "f2", "d1/f3", "a:b"]
FOLDERS = ["d1", "d2"]
EXTRA = ["d2/u"]  # untracked content of d2
UNIVERSE = FILES + FOLDERS + EXTRA


def create(root, res):
    p = os.path.join(root, res)
    if res in FOLDERS:
        os.makedirs(p, exist_ok=True)
        if res == "d2":
            with open(os.path.join(p, "u"), "w") as f:
                f.write("u")
    else:
        os.makedirs(os.path.dirname(p), exist_ok=True)
        if os.path.isdir(p):
            return
        with open(p, "w") as f:
            f.write("x")


def exists_vec(root):
    return [os.path.lexists(os.path.join(root, r)) for r in UNIVERSE]


class Tail:
    """incremental reader of a growing file, complete lines only"""

    def __init__(self, path):
        self.path = path
        self.pos = 0
        self.buf = b""

    def read(self):
        try:
            with open(self.path, "rb") as f:
                f.seek(self.pos)
                data = f.read()
        except FileNotFoundError:
            return []
        self.pos += len(data)
        self.buf += data
        if b"\n" not in self.buf:
            return []
        done, _, self.buf = self.buf.rpartition(b"\n")
        return done.decode("utf-8", "replace").split("\n")


EXC_LINE = re.compile(r"^([A-Za-z_][A-Za-z0-9_.]*(?:Error|Exception|Warning|Interrupt|Exit))(?::|$)")
CHAIN = ("During handling of the above exception", "The above exception was the direct cause")


def parse_events(lines):
    """stderr lines -> list of [exception class, message] per excepthook call (chains folded)"""
    events = []
    cur = None
    prev = ""
    for ln in lines:
        if ln.startswith("Traceback (most recent call last):"):
            if cur is not None and prev.startswith(CHAIN):
                pass
            else:
                cur = {"cls": None, "msg": ""}
                events.append(cur)
        else:
            m = EXC_LINE.match(ln)
            if m and cur is not None:
                cur["cls"] = m.group(1)
                cur["msg"] = ln[:200]
        if ln.strip():
            prev = ln
    return [[e["cls"], e["msg"]] for e in events]


def parse_calls(lines):
    """log lines -> list of [rtype, name, result]; result None if the call never returned"""
    calls = []
    for ln in lines:
        f = ln.split("\t")
        if f[0] == "C":
            calls.append([f[1], "" if f[2] == "-" else bytes.fromhex(f[2]).decode("utf-8", "replace"), None])
        elif f[0] == "R":
            for c in reversed(calls):
                if c[2] is None:
                    c[2] = f[3]
                    break
    return calls


def run_case(case, scratch):
    root = tempfile.mkdtemp(prefix="c20-", dir=scratch)
    aux = tempfile.mkdtemp(prefix="c20aux-", dir=scratch)
    logp = os.path.join(aux, "log")
    errp = os.path.join(aux, "stderr")
    r, w = os.pipe()
    cmd = [sys.executable]
    if case.get("werror"):
        cmd += ["-W", "error"]
    cmd += [os.path.join(HERE, "c20_tracker_child.py"), str(r), logp]
    pend = case.get("pending") or []
    if pend:
        cmd.append("pending=" + ",".join(sorted({x[0] for x in pend})))
    if case.get("faults"):
        cmd.append("faults=" + json.dumps(case["faults"]))
    errf = open(errp, "wb")

    def send_sig(p, name, target):
        signum = getattr(signal, "SIG" + name)
        try:
            if target == "group":
                os.killpg(p.pid, signum)   # own session: the group holds the tracker only
            else:
                os.kill(p.pid, signum)
        except OSError:
            pass

    both = {signal.SIGINT, signal.SIGTERM}
    # what ensure_running() does around the spawn: the tracker inherits the blocked mask
    signal.pthread_sigmask(signal.SIG_BLOCK, both)
    try:
        p = subprocess.Popen(cmd, pass_fds=[r], cwd=root, stdin=subprocess.DEVNULL, stdout=subprocess.DEVNULL,
                             stderr=errf, start_new_session=True)
        for name, target in pend:
            send_sig(p, name, target)
    finally:
        signal.pthread_sigmask(signal.SIG_UNBLOCK, both)
    os.close(r)
    errf.close()
    log = Tail(logp)
    err = Tail(errp)
    out = {"steps": [], "flags": [], "types": None}
    pend_log, pend_err = [], []

    def write(data):
        try:
            os.write(w, data)
            return True
        except OSError:
            return False

    dead = False
    try:
        for k, st in enumerate(case["steps"]):
            for res in st.get("pre", []):
                create(root, res)
            if st.get("sig"):
                send_sig(p, st["sig"][0], st["sig"][1])
            raw = st["line"].encode("latin-1")
            if not st.get("nl", True):
                write(raw)
                break
            ok = write(raw + b"\n")
            sent = "__sync%d" % k
            ok = ok and write(("REGISTER:%s:file\nMAYBE_UNLINK:%s:file\nSYNC%d:x:file\n" % (sent, sent, k)).encode())
            marker = "'SYNC%d'" % k
            t0 = time.time()
            seen_sent = None
            synced = False
            while True:
                pend_log += log.read()
                pend_err += err.read()
                if any(marker in ln for ln in pend_err):
                    synced = True
                    break
                if seen_sent is None and any(c[1] == sent for c in parse_calls(pend_log)):
                    seen_sent = time.time()
                if p.poll() is not None:
                    dead = True
                    pend_log += log.read()
                    pend_err += err.read()
                    break
                now = time.time()
                if seen_sent is not None and now - seen_sent > 3:
                    out["flags"].append("errors-not-logged@%d" % k)
                    break
                if now - t0 > 15:
                    out["flags"].append("sync-timeout@%d" % k)
                    break
                time.sleep(0.0005)
            pend_log += log.read()
            for ln in pend_log:
                if ln.startswith("T\t"):
                    out["types"] = ln.split("\t")[1].split(",")
            calls = parse_calls(pend_log)
            events = parse_events(pend_err)
            out["steps"].append({
                "calls": [c for c in calls if c[1] != sent],
                "sentinel": any(c[1] == sent and c[0] == "file" for c in calls),
                "errs": [e for e in events if "SYNC%d" % k not in e[1]],
                "exists": exists_vec(root),
                "alive": not dead,
                "synced": synced,
            })
            pend_log, pend_err = [], []
            if dead or not ok or not synced:
                break
    finally:
        os.close(w)
    try:
        rc = p.wait(timeout=20)
    except subprocess.TimeoutExpired:
        p.kill()
        rc = p.wait()
        out["flags"].append("eof-timeout")
    pend_log += log.read()
    pend_err += err.read() + ([err.buf.decode("utf-8", "replace")] if err.buf else [])
    for ln in pend_log:
        if ln.startswith("T\t"):
            out["types"] = ln.split("\t")[1].split(",")
    out["eof"] = {"calls": parse_calls(pend_log), "errs": parse_events(pend_err), "exists": exists_vec(root),
                  "exit": rc, "stderr_tail": "\n".join(pend_err)[-600:]}
    shutil.rmtree(root, ignore_errors=True)
    shutil.rmtree(aux, ignore_errors=True)
    return out


def main():
    scratch = sys.argv[1]
    hangs = 0
    for ln in sys.stdin:
        if not ln.strip():
            continue
        case = json.loads(ln)
        if hangs >= 2:  # early stop: do not wait for the same time-out hundreds of times
            sys.stdout.write(json.dumps({"skipped": "early stop after 2 time-outs in this stream"}) + "\n")
            sys.stdout.flush()
            continue
        try:
            res = run_case(case, scratch)
            if any("timeout" in f or "not-logged" in f for f in res.get("flags", [])):
                hangs += 1
        except Exception as e:  # noqa
            res = {"harness_error": "%s: %s" % (type(e).__name__, e)}
        sys.stdout.write(json.dumps(res) + "\n")
        sys.stdout.flush()


if __name__ == "__main__":
    main()
