"""One participant / one process of a C05/C11 experiment.

argv[1] = JSON spec:
  loc        cache directory (Memory(location=loc))
  moddir     directory holding vmod.py (the cached function, source version `version`)
  version    int, which source version this process runs
  mode       off | trace | crash | interleave
  crash_at, torn, journal, rfd, wfd   shim parameters
  compress   bool ; cb: null | "valid" | "invalid"  (expires_after far future / already expired)
  actions    list of {"a": "call"|"shelve"|"clear"|"fclear"|"reduce"|"atime", ...}
  state      bool: dump the canonical directory state at the end
  nkeys      how many keys to put in the digest table
stdout: one JSON object {"results": [...], "log": [...], "state": [...], "pid": ...}
"""
import json
import os
import re
import sys
import threading
import warnings

spec = json.loads(sys.argv[1])
sys.path.insert(0, os.path.dirname(os.path.abspath(__file__)))
import c05_shim  # noqa: E402

LOC = os.path.abspath(spec["loc"])
DIGEST = {}
TMP_RE = re.compile(r"\.thread-(\d+)-pid-(\d+)$")


def canon(r):
    parts = r.split(os.sep)
    out = []
    for p in parts:
        m = TMP_RE.search(p)
        suffix = ""
        if m:
            suffix = ".T%s_%s" % (m.group(2), m.group(1))
            p = p[:m.start()]
        out.append(DIGEST.get(p, p) + suffix)
    return "/".join(out)


mode = spec.get("mode", "off")
if mode != "off":
    c05_shim.install(LOC, mode=mode, crash_at=spec.get("crash_at"), torn=spec.get("torn"), canon=canon,
                     journal=spec.get("journal"), rfd=spec.get("rfd"), wfd=spec.get("wfd"))

warnings.simplefilter("ignore")
sys.path.insert(0, spec["moddir"])
import joblib  # noqa: E402
from joblib import Memory, expires_after  # noqa: E402
from joblib import hashing  # noqa: E402
import vmod  # noqa: E402

# digest table first (pure computation, no file-system access under LOC)
for k in range(spec.get("nkeys", 8)):
    DIGEST[hashing.hash({"x": k}, coerce_mmap=False)] = "K%d" % k

VERSIONS = spec.get("versions", [1, 2, 3, 100])


def classify(path, name):
    base = TMP_RE.sub("", name)
    try:
        if base == "output.pkl":
            v = joblib.load(path)
            return ["val", v]
        data = open(path, "rb").read()
        if base == "metadata.json":
            d = json.loads(data.decode("utf-8"))
            return ["meta"] if "time" in d and "input_args" in d else ["torn"]
        if base == "func_code.py":
            txt = data.decode("utf-8")
            for v in VERSIONS:
                if v in vmod.SOURCES and txt == "# first line: 3\n" + vmod.SOURCES[v]:
                    return ["code", v]
            return ["torn"]
        if base == ".gitignore":
            return ["git"] if data == b"# Created by joblib automatically.\n*\n" else ["torn"]
    except Exception:
        return ["torn"]
    return ["other"]


def dump_state():
    c05_shim.pause()
    try:
        out = []
        if os.path.isdir(LOC):
            out.append([".", ["dir"]])
        for dp, dns, fns in os.walk(LOC):
            r = os.path.relpath(dp, LOC)
            if r != ".":
                out.append([canon(r), ["dir"]])
            for fn in fns:
                p = os.path.join(dp, fn)
                out.append([canon(os.path.relpath(p, LOC)), classify(p, fn)])
        out.sort()
        return out
    finally:
        c05_shim.resume()


if spec.get("state_only"):
    sys.stdout.write(json.dumps({"state": dump_state(), "pid": os.getpid(), "results": [], "log": []}) + "\n")
    sys.stdout.flush()
    sys.exit(0)
def run_session(spec):
    pre_state = dump_state() if spec.get("pre_state") else None
    results = []
    cbs = {None: None, "valid": expires_after(days=1000), "invalid": expires_after(seconds=0)}
    try:
        mem = Memory(LOC, verbose=spec.get("verbose", 0), compress=spec.get("compress", False))
        cf = mem.cache(vmod.f, cache_validation_callback=cbs[spec.get("cb")])
        for act in spec["actions"]:
            a = act["a"]
            mark = len(vmod.CALLS)
            lo = len(c05_shim.current_log())
            try:
                if a == "call":
                    r = {"ok": cf(act["k"])}
                elif a == "shelve":
                    r = {"ok": cf.call_and_shelve(act["k"]).get()}
                elif a == "check":            # check_call_in_cache: a bool, never an exception
                    r = {"ok": None, "check": bool(cf.check_call_in_cache(act["k"]))}
                elif a == "mr":               # a MemorizedResult built from the store, then .get()
                    from joblib.memory import MemorizedResult
                    ref = MemorizedResult(cf.store_backend, (cf.func_id, cf._get_args_id(act["k"])),
                                          verbose=spec.get("verbose", 0))
                    try:
                        r = {"ok": ref.get(), "mr": True}
                    except KeyError as e:     # documented: the item is not (any more) in the store
                        r = {"ok": None, "mr": "KeyError", "msg": str(e)[:120]}
                elif a == "shelve_clear_call":
                    ref = cf.call_and_shelve(act["k"])
                    v1 = ref.get()
                    ref.clear()
                    r = {"ok": cf(act["k"]), "first": v1}
                elif a == "clear":
                    mem.clear(warn=False)
                    r = {"ok": None}
                elif a == "fclear":
                    cf.clear(warn=False)
                    r = {"ok": None}
                elif a == "reduce":
                    import datetime
                    age = act.get("age_s")
                    mem.reduce_size(items_limit=act.get("items_limit"), bytes_limit=act.get("bytes_limit"),
                                    age_limit=None if age is None else datetime.timedelta(seconds=age))
                    r = {"ok": None}
                elif a == "damage":
                    # harness-side: overwrite a final-named file with damaged content (NOT a crash state: it probes
                    # the "load failure => warn and recompute" safety net of _cached_call / get_metadata)
                    c05_shim.pause()
                    try:
                        p = os.path.join(LOC, "joblib", "vmod", "f", cf._get_args_id(act["k"]), act.get("file", "output.pkl"))
                        with open(p, "rb") as fh:
                            data = fh.read()
                        n = len(data)
                        kind = act["kind"]
                        new = {"empty": b"", "zeros": b"\0" * n, "hole": data[:n // 3] + b"\0" * (n - n // 3 - n // 3) + data[n - n // 3:],
                               "garbage": b"garbage", "ff": b"\xff\xfe\xfd", "half": data[:n // 2], "minus1": data[:-1],
                               "one": data[:1], "binget": b"\x80\x04h\x05.", "longbinget": b"\x80\x04j\x05\x00\x00\x00.",
                               "proto9": b"\x80\x09N.", "text": b"{\"a\": 1}", "zlibhdr": b"ZF0x10" + b"\0" * 10,
                               "zlibcut": b"\x78\x9c\x01"}[kind]
                        with open(p, "wb") as fh:
                            fh.write(new)
                    finally:
                        c05_shim.resume()
                    r = {"ok": None}
                elif a == "atime":
                    c05_shim.pause()
                    try:
                        p = os.path.join(LOC, "joblib", "vmod", "f", cf._get_args_id(act["k"]), "output.pkl")
                        os.utime(p, (act["t"], act["t"]))  # output.pkl: get_items reads its atime
                    finally:
                        c05_shim.resume()
                    r = {"ok": None}
                else:
                    r = {"harness_error": "unknown action %r" % a}
            except Exception as e:  # the outcome of the action, reported (with the call chain that raised)
                import traceback
                r = {"raise": type(e).__name__, "msg": str(e)[:200],
                     "site": [fr.name for fr in traceback.extract_tb(e.__traceback__)
                              if "joblib" in fr.filename or fr.filename.endswith(("os.py", "shutil.py"))]}
            r["computed"] = [x for (who, x) in vmod.CALLS[mark:] if who == threading.get_ident()]
            r["ops"] = [lo, len(c05_shim.current_log())]
            results.append(r)
    except BaseException as e:  # construction failed
        import traceback
        results.append({"raise": type(e).__name__, "msg": str(e)[:200], "where": "init",
                        "site": [fr.name for fr in traceback.extract_tb(e.__traceback__)
                                 if "joblib" in fr.filename or fr.filename.endswith(("os.py", "shutil.py"))]})
    c05_shim.finished()
    out = {"results": results, "pid": os.getpid(), "log": c05_shim.current_log(),
           "wid": "%d_%d" % (os.getpid(), id(threading.current_thread()))}
    if spec.get("state"):
        out["state"] = dump_state()
    if pre_state is not None:
        out["pre_state"] = pre_state
    return out


def restore(snapshot):
    """put the cache directory (and its creation-order journal) back to the snapshot"""
    import shutil
    c05_shim.pause()
    try:
        shutil.rmtree(LOC, ignore_errors=True)
        if os.path.isdir(snapshot):
            shutil.copytree(snapshot, LOC)
        j = spec.get("journal")
        if j:
            if os.path.exists(j):
                os.unlink(j)
            if os.path.exists(snapshot + ".journal"):
                shutil.copy(snapshot + ".journal", j)
    finally:
        c05_shim.resume()


if spec.get("hashrace"):
    # Two THREADS of one process call the same cached function with different arguments; a pre-emption is forced
    # at a chosen LINE of joblib/hashing.py (sys.monitoring, no change to the repo): thread 0 runs `switch` lines of
    # the hashing code, then thread 1 runs its whole call, then thread 0 continues.
    import types
    hr = spec["hashrace"]
    mem = Memory(LOC, verbose=0)
    cfh = mem.cache(vmod.f)
    mon = sys.monitoring
    TOOL = 3
    mon.use_tool_id(TOOL, "verif-c11")
    who = threading.local()
    cv = threading.Condition()
    st = {"turn": 0, "count": 0, "switched": False, "done": [False, False], "events": [0, 0]}

    def gate(code, line):
        i = getattr(who, "i", None)
        if i is None:
            return
        with cv:
            st["events"][i] += 1
            if i == 0 and not st["switched"]:
                if st["count"] >= hr["switch"] and not st["done"][1]:
                    st["switched"] = True
                    st["turn"] = 1
                    cv.notify_all()
                st["count"] += 1
            deadline = 60
            while st["turn"] != i and not st["done"][1 - i]:
                if not cv.wait(timeout=deadline):
                    break

    mon.register_callback(TOOL, mon.events.LINE, gate)
    codes = []
    for obj in vars(hashing).values():
        if isinstance(obj, types.FunctionType) and obj.__module__ == hashing.__name__:
            codes.append(obj.__code__)
        elif isinstance(obj, type) and obj.__module__ == hashing.__name__:
            codes += [m.__code__ for m in vars(obj).values() if isinstance(m, types.FunctionType)]
    for c in codes:
        mon.set_local_events(TOOL, c, mon.events.LINE)
    outs = [None, None]

    def racer(i, k):
        who.i = i
        try:
            outs[i] = {"ok": cfh(k)}
        except Exception as e:
            outs[i] = {"raise": type(e).__name__, "msg": str(e)[:200]}
        with cv:
            st["done"][i] = True
            st["turn"] = 1 - i
            cv.notify_all()

    ths = [threading.Thread(target=racer, args=(i, k)) for i, k in enumerate(hr["keys"])]
    for th in ths:
        th.start()
    for th in ths:
        th.join(120)
    for c in codes:
        mon.set_local_events(TOOL, c, 0)
    mon.free_tool_id(TOOL)
    again = []
    for k in hr["keys"]:
        try:
            again.append({"ok": cfh(k)})
        except Exception as e:
            again.append({"raise": type(e).__name__, "msg": str(e)[:200]})
    sys.stdout.write(json.dumps({"race": outs, "again": again, "events": st["events"], "switched": st["switched"],
                                 "state": dump_state(), "pid": os.getpid()}) + "\n")
    sys.stdout.flush()
elif spec.get("threads"):
    # several participants in ONE process: one thread each, each with its own scheduler channel
    outs = [None] * len(spec["threads"])

    def worker(i, sub):
        c05_shim.bind_thread(sub["rfd"], sub["wfd"])
        merged = dict(spec)
        merged.update(sub)
        try:
            outs[i] = run_session(merged)
        except BaseException as e:
            outs[i] = {"harness_error": repr(e), "pid": os.getpid()}
            c05_shim.finished()

    ths = [threading.Thread(target=worker, args=(i, sub)) for i, sub in enumerate(spec["threads"])]
    for th in ths:
        th.start()
    for th in ths:
        th.join()
    sys.stdout.write(json.dumps({"threads": outs}) + "\n")
    sys.stdout.flush()
elif spec.get("variants"):
    # several read-back sessions on the same crashed directory: each runs in a forked child of this
    # (not yet used) interpreter -- fresh _FUNCTION_HASHES, own pid -- after the directory was restored
    res = {}
    for var in spec["variants"]:
        restore(spec["snapshot"])
        r, w = os.pipe()
        pid = os.fork()
        if pid == 0:
            os.close(r)
            sub = dict(spec)
            sub.update(var)
            try:
                o = run_session(sub)
            except BaseException as e:
                o = {"harness_error": repr(e), "pid": os.getpid()}
            data = json.dumps(o).encode()
            while data:
                n = os.write(w, data)
                data = data[n:]
            os._exit(0)
        os.close(w)
        chunks = []
        while True:
            b = os.read(r, 65536)
            if not b:
                break
            chunks.append(b)
        os.close(r)
        os.waitpid(pid, 0)
        try:
            res[var["tag"]] = json.loads(b"".join(chunks).decode())
        except ValueError:
            res[var["tag"]] = {"harness_error": "read-back child died", "pid": pid}
    sys.stdout.write(json.dumps({"variants": res}) + "\n")
    sys.stdout.flush()
else:
    sys.stdout.write(json.dumps(run_session(spec)) + "\n")
    sys.stdout.flush()
