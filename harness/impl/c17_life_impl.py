"""Implementation side of C17, second stream: the multiprocessing start method and the life of one Parallel object.
The harness starts one interpreter per value of JOBLIB_START_METHOD (it is read when joblib is imported).
stdin: one JSON case per line; stdout: one JSON result per line.

{"mode":"ctx","arg":null|"spawn"|"forkserver"|"fork","enclosing":null|"multiprocessing"|"threading","build":bool}
    Parallel(n_jobs=2[, backend=multiprocessing.get_context(arg)]) [inside parallel_config(enclosing)]
    -> backend class, start method of _backend_kwargs["context"], and (build) of the pool that `with p:` really builds
{"mode":"life","backend":"recmp"|"recloky"|"recthr","args":{...Parallel kwargs...},"enclosing":{...parallel_config kwargs...}|null,
 "ops":["enter"|"ok"|"fail"|"exit", ...]}
    the backends are subclasses registered with register_parallel_backend whose configure() records what it is given;
    -> the kwargs resolved by Parallel.__init__ and the list of recorded configure calls
{"mode":"pool",...} / {"mode":"tempdir",...}: the temp folder the pool / executor really resolves and the kwargs that reach the pool
    constructor (MemmappingPool / get_memmapping_executor are wrapped); one interpreter per JOBLIB_TEMP_FOLDER set / unset
"""
import json
import multiprocessing
import os
import sys
import warnings

warnings.simplefilter("ignore")


def boom(i):
    if i == 1:
        raise KeyError("task failure requested by the scenario")
    return i


def fine(i):
    return i


def probe_nested(i):
    """what a nested Parallel() without n_jobs resolves to inside a worker, and what the worker's context says"""
    import os
    import joblib.parallel as jp_
    from joblib import Parallel as P_
    b_, n_ = jp_.get_active_backend()
    return {"pid": os.getpid(), "context_n_jobs": n_, "parallel_n_jobs": P_().n_jobs, "nested_backend": type(b_).__name__}


def main():
    out = sys.stdout
    sys.stdout = sys.stderr
    import joblib.parallel as jp
    from joblib import Parallel, delayed, parallel_config, register_parallel_backend
    from joblib._parallel_backends import LokyBackend, MultiprocessingBackend, ThreadingBackend

    records = []

    def canon_kwargs(kw):
        ctx = kw.get("context", "<absent>")
        return {"max_nbytes": kw.get("max_nbytes", "<absent>"), "temp_folder": kw.get("temp_folder", "<absent>"),
                "mmap_mode": kw.get("mmap_mode", "<absent>"), "prefer": kw.get("prefer", "<absent>"),
                "require": kw.get("require", "<absent>"), "verbose": kw.get("verbose", "<absent>"),
                "context": ctx if isinstance(ctx, str) else ctx.get_start_method()}

    def recording(base):
        class Rec(base):
            def configure(self, n_jobs=1, parallel=None, **kw):
                records.append({"n_jobs": n_jobs, "kwargs": canon_kwargs(kw)})
                return super().configure(n_jobs=n_jobs, parallel=parallel, **kw)
        Rec.__name__ = "Rec" + base.__name__
        return Rec
    register_parallel_backend("recmp", recording(MultiprocessingBackend))
    register_parallel_backend("recloky", recording(LokyBackend))
    register_parallel_backend("recthr", recording(ThreadingBackend))

    def run_ctx(c):
        import contextlib
        cm = parallel_config(backend=c["enclosing"]) if c.get("enclosing") else contextlib.nullcontext()
        with cm:
            kw = {"n_jobs": 2}
            if c["arg"] is not None:
                kw["backend"] = multiprocessing.get_context(c["arg"])
            p = Parallel(**kw)
            r = {"kind": type(p._backend).__name__, "context": p._backend_kwargs["context"].get_start_method(),
                 "default": multiprocessing.get_context().get_start_method(),
                 "env": os.environ.get("JOBLIB_START_METHOD")}
            if c.get("build") and isinstance(p._backend, MultiprocessingBackend):
                with p:
                    r["pool_context"] = p._backend._pool._ctx.get_start_method()
            return r

    def run_life(c):
        import contextlib
        del records[:]
        cm = parallel_config(**c["enclosing"]) if c.get("enclosing") else contextlib.nullcontext()
        with cm:
            p = Parallel(backend=c["backend"], **c["args"])
        resolved = {"n_jobs": p.n_jobs, "kwargs": canon_kwargs(p._backend_kwargs)}
        marks = []
        stack = contextlib.ExitStack()
        for op in c["ops"]:
            before = len(records)
            if op == "enter":
                stack.enter_context(p)
            elif op == "exit":
                stack.close()
            elif op == "ok":
                p(delayed(fine)(i) for i in range(3))
            elif op == "fail":
                try:
                    p(delayed(boom)(i) for i in range(3))
                    marks.append("no-exception")
                except KeyError:
                    pass
            marks.append([op, len(records) - before])
        stack.close()
        return {"resolved": resolved, "configure_calls": list(records), "per_op": marks}

    # ---- what the pool / executor is REALLY built with (the merge with the backend object's kwargs happens inside configure)
    import joblib._parallel_backends as pbm
    from joblib import _memmapping_reducer as mred
    built = []
    real_pool, real_exec = pbm.MemmappingPool, pbm.get_memmapping_executor

    def rec_pool(processes=None, **kw):
        built.append({"ctor": "MemmappingPool", "size": processes, "kwargs": {k: (v if isinstance(v, (int, str, type(None))) else "<obj>")
                                                                            for k, v in kw.items()}})
        return real_pool(processes, **kw)

    def rec_exec(n_jobs, **kw):
        built.append({"ctor": "get_memmapping_executor", "size": n_jobs,
                      "kwargs": {k: (v if isinstance(v, (int, str, type(None))) else "<obj>") for k, v in kw.items()}})
        return real_exec(n_jobs, **kw)
    pbm.MemmappingPool = rec_pool
    pbm.get_memmapping_executor = rec_exec

    def default_parent():
        saved = os.environ.pop("JOBLIB_TEMP_FOLDER", None)
        try:
            return os.path.dirname(mred._get_temp_dir("verif_probe", None)[0])
        finally:
            if saved is not None:
                os.environ["JOBLIB_TEMP_FOLDER"] = saved

    def run_pool(c):
        """{"mode":"pool","backend":"multiprocessing"|"loky","args":{Parallel kwargs},"enclosing":{parallel_config kwargs}|null,
            "objkw":{kwargs of a backend INSTANCE passed as backend=}|null}"""
        import contextlib
        del built[:]
        kw = dict(c["args"])
        cm = parallel_config(**c["enclosing"]) if c.get("enclosing") else contextlib.nullcontext()
        with cm:
            if c.get("objkw") is not None:
                kw["backend"] = {"multiprocessing": pbm.MultiprocessingBackend, "loky": pbm.LokyBackend}[c["backend"]](**c["objkw"])
            elif not (c.get("enclosing") or {}).get("backend"):
                kw["backend"] = c["backend"]
            with Parallel(n_jobs=2, **kw) as p:
                r = {"resolved_temp_folder": p._backend_kwargs["temp_folder"], "built": list(built),
                     "default_parent": default_parent(), "env": os.environ.get("JOBLIB_TEMP_FOLDER")}
                if c["backend"] == "multiprocessing":
                    r["pool_temp_parent"] = os.path.dirname(p._backend._pool._temp_folder)
                    r["maxtasksperchild"] = p._backend._pool._maxtasksperchild
                else:
                    r["pool_temp_parent"] = os.path.dirname(p._backend._workers._temp_folder_manager.resolve_temp_folder_name())
                    r["executor_id"] = id(p._backend._workers)
        return r

    def run_nestednjobs(c):
        """{"mode":"nestednjobs","base":"loky"|"threading"|"multiprocessing","nested_n_jobs":k}: a registered backend whose
        get_nested_backend() asks for nested n_jobs = k (as the dask backend does with -1)"""
        base = {"loky": LokyBackend, "threading": ThreadingBackend, "multiprocessing": MultiprocessingBackend}[c["base"]]
        k = c["nested_n_jobs"]

        class Asking(base):
            def get_nested_backend(self):
                nb, _ = super().get_nested_backend()
                return nb, k
        register_parallel_backend("verif_asking_" + c["base"], Asking)
        out_ = Parallel(n_jobs=2, backend="verif_asking_" + c["base"])(delayed(probe_nested)(i) for i in range(4))
        return {"workers": out_, "caller_pid": os.getpid()}

    def run_scope(c):
        """{"mode":"scope","logdir":d,"inner":k,"after":n}: `with parallel_config(n_jobs=k): Parallel()(tasks)` and then, outside
        that block, Parallel(n_jobs=n)(tasks) on the SAME loky executor (worker environment pinned by the enclosing
        parallel_config('loky', inner_max_num_threads=1)); the tasks are the barrier-synchronised ones of the C15 nested runs"""
        import c15_nest
        from joblib.externals.loky import reusable_executor
        d = c["logdir"]
        with parallel_config("loky", inner_max_num_threads=1):
            with parallel_config(n_jobs=c["inner"]):
                p1 = Parallel()
                n1 = p1.n_jobs
                p1(delayed(c15_nest.task)(d, "q0", i, min(n1, c["inner"] + 2), None) for i in range(c["inner"] + 2))
            ex1 = id(reusable_executor._executor)
            p2 = Parallel(n_jobs=c["after"])
            n2 = p2.n_jobs
            p2(delayed(c15_nest.task)(d, "q1", i, min(n2, c["after"] + 2), None) for i in range(c["after"] + 2))
            ex2 = id(reusable_executor._executor)
            mw = reusable_executor._executor._max_workers
        ev = [json.loads(l) for l in open(os.path.join(d, "events.jsonl")) if l.strip()]
        return {"n1": n1, "n2": n2, "executor_reused": ex1 == ex2, "max_workers_after": mw, "events": ev}

    def run_tempdir(c):
        """{"mode":"tempdir","arg":path|null}: the unit _get_temp_dir(name, arg)"""
        return {"parent": os.path.dirname(mred._get_temp_dir("verif_unit", c["arg"])[0]), "default_parent": default_parent(),
                "env": os.environ.get("JOBLIB_TEMP_FOLDER")}

    for line in sys.stdin:
        line = line.strip()
        if not line:
            continue
        c = json.loads(line)
        try:
            r = {"ctx": run_ctx, "life": run_life, "pool": run_pool, "tempdir": run_tempdir, "nestednjobs": run_nestednjobs, "scope": run_scope}[c["mode"]](c)
        except BaseException as e:  # noqa
            r = {"harness_error": repr(e)}
        out.write(json.dumps(r) + "\n")
        out.flush()


if __name__ == "__main__":
    main()
