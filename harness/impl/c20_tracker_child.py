"""Runs the REAL resource_tracker.main(fd) of the repo under test, the way loky launches it
(``from joblib.externals.loky.backend.resource_tracker import main; main(fd)``), except that every
entry of ``_CLEANUP_FUNCS`` is wrapped from the outside: the wrapper appends a record to a log file,
calls the ORIGINAL clean-up function (real deletion, relative to the current directory) and records
how it ended.  Nothing in /repo is edited.

argv: <read fd> <log path> [pending=INT,TERM] [faults=<json {name: k}>]
   faults=...: transient clean-up faults inside THIS (tracker) process: os.unlink raises PermissionError on the
   first k attempts for the given path name, then works (what joblib's unlink_file retry loop exists for).
   pending=...: the driver started this process with SIGINT/SIGTERM blocked (as ensure_running does) and
   sent the named signals right after the spawn; main() is entered only once they are pending, so
   "a signal arrived while the tracker was starting" is a fact, not a matter of timing.
log records (one os.write each, O_APPEND):
    C \t rtype \t hex(name)            before the call
    R \t rtype \t hex(name) \t ok|<ExceptionClass>   after it
"""
import os
import sys

fd = int(sys.argv[1])
log_fd = os.open(sys.argv[2], os.O_WRONLY | os.O_APPEND | os.O_CREAT, 0o600)

# importing the module through the package runs joblib/__init__ exactly as in the real tracker
# process (joblib._memmapping_reducer replaces the "file" clean-up function there)
import joblib.externals.loky.backend.resource_tracker as rt  # noqa: E402


def _hex(name):
    return str(name).encode("utf-8", "backslashreplace").hex() or "-"


def _wrap(rtype, func):
    def cleanup(name):
        os.write(log_fd, ("C\t%s\t%s\n" % (rtype, _hex(name))).encode())
        try:
            func(name)
        except BaseException as e:
            os.write(log_fd, ("R\t%s\t%s\t%s\n" % (rtype, _hex(name), type(e).__name__)).encode())
            raise
        os.write(log_fd, ("R\t%s\t%s\tok\n" % (rtype, _hex(name))).encode())
    return cleanup


# same keys, same order, same functions -- only observed
for _a in sys.argv[3:]:
    if _a.startswith("faults="):
        import json as _json
        _left = dict(_json.loads(_a[7:]))
        _real_unlink = os.unlink

        def _unlink(path, *a, **k):
            name = os.fsdecode(os.fspath(path))
            if not a and not k and _left.get(name, 0) > 0:
                _left[name] -= 1
                os.write(log_fd, ("F\t%s\n" % _hex(name)).encode())
                raise PermissionError(13, "Permission denied (injected)", name)
            return _real_unlink(path, *a, **k)

        os.unlink = _unlink
rt._CLEANUP_FUNCS = {k: _wrap(k, v) for k, v in rt._CLEANUP_FUNCS.items()}
_pend = [a for a in sys.argv[3:] if a.startswith("pending=")]
if _pend:
    import signal
    import time
    want = {getattr(signal, "SIG" + n) for n in _pend[0][8:].split(",") if n}
    t0 = time.time()
    while not want <= signal.sigpending() and time.time() - t0 < 20:
        time.sleep(0.001)
    os.write(log_fd, ("P\t%s\n" % ",".join(sorted(s.name for s in signal.sigpending()))).encode())
os.write(log_fd, ("T\t%s\n" % ",".join(rt._CLEANUP_FUNCS.keys())).encode())
rt.main(fd)
