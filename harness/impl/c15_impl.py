"""Implementation side of C15 (arithmetic).  stdin: one JSON case per line; stdout: one JSON result per line.

{"mode":"eff","kind":"seq|thr|loky|mp","cpus":c,"n":n,"daemon":b,"depth":d,"main":b,"level":l,"mp_none":b}
    <Backend>(nesting_level=l).effective_n_jobs(n) with loky.cpu_count patched to c, mp / current_process().daemon /
    process_executor._CURRENT_DEPTH patched, and -- for main=false -- REALLY called from a non-main thread.
{"mode":"api","kind":...,"cpus":c,"n":n}     joblib.effective_n_jobs(n) inside parallel_config(backend=kind)
{"mode":"cpu","os":v|null,"aff":k|null,"cg":null|["max"|q, p]|["v1", q, p],"loky_env":s|null}
    loky.cpu_count() in a forked child: os.cpu_count patched, REAL affinity mask of k CPUs (sched_setaffinity),
    cgroup files faked through the module's open/os.path.exists, LOKY_MAX_CPU_COUNT set/unset.
    Also returns joblib.cpu_count().
"""
import json
import os
import sys
import threading
import warnings

warnings.simplefilter("ignore")
OUT = sys.stdout
sys.stdout = sys.stderr

import joblib  # noqa: E402
import joblib._parallel_backends as pb  # noqa: E402
from joblib.externals.loky.backend import context as lctx  # noqa: E402

KINDS = {"seq": pb.SequentialBackend, "thr": pb.ThreadingBackend, "loky": pb.LokyBackend, "mp": pb.MultiprocessingBackend}
NAMES = {"seq": "sequential", "thr": "threading", "loky": "loky", "mp": "multiprocessing"}
REAL_MP = pb.mp
REAL_CPU = pb.cpu_count
REAL_DEPTH = pb.process_executor._CURRENT_DEPTH


class FakeProc:
    def __init__(self, daemon):
        self.daemon = daemon


class FakeMp:
    """stands for the multiprocessing module: only current_process().daemon is scripted, everything else (e.g. cpu_count,
    which ignores affinity / LOKY_MAX_CPU_COUNT) is the real module's"""

    def __init__(self, daemon):
        self._d = daemon

    def current_process(self):
        return FakeProc(self._d)

    def __getattr__(self, name):
        return getattr(REAL_MP, name)


def call_in(main, f):
    if main:
        return f()
    box = {}

    def run():
        try:
            box["r"] = f()
        except BaseException as e:  # noqa
            box["e"] = e
    t = threading.Thread(target=run)
    t.start()
    t.join()
    if "e" in box:
        raise box["e"]
    return box["r"]


def run_eff(c):
    pb.cpu_count = lambda: c["cpus"]
    pb.mp = None if c["mp_none"] else FakeMp(c["daemon"])
    pb.process_executor._CURRENT_DEPTH = c["depth"]
    try:
        b = KINDS[c["kind"]](nesting_level=c["level"])
        try:
            with warnings.catch_warnings():
                warnings.simplefilter("ignore")
                v = call_in(c["main"], lambda: b.effective_n_jobs(c["n"]))
        except Exception as e:  # noqa
            return {"raise": type(e).__name__}
        return {"ok": v}
    finally:
        pb.cpu_count = REAL_CPU
        pb.mp = REAL_MP
        pb.process_executor._CURRENT_DEPTH = REAL_DEPTH


def run_api(c):
    pb.cpu_count = lambda: c["cpus"]
    try:
        with joblib.parallel_config(backend=NAMES[c["kind"]]):
            try:
                return {"ok": joblib.effective_n_jobs(c["n"])}
            except Exception as e:  # noqa
                return {"raise": type(e).__name__}
    finally:
        pb.cpu_count = REAL_CPU


CLASS_IDX = {pb.SequentialBackend: 0, pb.ThreadingBackend: 1, pb.LokyBackend: 2, pb.MultiprocessingBackend: 3}


def run_nested(c):
    """{"mode":"nested","kind":k,"level":l}: <class k>(nesting_level=l).get_nested_backend() outside any context"""
    b = KINDS[c["kind"]](nesting_level=c["level"])
    nb, n = b.get_nested_backend()
    return {"ok": [CLASS_IDX.get(type(nb), -1), nb.nesting_level, n]}


def run_conf(c):
    """{"mode":"conf","kind":"seq"|"thr","level":l,"n":n,"cpus":c}: <class>.configure(n_jobs=n); for threading also the
    number of threads of the pool that _get_pool() then creates"""
    pb.cpu_count = lambda: c["cpus"]
    try:
        b = KINDS[c["kind"]](nesting_level=c["level"])
        try:
            v = b.configure(n_jobs=c["n"], parallel=None)
        except pb.FallbackToBackend as e:
            return {"fallback": [CLASS_IDX.get(type(e.backend), -1), e.backend.nesting_level]}
        except Exception as e:  # noqa
            return {"raise": type(e).__name__}
        r = {"ok": v}
        if c["kind"] == "thr" and isinstance(v, int) and 1 < v <= 12:
            pool = b._get_pool()
            r["pool"] = len(pool._pool)
            b.terminate()
        return r
    finally:
        pb.cpu_count = REAL_CPU


def run_custom1(c):
    """{"mode":"custom1","via":"instance"|"name"|"config","workers":k,"n_jobs":n}: a user-defined backend whose configure()
    returns k; with k = 1 the tasks must run in the CALLING thread (never through submit)"""
    import queue

    class OneWorker(pb.ParallelBackendBase):
        supports_retrieve_callback = True
        submitted = 0

        def configure(self, n_jobs=1, parallel=None, **kw):
            self.parallel = parallel
            return c["workers"]

        def effective_n_jobs(self, n_jobs):
            return c["workers"]

        def submit(self, func, callback=None):
            type(self).submitted += 1
            box = queue.Queue()

            def work():
                try:
                    box.put(("ok", func()))
                except BaseException as e:  # noqa
                    box.put(("err", e))
                if callback is not None:
                    callback(box)
            threading.Thread(target=work).start()
            return box

        def retrieve_result_callback(self, out):
            kind, v = out.get()
            if kind == "err":
                raise v
            return v

    def task():
        return threading.get_ident()
    joblib.register_parallel_backend("verif_oneworker", OneWorker)
    kw = {"n_jobs": c["n_jobs"]}
    if c["via"] == "instance":
        kw["backend"] = OneWorker()
    elif c["via"] == "name":
        kw["backend"] = "verif_oneworker"
    import contextlib
    cm = joblib.parallel_config(backend="verif_oneworker") if c["via"] == "config" else contextlib.nullcontext()
    try:
        with cm:
            idents = joblib.Parallel(**kw)(joblib.delayed(task)() for _ in range(4))
    except Exception as e:  # noqa
        return {"raise": type(e).__name__}
    me = threading.get_ident()
    return {"ok": [1 if i == me else 0 for i in idents], "submitted": OneWorker.submitted}


def run_defnjobs(c):
    """{"mode":"defnjobs","call_backend":name}: inside parallel_config(backend=<a registered backend whose default_n_jobs is -1>)
    with no n_jobs anywhere, Parallel(backend=call_backend) without n_jobs: the n_jobs it resolves to and where its tasks run"""
    class Greedy(pb.ThreadingBackend):
        default_n_jobs = -1
    joblib.register_parallel_backend("verif_greedy", Greedy)

    def task():
        return threading.get_ident()
    try:
        with joblib.parallel_config(backend="verif_greedy"):
            kw = {} if c["call_backend"] is None else {"backend": c["call_backend"]}
            p = joblib.Parallel(**kw)
            n = p.n_jobs
            idents = p(joblib.delayed(task)() for _ in range(6)) if c["call_backend"] in ("threading", "sequential") else []
    except Exception as e:  # noqa
        return {"raise": type(e).__name__}
    me = threading.get_ident()
    return {"ok": n, "in_caller": [1 if i == me else 0 for i in idents]}


def run_cpu_child(c, wfd):
    import io
    os_mod = lctx.os
    if c["os"] != "real":
        os_mod.cpu_count = lambda: c["os"]
    if c["aff"] is not None:
        os.sched_setaffinity(0, set(range(c["aff"])))
    if c["loky_env"] is None:
        os.environ.pop("LOKY_MAX_CPU_COUNT", None)
    else:
        os.environ["LOKY_MAX_CPU_COUNT"] = c["loky_env"]
    if c["cg"] != "real":
        files = {}
        if c["cg"] is not None:
            if c["cg"][0] == "v1":
                files["/sys/fs/cgroup/cpu/cpu.cfs_quota_us"] = "%s\n" % c["cg"][1]
                files["/sys/fs/cgroup/cpu/cpu.cfs_period_us"] = "%s\n" % c["cg"][2]
            else:
                files["/sys/fs/cgroup/cpu.max"] = "%s %s\n" % (c["cg"][0], c["cg"][1])
        cg_names = ("/sys/fs/cgroup/cpu.max", "/sys/fs/cgroup/cpu/cpu.cfs_quota_us", "/sys/fs/cgroup/cpu/cpu.cfs_period_us")
        real_exists = os.path.exists

        def fake_exists(p):
            if p in cg_names:
                return p in files
            return real_exists(p)

        def fake_open(p, *a, **k):
            if p in cg_names:
                return io.StringIO(files[p])
            return open(p, *a, **k)
        os.path.exists = fake_exists
        lctx.open = fake_open
    try:
        if "phys" in c:
            # only_physical_cores=True with a scripted physical-core count (the lookup is cached in the module)
            lctx.physical_cores_cache = c["phys"] if c["phys"] is not None else "not found"
            r = {"ok": lctx.cpu_count(only_physical_cores=True), "joblib": joblib.cpu_count(only_physical_cores=True),
                 "aff_seen": len(os.sched_getaffinity(0))}
            os.write(wfd, json.dumps(r).encode())
            os._exit(0)
        r = {"ok": lctx.cpu_count(), "joblib": joblib.cpu_count(), "aff_seen": len(os.sched_getaffinity(0))}
    except Exception as e:  # noqa
        r = {"raise": type(e).__name__, "msg": str(e)[:200]}
    os.write(wfd, json.dumps(r).encode())
    os._exit(0)


def run_cpu(c):
    rfd, wfd = os.pipe()
    pid = os.fork()
    if pid == 0:
        try:
            os.close(rfd)
            run_cpu_child(c, wfd)
        finally:
            os._exit(3)
    os.close(wfd)
    data = b""
    while True:
        chunk = os.read(rfd, 65536)
        if not chunk:
            break
        data += chunk
    os.close(rfd)
    os.waitpid(pid, 0)
    return json.loads(data.decode()) if data else {"harness_error": "child produced nothing"}


for line in sys.stdin:
    line = line.strip()
    if not line:
        continue
    c = json.loads(line)
    try:
        r = {"eff": run_eff, "api": run_api, "cpu": run_cpu, "nested": run_nested, "conf": run_conf, "custom1": run_custom1, "defnjobs": run_defnjobs}[c["mode"]](c)
    except BaseException as e:
        r = {"harness_error": repr(e)}
    OUT.write(json.dumps(r) + "\n")
    OUT.flush()
