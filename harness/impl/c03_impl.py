"""Implementation side of C03 (interpreter without numpy).  stdin: one JSON case per line; stdout: one JSON
result per line.

modes
  resolve   : run the real joblib.dump on a fixed small value with the given compress form / target and
              report what it decided (recorded at _write_fileobject and at every registered compressor's
              compressor_file), the exception, the bytes written and what joblib.load gives back
  detect    : run the real _detect_compressor on given bytes (peekable BufferedReader or plain BytesIO,
              positioned at an offset) and report the verdict and the position afterwards
  detect2   : the verdict for all 256*256 two-byte heads (only the ones that are not 'not-compressed')
  roundtrip : generate an object graph from a seed, dump it (protocol, compress form, target kind, name,
              non-zero start offset), optionally rename the file to a misleading name, load it back and
              compare structurally including aliasing
"""
import io
import json
import os
import pickle
import random
import shutil
import sys
import tempfile
import pathlib
import collections
import enum

import joblib
from joblib import numpy_pickle, numpy_pickle_utils, compressor

VALUE = {"k": [1, 2.5, "three", None, (4, 5)], "b": b"\x00\xff" * 7}
TMP = tempfile.mkdtemp(prefix="verif-c03-")


# ------------------------------------------------------------------ recording
REC = {"wf": None, "calls": []}
_orig_wf = numpy_pickle._write_fileobject


def _rec_wf(filename, compress=("zlib", 3)):
    REC["wf"] = [compress[0], compress[1]]
    return _orig_wf(filename, compress=compress)


numpy_pickle._write_fileobject = _rec_wf


def _wrap_compressor(name, wrapper):
    orig = wrapper.compressor_file

    def rec(fileobj, compresslevel=None):
        REC["calls"].append([name, compresslevel])
        return orig(fileobj, compresslevel=compresslevel)
    wrapper.compressor_file = rec


for _n, _w in compressor._COMPRESSORS.items():
    _wrap_compressor(_n, _w)


def jlevel(x):
    if x is None or isinstance(x, (bool, int, str)):
        return x
    return repr(x)


def mk_form(f):
    t = f["t"]
    if t == "true":
        return True
    if t == "false":
        return False
    if t == "none":
        return None
    if t == "int":
        return f["v"]
    if t == "str":
        return f["v"]
    if t == "tuple":
        m, l = f["v"]
        if isinstance(m, dict):
            m = m["nonstr"]
        return (m, l)
    if t == "tuplen":
        return tuple(["zlib", 3, 1][: f["n"]]) if f["n"] < 3 else ("zlib", 3, 1)
    raise ValueError(t)


class Target:
    def __init__(self, spec, pre=0):
        self.k = spec["k"]
        self.pre = pre
        self.dir = tempfile.mkdtemp(dir=TMP)
        self.path = None
        self.fobj = None
        name = spec.get("name", "f.pkl")
        if self.k in ("path", "pathlib", "raw"):
            self.path = os.path.join(self.dir, name)
        if self.k == "path":
            self.arg = self.path
        elif self.k == "pathlib":
            self.arg = pathlib.Path(self.path)
        elif self.k == "raw":
            self.fobj = open(self.path, "wb")
            self.fobj.write(b"P" * pre)
            self.arg = self.fobj
        elif self.k == "bytesio":
            self.fobj = io.BytesIO()
            self.fobj.write(b"P" * pre)
            self.arg = self.fobj
        elif self.k == "invalid":
            self.arg = spec.get("value", 5)
        else:
            raise ValueError(self.k)

    def state(self):
        """of the caller-owned file object: is it still open, where is it positioned"""
        if self.fobj is None:
            return None
        if self.fobj.closed:
            return {"closed": True, "pos": None}
        return {"closed": False, "pos": self.fobj.tell()}

    def written(self):
        if self.fobj is not None and self.fobj.closed:
            if self.k == "bytesio":
                return None                      # the buffer is gone with the closed BytesIO
        elif self.k == "bytesio":
            return self.fobj.getvalue()[self.pre:]
        elif self.k == "raw":
            self.fobj.flush()
        if self.path and os.path.exists(self.path):
            with open(self.path, "rb") as f:
                return f.read()[self.pre:]
        return None

    def close(self):
        if self.k == "raw" and not self.fobj.closed:
            self.fobj.close()
        shutil.rmtree(self.dir, ignore_errors=True)


def run_resolve(c):
    REC["wf"] = None
    REC["calls"] = []
    tg = Target(c["target"])
    out = {}
    try:
        try:
            ret = joblib.dump(VALUE, tg.arg, compress=mk_form(c["form"]), protocol=c.get("proto"))
            out["raise"] = None
            out["ret"] = "list" if isinstance(ret, list) and ret == [tg.path] else ("none" if ret is None else repr(ret))
        except Exception as e:  # noqa
            out["raise"] = type(e).__name__
        out["wf"] = None if REC["wf"] is None else [jlevel(REC["wf"][0]), jlevel(REC["wf"][1])]
        out["calls"] = [[n, jlevel(l)] for n, l in REC["calls"]]
        out["after_dump"] = tg.state()
        data = tg.written()
        out["bytes"] = None if data is None else data.hex()
        if out["after_dump"] is not None and data is not None:
            out["after_dump"]["expected_pos"] = tg.pre + len(data)
        if out["raise"] is None and out["after_dump"] is not None and out["after_dump"]["closed"]:
            return out                           # the caller's object was closed by dump: that is the outcome
        if out["raise"] is None:
            # load back, under the same name / from the same object
            try:
                if tg.k in ("path", "pathlib"):
                    back = joblib.load(tg.arg)
                elif tg.k == "raw":
                    tg.fobj.close()
                    with open(tg.path, "rb") as f:
                        back = joblib.load(f)
                        out["closed_after_load"] = f.closed
                else:
                    tg.fobj.seek(0)
                    back = joblib.load(tg.fobj)
                    out["closed_after_load"] = tg.fobj.closed
                out["load_ok"] = back == VALUE
            except Exception as e:  # noqa
                out["load_ok"] = False
                out["load_raise"] = repr(e)[:200]
    finally:
        tg.close()
    return out


def run_detect(c):
    res = []
    for h in c["heads"]:
        data = bytes.fromhex(h["hex"])
        pre = h.get("pre", 0)
        raw = io.BytesIO(b"Q" * pre + data)
        f = io.BufferedReader(raw) if c["peekable"] else raw
        f.seek(pre)
        try:
            name = numpy_pickle_utils._detect_compressor(f)
            res.append([name, f.tell()])
        except Exception as e:  # noqa
            res.append(["raise:" + type(e).__name__, -1])
    return {"res": res}


def run_detect2(c):
    hits = []
    for b0 in range(256):
        for b1 in range(256):
            data = bytes([b0, b1])
            f = io.BytesIO(data)
            if c["peekable"]:
                f = io.BufferedReader(f)
            try:
                name = numpy_pickle_utils._detect_compressor(f)
            except Exception as e:  # noqa   -- an outcome of this head, not of the harness
                name = "raise:" + type(e).__name__
            if name != "not-compressed":
                hits.append([b0, b1, name])
    return {"hits": hits}


# ------------------------------------------------------------------ object generator
class Plain:
    def __init__(self):
        self.a = None


class Slotted:
    __slots__ = ("x", "y")

    def __init__(self, x=None, y=None):
        self.x = x
        self.y = y

    def __getstate__(self):          # protocols 0 and 1 need it for a class with __slots__
        return (self.x, self.y)

    def __setstate__(self, st):
        self.x, self.y = st


class Reducer:
    def __init__(self, payload):
        self.payload = payload
        self.cache = "not pickled"

    def __reduce__(self):
        return (Reducer, (self.payload,))


class WithState:
    def __init__(self):
        self.v = None
        self.transient = 1

    def __getstate__(self):
        return {"v": self.v}

    def __setstate__(self, st):
        self.v = st["v"]
        self.transient = 1


Point = collections.namedtuple("Point", "x y")


class Color(enum.Enum):
    RED = 1
    BLUE = 2


class Gen:
    def __init__(self, seed, size):
        self.r = random.Random(seed)
        self.size = size
        self.pool = []          # mutable objects available for sharing
        self.kinds = collections.Counter()

    def scalar(self):
        r = self.r
        k = r.randrange(13)
        self.kinds["scalar"] += 1
        if k == 0:
            return None
        if k == 1:
            return r.random() < 0.5
        if k == 2:
            return r.choice([0, 1, -1, 255, 256, 65535, 65536, 2 ** 31 - 1, 2 ** 31, -2 ** 31, 2 ** 63, -2 ** 70, 10 ** 40])
        if k == 3:
            return r.choice([0.0, -0.0, 1.5, float("inf"), float("-inf"), float("nan"), 1e-320, r.random()])
        if k == 4:
            return complex(r.random(), -r.random())
        if k == 5:
            return "".join(r.choice("abé中\U0001F600 \n\\'\"\x00") for _ in range(r.randrange(0, 12)))
        if k == 6:
            return bytes(r.randrange(256) for _ in range(r.randrange(0, 12)))
        if k == 7:
            return Color.RED if r.random() < 0.5 else Color.BLUE
        if k == 8:
            return r.choice([Plain, Point, len, collections.OrderedDict, Ellipsis, NotImplemented, int, type(None)])
        if k == 9:
            return range(r.randrange(5), r.randrange(5, 50), r.randrange(1, 4))
        if k == 10:
            return "s" * r.choice([254, 255, 256, 257])      # SHORT_BINUNICODE / BINUNICODE boundary
        if k == 11:
            return b"b" * r.choice([254, 255, 256, 257])
        return r.randrange(-1000, 1000)

    def hashable(self, depth):
        r = self.r
        if depth <= 0 or r.random() < 0.7:
            s = self.scalar()
            while isinstance(s, float) and s != s:
                s = self.scalar()
            return s
        if r.random() < 0.5:
            return tuple(self.hashable(depth - 1) for _ in range(r.randrange(0, 3)))
        return frozenset(self.hashable(0) for _ in range(r.randrange(0, 3)))

    def obj(self, depth):
        r = self.r
        if self.pool and r.random() < 0.18:
            self.kinds["shared"] += 1
            return r.choice(self.pool)
        if depth <= 0 or r.random() < 0.3:
            return self.scalar()
        k = r.randrange(12)
        n = r.randrange(0, 4)
        if k == 0:
            o = []
            self.pool.append(o)
            for _ in range(n):
                o.append(self.obj(depth - 1))
            if r.random() < 0.25:
                o.append(o)
                self.kinds["recursive"] += 1
            self.kinds["list"] += 1
            return o
        if k == 1:
            self.kinds["tuple"] += 1
            return tuple(self.obj(depth - 1) for _ in range(n))
        if k == 2:
            o = {}
            self.pool.append(o)
            for _ in range(n):
                o[self.hashable(1)] = self.obj(depth - 1)
            if r.random() < 0.25:
                o["self"] = o
                self.kinds["recursive"] += 1
            self.kinds["dict"] += 1
            return o
        if k == 3:
            self.kinds["set"] += 1
            o = set(self.hashable(1) for _ in range(n))
            self.pool.append(o)
            return o
        if k == 4:
            self.kinds["frozenset"] += 1
            return frozenset(self.hashable(1) for _ in range(n))
        if k == 5:
            o = Plain()
            self.pool.append(o)
            o.a = self.obj(depth - 1)
            if r.random() < 0.3:
                o.me = o
                self.kinds["recursive"] += 1
            self.kinds["instance"] += 1
            return o
        if k == 6:
            o = Slotted()
            self.pool.append(o)
            o.x = self.obj(depth - 1)
            o.y = o if r.random() < 0.2 else self.obj(depth - 1)
            self.kinds["slots"] += 1
            return o
        if k == 7:
            self.kinds["reduce"] += 1
            return Reducer(self.obj(depth - 1))
        if k == 8:
            o = WithState()
            self.pool.append(o)
            o.v = self.obj(depth - 1)
            self.kinds["getstate"] += 1
            return o
        if k == 9:
            self.kinds["namedtuple"] += 1
            return Point(self.obj(depth - 1), self.scalar())
        if k == 10:
            o = bytearray(r.randrange(256) for _ in range(r.randrange(0, 20)))
            self.pool.append(o)
            self.kinds["bytearray"] += 1
            return o
        o = collections.OrderedDict()
        self.pool.append(o)
        for _ in range(n):
            o[self.hashable(0)] = self.obj(depth - 1)
        self.kinds["ordereddict"] += 1
        return o

    TINY = [None, True, False, (), 0, 1, "", b"", [], {}, 1.5, -1, "a"]

    def top(self):
        r = self.r
        if self.size == "tiny":          # pickles of 2..12 bytes: shorter than the longest magic number
            self.kinds["tiny"] += 1
            return r.choice(self.TINY)
        if isinstance(self.size, dict) and "tiny" in self.size:  # {"tiny": index}
            self.kinds["tiny"] += 1
            return self.TINY[self.size["tiny"] % len(self.TINY)]
        if isinstance(self.size, dict) and "zeros" in self.size:
            # several MiB of one repeated value: deflate reaches ~1000:1, so ONE 8 KiB compressed block inflates to MiBs
            self.kinds["compressible"] += 1
            n = self.size.get("mib", 6) * 1024 * 1024 + r.choice([-1, 0, 1, 4097])
            kind = self.size["zeros"]
            if kind == "bytes":
                big = bytes(n)
            elif kind == "bytearray":
                big = bytearray(n)
            elif kind == "str":
                big = "a" * n
            else:
                big = [0] * (n // 4)                 # pickled as K\x00 K\x00 ...
            return [big, {"tail": "after the big value", "same": big if kind != "list" else None}]
        parts = [self.obj(4) for _ in range(r.randrange(1, 5))]
        sz = self.size
        delta = r.choice([-3, -1, 0, 1, 2, 17])
        if sz == "8k":
            parts.append(bytes(r.randrange(256) for _ in range(8192 + delta)))
            parts.append("x" * (8192 + delta))
        elif sz == "64k":
            # pickle frames target 64 KiB; objects above it are written outside of a frame
            parts.append([i for i in range(9000)])
            parts.append(b"z" * (65536 + delta))
            parts.append(["t%d" % i for i in range(7000)])
        elif sz == "1m":
            blob = bytes(r.randrange(256) for _ in range(4096)) * 256
            parts.append(blob[: 1024 * 1024 + delta])
            parts.append(parts[-1])                       # shared large object
            parts.append(bytearray(blob[: 1024 * 1024 - delta]))
        if r.random() < 0.5:
            parts.append(parts)                           # recursion through the top-level list
            self.kinds["recursive"] += 1
        return parts


def same(a, b):
    """structural equality + identical aliasing pattern of mutable / user objects (is-graph isomorphism)"""
    fwd, bwd = {}, {}
    stack = [(a, b, "root")]
    seen_pairs = set()
    tracked = (list, dict, set, bytearray, Plain, Slotted, WithState, collections.OrderedDict)
    while stack:
        x, y, path = stack.pop()
        if type(x) is not type(y):
            return "type %s vs %s at %s" % (type(x).__name__, type(y).__name__, path)
        if isinstance(x, tracked):
            if id(x) in fwd or id(y) in bwd:
                if fwd.get(id(x)) != id(y) or bwd.get(id(y)) != id(x):
                    return "aliasing differs at " + path
                continue
            fwd[id(x)] = id(y)
            bwd[id(y)] = id(x)
        key = (id(x), id(y))
        if isinstance(x, (tuple, frozenset, Reducer)) and key in seen_pairs:
            continue
        seen_pairs.add(key)
        if isinstance(x, float):
            if repr(x) != repr(y):
                return "float %r vs %r at %s" % (x, y, path)
        elif isinstance(x, (list, tuple)):
            if len(x) != len(y):
                return "length at " + path
            for i, (p, q) in enumerate(zip(x, y)):
                stack.append((p, q, "%s[%d]" % (path, i)))
        elif isinstance(x, dict):
            kx, ky = list(x.keys()), list(y.keys())
            if len(kx) != len(ky):
                return "dict size at " + path
            for p, q in zip(kx, ky):          # pickle preserves insertion order
                stack.append((p, q, path + ".key"))
                stack.append((x[p], y[q], "%s[%r]" % (path, p)))
        elif isinstance(x, (set, frozenset)):
            if x != y:
                return "set at " + path
        elif isinstance(x, Plain):
            stack.append((x.__dict__, y.__dict__, path + ".__dict__"))
        elif isinstance(x, Slotted):
            stack.append((x.x, y.x, path + ".x"))
            stack.append((x.y, y.y, path + ".y"))
        elif isinstance(x, Reducer):
            if y.cache != "not pickled":
                return "Reducer was not rebuilt through __reduce__ at " + path
            stack.append((x.payload, y.payload, path + ".payload"))
        elif isinstance(x, WithState):
            stack.append((x.v, y.v, path + ".v"))
        elif isinstance(x, complex):
            if repr(x) != repr(y):
                return "complex at " + path
        else:
            if x != y and not (x is y):
                return "value %r vs %r at %s" % (x, y, path)
    return None


def run_roundtrip(c):
    g = Gen(c["seed"], c["size"])
    obj = g.top()
    pre = c.get("pre", 0)
    tg = Target(c["target"], pre=pre)
    out = {"kinds": dict(g.kinds)}
    if g.kinds.get("tiny"):
        out["obj_repr"] = repr(obj)
    try:
        try:
            pickle.dumps(obj, protocol=c["proto"])
        except Exception as e:  # noqa   -- not a picklable object: outside the property
            out["unpicklable"] = type(e).__name__ + ": " + str(e)[:120]
            return out
        try:
            joblib.dump(obj, tg.arg, compress=mk_form(c["form"]), protocol=c["proto"])
        except Exception as e:  # noqa
            out["dump_raise"] = type(e).__name__ + ": " + str(e)[:120]
            return out
        out["after_dump"] = tg.state()
        data = tg.written()
        if out["after_dump"] is not None and data is not None:
            out["after_dump"]["expected_pos"] = pre + len(data)
        if out["after_dump"] is not None and out["after_dump"]["closed"]:
            return out
        out["nbytes"] = len(data)
        out["head"] = data[:8].hex()
        # the uncompressed payload's head, for the "how a pickle starts" hypothesis
        b = io.BytesIO()
        joblib.dump(obj, b, compress=0, protocol=c["proto"])
        out["plain_head"] = b.getvalue()[:2].hex()
        out["plain_len"] = len(b.getvalue())
        try:
            if tg.k in ("path", "pathlib"):
                load_path = tg.path
                if c.get("load_name"):
                    load_path = os.path.join(tg.dir, c["load_name"])
                    os.rename(tg.path, load_path)
                if c.get("load_via") == "fileobj":
                    with open(load_path, "rb") as f:
                        back = joblib.load(f)
                        out["closed_after_load"] = f.closed
                elif c.get("load_via") == "pathlib":
                    back = joblib.load(pathlib.Path(load_path))
                else:
                    back = joblib.load(load_path)
            elif tg.k == "raw":
                tg.fobj.close()
                load_path = tg.path
                if c.get("load_name"):
                    load_path = os.path.join(tg.dir, c["load_name"])
                    os.rename(tg.path, load_path)
                with open(load_path, "rb") as f:
                    f.seek(pre)
                    back = joblib.load(f)
                    out["closed_after_load"] = f.closed
            else:
                tg.fobj.seek(pre)
                back = joblib.load(tg.fobj)
                out["closed_after_load"] = tg.fobj.closed
        except Exception as e:  # noqa
            out["load_raise"] = type(e).__name__ + ": " + str(e)[:160]
            return out
        out["diff"] = same(obj, back)
        return out
    finally:
        tg.close()


class NoName:
    """a readable/seekable object without a name attribute (and without peek)"""

    def __init__(self, data):
        self._f = io.BytesIO(data)

    def read(self, n=-1):
        return self._f.read(n)

    def readline(self, n=-1):
        return self._f.readline(n)

    def readinto(self, b):
        return self._f.readinto(b)

    def seek(self, off, whence=0):
        return self._f.seek(off, whence)

    def tell(self):
        return self._f.tell()


CARRIERS = ["tempfile", "fdopen", "pipe", "spooled_mem", "spooled_disk", "noname", "bytesname", "fd_open", "unbuffered",
            "bytesio", "zlibfile_w", "gzipfile_w", "zlibfile_r", "gzipfile_r"]


class StreamClosed(Exception):
    pass


def must_be_open(f, stage, out):
    """dump()/load() must leave a caller-owned file object open"""
    if getattr(f, "closed", False):
        out["stream_closed"] = stage
        raise StreamClosed(stage)


def carrier_roundtrip(obj, form, proto, carrier, wd, out):
    """dump obj through the carrier's writing end, load it back through its reading end"""
    import threading
    path = os.path.join(wd, "carried.bin")
    if carrier == "tempfile":                       # .name is the fd number
        with tempfile.TemporaryFile(dir=wd) as f:
            out["name_type"] = type(getattr(f, "name", None)).__name__
            joblib.dump(obj, f, compress=form, protocol=proto)
            must_be_open(f, "dump", out)
            f.flush()
            f.seek(0)
            out["head"] = f.read(8).hex()
            f.seek(0)
            back = joblib.load(f)
            must_be_open(f, "load", out)
            return back
    if carrier in ("fdopen", "fd_open"):            # os.fdopen(fd) / open(fd): .name is an int
        mk = os.fdopen if carrier == "fdopen" else open
        with mk(os.open(path, os.O_WRONLY | os.O_CREAT | os.O_TRUNC, 0o600), "wb") as f:
            joblib.dump(obj, f, compress=form, protocol=proto)
            must_be_open(f, "dump", out)
        out["head"] = open(path, "rb").read(8).hex()
        with mk(os.open(path, os.O_RDONLY), "rb") as f:
            out["name_type"] = type(getattr(f, "name", None)).__name__
            back = joblib.load(f)
            must_be_open(f, "load", out)
            return back
    if carrier == "pipe":                           # not seekable, .name is an int
        rfd, wfd = os.pipe()
        err = []

        def writer():
            try:
                with os.fdopen(wfd, "wb") as wf:
                    joblib.dump(obj, wf, compress=form, protocol=proto)
                    must_be_open(wf, "dump", out)
            except BaseException as e:  # noqa
                err.append(e)
        t = threading.Thread(target=writer)
        t.start()
        try:
            with os.fdopen(rfd, "rb") as rf:
                out["name_type"] = type(getattr(rf, "name", None)).__name__
                try:
                    back = joblib.load(rf)
                    must_be_open(rf, "load", out)
                finally:
                    try:
                        while rf.read(1 << 16):       # let the writer finish whatever happened
                            pass
                    except Exception:  # noqa
                        pass
        finally:
            t.join(60)
        if err:
            raise err[0]
        return back
    if carrier in ("spooled_mem", "spooled_disk"):  # .name is None (in memory) / an int (rolled over)
        with tempfile.SpooledTemporaryFile(max_size=(1 << 30) if carrier == "spooled_mem" else 16, dir=wd) as f:
            joblib.dump(obj, f, compress=form, protocol=proto)
            must_be_open(f, "dump", out)
            f.seek(0)
            out["head"] = f.read(8).hex()
            f.seek(0)
            out["name_type"] = type(getattr(f, "name", None)).__name__
            back = joblib.load(f)
            must_be_open(f, "load", out)
            return back
    if carrier in ("zlibfile_w", "gzipfile_w", "zlibfile_r", "gzipfile_r"):
        # joblib's OWN file objects handed to dump / load by the caller (no peek(): the sniffing does read(5), seek(0))
        cls = compressor.BinaryZlibFile if carrier.startswith("zlib") else compressor.BinaryGzipFile
        if carrier.endswith("_w"):                  # a plain dump written THROUGH an open BinaryZlib/GzipFile
            fz = cls(path, "wb", compresslevel=3)
            try:
                joblib.dump(obj, fz, compress=0, protocol=proto)
                must_be_open(fz, "dump", out)
            finally:
                fz.close()
        else:                                       # an ordinary compressed dump, WRAPPED by the caller for reading
            joblib.dump(obj, path, compress=("zlib" if carrier.startswith("zlib") else "gzip", 3), protocol=proto)
        out["head"] = open(path, "rb").read(8).hex()
        out["form_used"] = "0 through the file object" if carrier.endswith("_w") else "codec of the file object"
        fz = cls(path, "rb")
        try:
            out["name_type"] = type(getattr(fz, "name", None)).__name__
            back = joblib.load(fz)
            must_be_open(fz, "load", out)
            return back
        finally:
            fz.close()
    if carrier == "unbuffered":                     # io.FileIO: no peek()
        with open(path, "wb", buffering=0) as f:
            joblib.dump(obj, f, compress=form, protocol=proto)
            must_be_open(f, "dump", out)
        out["head"] = open(path, "rb").read(8).hex()
        with open(path, "rb", buffering=0) as f:
            out["name_type"] = type(getattr(f, "name", None)).__name__
            back = joblib.load(f)
            must_be_open(f, "load", out)
            return back
    if carrier == "bytesio":
        b = io.BytesIO()
        joblib.dump(obj, b, compress=form, protocol=proto)
        must_be_open(b, "dump", out)
        out["head"] = b.getvalue()[:8].hex()
        out["name_type"] = "absent"
        b.seek(0)
        back = joblib.load(b)
        must_be_open(b, "load", out)
        return back
    if carrier == "noname":
        b = io.BytesIO()
        joblib.dump(obj, b, compress=form, protocol=proto)
        must_be_open(b, "dump", out)
        out["head"] = b.getvalue()[:8].hex()
        f = NoName(b.getvalue())
        out["name_type"] = "absent"
        return joblib.load(f)
    if carrier == "bytesname":                      # open(b"...") : .name is bytes
        with open(os.fsencode(path), "wb") as f:
            joblib.dump(obj, f, compress=form, protocol=proto)
            must_be_open(f, "dump", out)
        out["head"] = open(path, "rb").read(8).hex()
        with open(os.fsencode(path), "rb") as f:
            out["name_type"] = type(getattr(f, "name", None)).__name__
            back = joblib.load(f)
            must_be_open(f, "load", out)
            return back
    raise ValueError(carrier)


def run_carrier(c):
    g = Gen(c["seed"], c["size"])
    obj = g.top()
    out = {"kinds": dict(g.kinds)}
    if g.kinds.get("tiny"):
        out["obj_repr"] = repr(obj)
    wd = tempfile.mkdtemp(dir=TMP)
    try:
        try:
            pickle.dumps(obj, protocol=c["proto"])
        except Exception as e:  # noqa
            out["unpicklable"] = type(e).__name__ + ": " + str(e)[:120]
            return out
        b = io.BytesIO()
        joblib.dump(obj, b, compress=0, protocol=c["proto"])
        out["plain_head"] = b.getvalue()[:2].hex()
        try:
            back = carrier_roundtrip(obj, mk_form(c["form"]), c["proto"], c["carrier"], wd, out)
        except StreamClosed:
            return out
        except Exception as e:  # noqa
            out["load_raise"] = "%s carrier: %s: %s" % (c["carrier"], type(e).__name__, str(e)[:160])
            return out
        out["diff"] = same(obj, back)
        return out
    finally:
        shutil.rmtree(wd, ignore_errors=True)


class OtherReader:
    """a readable, seekable, peekable object that is neither a raw file nor a BytesIO"""

    def __init__(self, data):
        self._f = io.BufferedReader(io.BytesIO(data))

    def __getattr__(self, n):
        if n == "raw" or n == "name":
            raise AttributeError(n)
        return getattr(self._f, n)


def classify_warning(w):
    msg = str(w.message)
    if "In memory persistence is not compatible" in msg:
        return "bytesio"
    if "is not compatible with compressed file" in msg:
        return "compressed"
    if "is not a raw file" in msg:
        return "notraw"
    return type(w.message).__name__ + ":" + msg[:60]


def run_loadmatrix(c):
    """load(): every (source kind x mmap_mode x ensure_native_byte_order) for one compress form"""
    import warnings
    wd = tempfile.mkdtemp(dir=TMP)
    try:
        path = os.path.join(wd, "f.bin")
        joblib.dump(VALUE, path, compress=mk_form(c["form"]))
        data = open(path, "rb").read()
        res = []
        for sk in ("path", "pathlib", "rawfile", "bytesio", "other"):
            for mm in (None, "r", "r+", "c", "w+"):
                for na in ("auto", True, False):
                    opened = None
                    if sk == "path":
                        src = path
                    elif sk == "pathlib":
                        src = pathlib.Path(path)
                    elif sk == "rawfile":
                        src = opened = open(path, "rb")
                    elif sk == "bytesio":
                        src = io.BytesIO(data)
                    else:
                        src = OtherReader(data)
                    r = {"src": sk, "mmap": mm, "native": na}
                    try:
                        with warnings.catch_warnings(record=True) as ws:
                            warnings.simplefilter("always")
                            back = joblib.load(src, mmap_mode=mm, ensure_native_byte_order=na)
                        r["warn"] = sorted(set(classify_warning(w) for w in ws))
                        r["ok"] = back == VALUE
                    except Exception as e:  # noqa
                        r["raise"] = type(e).__name__
                    finally:
                        if opened is not None:
                            opened.close()
                    res.append(r)
        return {"res": res}
    finally:
        shutil.rmtree(wd, ignore_errors=True)


def main():
    try:
        for line in sys.stdin:
            line = line.strip()
            if not line:
                continue
            c = json.loads(line)
            try:
                m = c["mode"]
                if m == "resolve":
                    r = run_resolve(c)
                elif m == "detect":
                    r = run_detect(c)
                elif m == "detect2":
                    r = run_detect2(c)
                elif m == "loadmatrix":
                    r = run_loadmatrix(c)
                elif m == "roundtrip" and c.get("carrier"):
                    r = run_carrier(c)
                elif m == "roundtrip":
                    r = run_roundtrip(c)
                else:
                    r = {"harness_error": "unknown mode"}
            except BaseException as e:  # harness-level failure is reported, not hidden
                import traceback
                r = {"harness_error": repr(e), "tb": traceback.format_exc()[-600:]}
            sys.stdout.write(json.dumps(r) + "\n")
            sys.stdout.flush()
    finally:
        shutil.rmtree(TMP, ignore_errors=True)


main()
