"""Scripted driver for joblib.Parallel (implementation side of M1: C01, C04, C09, C16).

The driver OWNS the schedule.  It uses only the public backend API (a ParallelBackendBase
subclass) and an instrumented input iterator; joblib is not edited.

Scheduling points (where a thread stops until the driver releases it)
  * caller thread inside _start:  backend.compute_batch_size()  (batch_size='auto'), i.e. inside
    dispatch_one_batch after its unlocked abort check and before it takes Parallel._lock;
  * completion-callback thread:   backend.batch_completed()     i.e. between the two locked
    sections of BatchCompletionCallBack.__call__ (_retrieve_result | _dispatch_new);
  * consumer: next(gen) / gen.close() are issued only when the driver says so.

stdin : one JSON case per line  {"id":..,"seed":..,"mode":"gen"|"replay", "calls":[...], "events":[...]?}
stdout: one JSON result per line {"id":.., "events":[...], "obs":[...], "snaps":[...], "anomalies":[...]}

Event encoding (shared with the Coq model, see Model/ParallelCore.v):
  ["call", n_jobs, pre (int or "all"), "ordered"|"unordered", N, ifail|null, tfail list, timeout|null]
  ["dispatch", b] ["cb", tracker_id, "run"|"fail"] ["cbfin", tracker_id, b] ["pull"] ["close"] ["timeout"]
  ["call2"]  = calling the object again while it is running (must raise RuntimeError)
"""
import gc
import json
import os
import random
import sys
import threading
import time
import traceback

import os as _os_cov, sys as _sys_cov
if _os_cov.environ.get("VERIF_COV_OUT"):
    _sys_cov.path.insert(0, _os_cov.path.dirname(_os_cov.path.abspath(__file__)))
    import cov_hook  # noqa: F401  (diagnostic line coverage, off by default)
from joblib import Parallel, delayed
from joblib.parallel import ParallelBackendBase

WAIT_STEP = float(os.environ.get("M1_WAIT_STEP", "5.0"))     # a thread must reach its next point within this
WAIT_PULL = float(os.environ.get("M1_WAIT_PULL", "0.12"))    # how long a pull is given before it counts as blocked
WAIT_LONG = float(os.environ.get("M1_WAIT_LONG", "4.0"))     # replay mode: confirm "blocked"


class TaskFail(Exception):
    pass


class TaskFailBase(BaseException):
    """a task failure that is not an Exception (like asyncio.CancelledError or a test framework's outcome classes)"""


class IterFail(Exception):
    pass


class ExtFail(Exception):
    pass


EXEC_LOG = []          # (call_no, task index) appended by the tasks themselves
EXEC_LOCK = threading.Lock()


BASE_FAIL = [False]


def task(call_no, i, fails):
    with EXEC_LOCK:
        EXEC_LOG.append((call_no, i))
    if fails:
        raise (TaskFailBase if BASE_FAIL[0] else TaskFail)(i)
    return (call_no, i)


class BackendRefusal(Exception):
    """raised by the scripted backend's submit(): the backend refuses the batch (a broken executor)"""


class Gate:
    """A thread parks here until the driver releases it with a token."""

    def __init__(self):
        self.cv = threading.Condition()
        self.parked = {}     # thread ident -> kind
        self.tokens = {}     # thread ident -> token

    def park(self, kind):
        me = threading.get_ident()
        with self.cv:
            self.parked[me] = kind
            self.cv.notify_all()
            while me not in self.tokens:
                self.cv.wait()
            tok = self.tokens.pop(me)
            del self.parked[me]
            self.cv.notify_all()
            return tok

    def release(self, ident, token=None):
        with self.cv:
            self.tokens[ident] = token
            self.cv.notify_all()

    def wait_parked_or(self, ident, pred, timeout):
        """wait until thread `ident` is parked or pred() holds; returns 'parked'|'pred'|'timeout'"""
        end = time.time() + timeout
        with self.cv:
            while True:
                if ident in self.parked and ident not in self.tokens:
                    return "parked"
                if pred():
                    return "pred"
                left = end - time.time()
                if left <= 0:
                    return "timeout"
                self.cv.wait(min(left, 0.01))


GATE = Gate()


class InstrumentedInput:
    """Input iterable: counts pulls, detects concurrent __next__, can raise at a position."""

    def __init__(self, call_no, n, ifail, tfail):
        self.call_no, self.n, self.ifail, self.tfail = call_no, n, ifail, set(tfail)
        self.i = 0
        self.busy = False
        self.reentered = False
        self.threads = set()
        self.raised = 0
        self.dead = False

    def __iter__(self):
        return self

    def __next__(self):
        if self.busy:
            self.reentered = True
        self.busy = True
        try:
            self.threads.add(threading.get_ident())
            if self.dead:
                raise StopIteration
            if self.ifail is not None and self.i == self.ifail:
                self.raised += 1
                self.dead = True      # a generator that raised is finished
                raise IterFail(self.i)
            if self.i >= self.n:
                raise StopIteration
            k = self.i
            self.i += 1
            return delayed(task)(self.call_no, k, k in self.tfail)
        finally:
            self.busy = False


class SizedInstrumentedInput(InstrumentedInput):
    """the same lazy input, but it knows its length (a dataset object, a progress-bar wrapper): Parallel learns the
    number of tasks up front and must consume it no differently"""

    def __len__(self):
        return self.n


class VerifBackend(ParallelBackendBase):
    supports_retrieve_callback = True
    supports_return_generator = True
    supports_timeout = True
    uses_threads = True
    supports_sharedmem = True

    def __init__(self, n, **kw):
        super().__init__(**kw)
        self.n = n
        self.batches = []        # submission order: dict(func, callback, call_no, started)
        self.caller_ident = None
        self.tl = threading.local()
        self.aborts = 0
        self.submit_hook = None

    def effective_n_jobs(self, n_jobs):
        return self.n

    def configure(self, n_jobs=1, parallel=None, **kw):
        self.parallel = parallel
        return self.n

    def compute_batch_size(self):
        if threading.get_ident() == self.caller_ident and getattr(self, "in_start", False):
            return GATE.park("cbs")
        return getattr(self.tl, "b", 1)

    def batch_completed(self, batch_size, duration):
        if getattr(self.tl, "is_cb", False):
            self.tl.b = GATE.park("mid")

    def submit(self, func, callback=None):
        self.batches.append({"func": func, "cb": callback, "items": [a[1] for _, a, _ in func.items],
                             "call_no": func.items[0][1][0] if func.items else None, "started": False})
        if self.submit_hook:
            self.submit_hook(len(self.batches) - 1)
        if getattr(self, "refuse_next", False) and threading.get_ident() == self.caller_ident:
            # the batch was registered by Parallel and handed over: the backend refuses it
            self.refuse_next = False
            self.batches[-1]["started"] = True        # no completion will ever come for it
            self.batches[-1]["refused"] = True
            raise BackendRefusal(len(self.batches) - 1)
        return object()

    def retrieve_result_callback(self, out):
        # Fetching the outcome is part of the first locked section of the callback.  If the code under test runs it
        # WITHOUT Parallel._lock, it is a scheduling point of its own: the thread parks and the driver may run any other
        # event before the fetch returns (the ECbStart event of the model is then recorded when the fetch has returned).
        lock = getattr(self.parallel, "_lock", None)
        owned = getattr(lock, "_is_owned", None)
        if getattr(self.tl, "is_cb", False) and owned is not None and not owned():
            GATE.park("fetch")
        if isinstance(out, BaseException):
            raise out
        return out

    def terminate(self):
        self.terminates = getattr(self, "terminates", 0) + 1

    def start_call(self):
        self.start_calls = getattr(self, "start_calls", 0) + 1

    def stop_call(self):
        self.stop_calls = getattr(self, "stop_calls", 0) + 1

    def abort_everything(self, ensure_ready=True):
        self.aborts += 1
        self.last_ensure_ready = ensure_ready
        hook, self.abort_hook = getattr(self, "abort_hook", None), None
        if hook:
            hook()


class Driver:
    def __init__(self, case):
        self.case = case
        self.rng = random.Random(case.get("seed", 0))
        self.events, self.obs, self.snaps, self.anomalies = [], [], [], []
        self.backend = None
        self.par = None
        self.cmdq = []
        self.cmd_cv = threading.Condition()
        self.results = []          # observations produced by the consumer thread since last collection
        self.consumer_busy = False
        self.consumer = threading.Thread(target=self._consumer_loop, daemon=True)
        self.consumer.start()
        self.gen = None
        self.gen_done = True
        self.call_no = 0
        self.inputs = []
        self.trk_of_batch = []     # submission index -> model tracker id
        self.next_trk = 0
        self.cb_threads = {}       # tracker id -> thread
        self.mid = []              # tracker ids parked between the two locked sections
        self.fetching = {}         # tracker id -> how: callbacks parked in an unlocked retrieve_result_callback
        self.script = []           # events plus ["cbfetch", tid, how] markers (replay input when a fetch parked)
        self.cb_started = set()
        self.pending_pull = False
        self.replay = case.get("mode") == "replay"
        self.iter_raises_seen = 0

    # ---------------------------------------------------------------- consumer thread
    def _consumer_loop(self):
        while True:
            with self.cmd_cv:
                while not self.cmdq:
                    self.cmd_cv.wait()
                cmd = self.cmdq.pop(0)
                self.consumer_busy = True
            try:
                self._exec(cmd)
            except BaseException as e:  # noqa
                self.anomalies.append("consumer crashed: %r" % (e,))
                traceback.print_exc()
            finally:
                with self.cmd_cv:
                    self.consumer_busy = False
                    self.cmd_cv.notify_all()
                with GATE.cv:
                    GATE.cv.notify_all()

    def _post(self, o):
        self.results.append(o)
        with GATE.cv:
            GATE.cv.notify_all()

    def _exec(self, cmd):
        kind = cmd[0]
        if kind == "call":
            _, it = cmd
            self.backend.caller_ident = threading.get_ident()
            self.backend.in_start = True
            try:
                g = self.par(it)
            except BaseException as e:  # noqa
                self.backend.in_start = False
                self._post(self._exc_obs(e))
                self.gen = None
                self.gen_done = True
                return
            self.backend.in_start = False
            self.gen = g
            self.gen_done = False
            self._post(["started"])
        elif kind == "pull":
            try:
                v = next(self.gen)
                self._post(["val", v[1], v[0]] if isinstance(v, tuple) else ["val?", repr(v)])
            except StopIteration:
                self.gen_done = True
                self._post(["stop"])
            except BaseException as e:  # noqa
                self.gen_done = True
                self._post(self._exc_obs(e))
        elif kind == "close":
            try:
                import warnings
                with warnings.catch_warnings():
                    # with warnings turned into errors (python -W error) the "generator closed early" UserWarning is
                    # raised out of close(): the clean-up must have happened all the same
                    warnings.simplefilter("error" if self.case.get("warn_error") else "ignore")
                    self.gen.close()
                self._post(["stop"])
            except UserWarning:
                self._post(["stop"])
            except BaseException as e:  # noqa
                self._post(self._exc_obs(e))
            self.gen_done = True
        elif kind == "xclose":
            # the generator is closed by a thread other than the one that called Parallel: _get_outputs detaches the
            # abort / terminate work to a "GeneratorExitThread"; wait for it so that the snapshot is stable
            import warnings
            box = []

            def go():
                try:
                    with warnings.catch_warnings():
                        # the filter is process wide: keep it until the detached clean-up thread is done, so that
                        # what that thread sees does not depend on timing
                        warnings.simplefilter("error" if self.case.get("warn_error") else "ignore")
                        try:
                            self.gen.close()
                            box.append(["stop"])
                        except UserWarning:
                            box.append(["stop"])
                        for th in threading.enumerate():
                            if th.name == "GeneratorExitThread":
                                th.join(WAIT_STEP)
                except BaseException as e:  # noqa
                    box.append(self._exc_obs(e))
            t = threading.Thread(target=go, daemon=True)
            t.start()
            t.join(2 * WAIT_STEP)
            if not box:
                self.anomalies.append("close() from another thread did not return")
                box.append(["hang"])
            self._post(box[0])
            self.gen_done = True
        elif kind == "drop":
            import warnings
            with warnings.catch_warnings():
                warnings.simplefilter("ignore")
                self.gen = None
                gc.collect()
            self.gen_done = True
            self._post(["stop"])

    @staticmethod
    def _exc_obs(e):
        if isinstance(e, BackendRefusal):
            return ["raised", "backend", 0]
        if isinstance(e, (TaskFail, TaskFailBase)):
            return ["raised", "task", e.args[0]]
        if isinstance(e, IterFail):
            return ["raised", "iter", 0]
        if isinstance(e, ExtFail):
            return ["raised", "task", e.args[0]]
        if isinstance(e, TimeoutError) or type(e).__name__ == "TimeoutError":
            return ["raised", "timeout", 0]
        if isinstance(e, RuntimeError):
            return ["raised", "runtime", 0]
        if isinstance(e, AttributeError):
            return ["raised", "attr", 0]
        return ["raised", type(e).__name__, 0]

    def _send(self, cmd):
        with self.cmd_cv:
            self.cmdq.append(cmd)
            self.cmd_cv.notify_all()

    # ---------------------------------------------------------------- helpers
    def _consumer_idle(self):
        return (not self.consumer_busy) and not self.cmdq

    def _wait_consumer(self, timeout):
        """wait until the consumer thread is parked at 'cbs', or idle; returns 'parked'|'idle'|'timeout'"""
        r = GATE.wait_parked_or(self.consumer.ident, self._consumer_idle, timeout)
        return {"parked": "parked", "pred": "idle", "timeout": "timeout"}[r]

    def _sync_new_trackers(self):
        # trackers are created in order: one per submit, one per iterator failure
        if self.backend is None:
            return
        cur = self.inputs[-1] if self.inputs else None
        while len(self.trk_of_batch) < len(self.backend.batches):
            self.trk_of_batch.append(self.next_trk)
            self.next_trk += 1
        if cur is not None and cur.raised > self.iter_raises_seen:
            self.iter_raises_seen = cur.raised
            self.next_trk += 1

    def _snap(self):
        p = self.par
        cur = self.inputs[-1] if self.inputs else None
        self._sync_new_trackers()
        call_batches = [b["items"] for b in self.backend.batches if b["call_no"] == self.call_no] if self.backend else []
        trk_ids = [self.trk_of_batch[i] for i, b in enumerate(self.backend.batches)
                   if b["call_no"] == self.call_no] if self.backend else []
        return {
            "taken": cur.i if cur else 0,
            "n_disp": getattr(p, "n_dispatched_tasks", 0) if p else 0,
            "n_comp": getattr(p, "n_completed_tasks", 0) if p else 0,
            "njobs": len(getattr(p, "_jobs", ())) if p else 0,
            "iterating": bool(getattr(p, "_iterating", False)) if p else False,
            "aborting": bool(getattr(p, "_aborting", False)) if p else False,
            "nready": p._ready_batches.qsize() if p is not None and hasattr(p, "_ready_batches") else 0,
            "running": bool(getattr(p, "_running", False)) if p else False,
            "exception": bool(getattr(p, "_exception", False)) if p else False,
            "nb_consumed": getattr(p, "_nb_consumed", 0) if p else 0,
            "submitted": call_batches,
            "trk_ids": trk_ids,
            "reentered": bool(cur.reentered) if cur else False,
            "pending_pull": bool(self.pending_pull),
            "call_no": self.call_no,
            "aborts": self.backend.aborts if self.backend else 0,
            "ensure_ready": getattr(self.backend, "last_ensure_ready", None) if self.backend else None,
            "terminates": getattr(self.backend, "terminates", 0) if self.backend else 0,
            "start_calls": getattr(self.backend, "start_calls", 0) if self.backend else 0,
            "stop_calls": getattr(self.backend, "stop_calls", 0) if self.backend else 0,
            "managed": bool(self.case.get("managed")),
            "timeout_elapsed": getattr(self, "timeout_elapsed", None),
        }

    def _collect(self):
        out, self.results = self.results, []
        return out

    def _record(self, ev, extra_wait=0.0):
        """after an event: give a pending pull time to complete, then snapshot"""
        if self.pending_pull:
            wait = WAIT_PULL if not self.case.get("policy") else 0.04
            exp = self.case.get("expect")
            if exp is not None:
                k = len(self.events)
                wait = WAIT_LONG if (k < len(exp) and exp[k] > 0) else 0.05
            end = time.time() + wait
            while time.time() < end and not self._consumer_idle():
                time.sleep(0.003)
            if self._consumer_idle():
                self.pending_pull = False
        obs = [o for o in self._collect() if o != ["started"]]
        if any(o[:2] == ["raised", "timeout"] for o in obs) and ev[0] != "timeout":
            # a TimeoutError outside a timeout event: how long had the caller been waiting?
            self.timeout_elapsed = round(time.time() - getattr(self, "pull_t0", time.time()), 2)
        self.events.append(ev)
        self.script.append(ev)
        self.obs.append(obs)
        self.snaps.append(self._snap())

    # ---------------------------------------------------------------- events
    def ev_call(self, ev):
        _, n_jobs, pre, mode, N, ifail, tfail, timeout = ev
        if self.case.get("pre_expr") and isinstance(pre, int):
            # the same amount written as an expression in n_jobs ('2*n_jobs', 'n_jobs+1', ...): `n_jobs` there is the
            # number of workers the backend grants, which is what the model's n_jobs is
            if pre % n_jobs == 0:
                pre = "%d*n_jobs" % (pre // n_jobs)
            elif pre > n_jobs:
                pre = "n_jobs+%d" % (pre - n_jobs)
            else:
                pre = "n_jobs-%d" % (n_jobs - pre)
        if self.par is None or self.case.get("fresh_object_per_call"):
            self.backend = VerifBackend(n_jobs)
            # "over_request": the user asks for more workers than the backend grants (effective_n_jobs caps the request)
            self.par = Parallel(n_jobs=n_jobs * self.case.get("over_request", 1), backend=self.backend, batch_size="auto",
                                pre_dispatch=pre, timeout=timeout,
                                return_as="generator" if mode == "ordered" else "generator_unordered")
            self.trk_of_batch = []
            if self.case.get("managed"):
                self.par.__enter__()
        else:
            # same object, new settings: n_jobs is fixed by the backend, pre_dispatch/timeout are attributes
            self.par.pre_dispatch = pre
            self.par.timeout = timeout
        self.call_no += 1
        self.cur_timeout = timeout
        it = (SizedInstrumentedInput if self.case.get("sized_inputs") and ifail is None else InstrumentedInput)(
            self.call_no, N, ifail, tfail)
        self.inputs.append(it)
        self.iter_raises_seen = 0
        self._send(("call", it))
        r = self._wait_consumer(WAIT_STEP)
        if r == "timeout":
            self.anomalies.append("call did not reach a scheduling point")
        self._record(ev)

    def ev_call2(self, ev):
        """call the running object again from another thread: must raise RuntimeError at once"""
        res = []

        def go():
            try:
                self.par(iter([]))
                res.append(["returned"])
            except BaseException as e:  # noqa
                res.append(self._exc_obs(e))
        t = threading.Thread(target=go, daemon=True)
        t.start()
        t.join(WAIT_STEP)
        if t.is_alive() or not res:
            self.anomalies.append("second call on a running Parallel neither raised nor returned")
            res.append(["hang"])
        self.results.extend(res)
        self._record(ev)

    def ev_dispatch(self, ev):
        with GATE.cv:
            parked = GATE.parked.get(self.consumer.ident) == "cbs"
        if not parked:
            self.anomalies.append("replay: dispatch event but the caller is not at its scheduling point")
            self._record(ev)
            return
        if ev[0] == "refuse":
            self.backend.refuse_next = True
        GATE.release(self.consumer.ident, ev[1])
        time.sleep(0)  # let it run
        # wait until it left the gate and reached the next point
        end = time.time() + WAIT_STEP
        while time.time() < end:
            with GATE.cv:
                if self.consumer.ident not in GATE.tokens:
                    break
            time.sleep(0.001)
        r = self._wait_consumer(WAIT_STEP)
        if r == "timeout":
            self.anomalies.append("caller did not reach a scheduling point after dispatch")
        self.backend.refuse_next = False
        self._record(ev)

    def ev_fetched(self, tid):
        how = self.fetching.pop(tid)
        t, state = self.cb_threads[tid]
        GATE.release(t.ident, None)
        time.sleep(0.002)
        r = GATE.wait_parked_or(t.ident, lambda: state["done"], WAIT_STEP)
        if r == "parked":
            self.mid.append(tid)
        elif r == "timeout":
            self.anomalies.append("callback thread stuck after its unlocked fetch")
        self._record(["cb", tid, how, state.get("outcome")])

    def ev_cb(self, ev):
        _, tid, how = ev[:3]
        if tid in self.fetching:
            return self.ev_fetched(tid)
        if tid in self.cb_started:
            return            # replay of a schedule recorded with an unlocked fetch on a tree that fetches under the lock
        bi = self.trk_of_batch.index(tid)
        b = self.backend.batches[bi]
        b["started"] = True
        self.cb_started.add(tid)
        state = {"done": False}

        def run():
            self.backend.tl.is_cb = True
            self.backend.tl.b = 1
            if how == "run":
                try:
                    out = b["func"]()
                except BaseException as e:  # noqa
                    out = e
            else:
                out = ExtFail(1000 + tid)
            state["outcome"] = out.args[0] if isinstance(out, (TaskFail, TaskFailBase, ExtFail)) else (
                None if not isinstance(out, BaseException) else -1)
            state["ran"] = True
            try:
                b["cb"](out)
            except BaseException as e:  # noqa
                self.anomalies.append("callback raised %r" % (e,))
            state["done"] = True
            with GATE.cv:
                GATE.cv.notify_all()
        t = threading.Thread(target=run, daemon=True)
        t.start()
        self.cb_threads[tid] = (t, state)
        r = GATE.wait_parked_or(t.ident, lambda: state["done"], WAIT_STEP)
        if r == "parked":
            with GATE.cv:
                kind = GATE.parked.get(t.ident)
            if kind == "fetch":
                self.fetching[tid] = how
                self.script.append(["cbfetch", tid, how])
                return
            self.mid.append(tid)
        elif r == "timeout":
            self.anomalies.append("callback thread stuck before its second section (lock held elsewhere?)")
        self._record(["cb", tid, how, state.get("outcome")])

    def ev_cbfin(self, ev):
        _, tid, bsz = ev
        t, state = self.cb_threads[tid]
        self.mid.remove(tid)
        GATE.release(t.ident, bsz)
        r = GATE.wait_parked_or(-1, lambda: state["done"], WAIT_STEP)
        if r == "timeout":
            self.anomalies.append("callback thread stuck in its second section")
        self._record(ev)

    def ev_pull(self, ev):
        nap = self.case.get("sleep_before_first_pull")
        self.n_pulls = getattr(self, "n_pulls", 0) + 1
        naps = self.case.get("nap_before_pulls") or ([1] if nap else [])
        if self.n_pulls in naps and not self.replay:
            # let the dispatched batches (or an earlier, served wait) get old before the caller waits again: `timeout`
            # bounds ONE wait of the caller, not the age of a batch nor the sum of its waits
            time.sleep(nap or 2.4)
        self.pull_t0 = time.time()
        self._send(("pull",))
        self.pending_pull = True
        time.sleep(0.001)
        if getattr(self, "cur_timeout", None) == 0:
            # timeout=0: a request that finds its batch pending raises TimeoutError on the second poll (about 10 ms);
            # such a request is recorded as the pair request + timeout
            end = time.time() + (WAIT_LONG if self.replay and ev[0] == "pulltimeout" else 1.0)
            while time.time() < end and not self._consumer_idle():
                time.sleep(0.002)
            if self._consumer_idle() and any(o[:2] == ["raised", "timeout"] for o in self.results):
                ev = ["pulltimeout"]
            elif ev[0] == "pulltimeout":
                ev = ["pull"]
        self._record(ev)

    def ev_close(self, ev):
        # optionally a worker finishes a batch while _abort() is inside backend.abort_everything()
        self._sync_new_trackers()
        infl = [self.trk_of_batch[i] for i, b in enumerate(self.backend.batches) if not b["started"]]
        nested = None
        if infl and (len(ev) > 1 or (not self.replay and self.rng.random() < self.case.get("p_abort_race", 0.5))):
            tid = ev[1] if len(ev) > 1 else self.rng.choice(infl)
            if tid in infl:
                nested = {"tid": tid}
                bi = self.trk_of_batch.index(tid)
                b = self.backend.batches[bi]

                def hook():
                    b["started"] = True
                    st = {"done": False}

                    def run():
                        self.backend.tl.is_cb = True
                        self.backend.tl.b = 1
                        try:
                            out = b["func"]()
                        except BaseException as e:  # noqa
                            out = e
                        st["outcome"] = out.args[0] if isinstance(out, (TaskFail, TaskFailBase, ExtFail)) else (
                            None if not isinstance(out, BaseException) else -1)
                        try:
                            b["cb"](out)
                        except BaseException as e:  # noqa
                            self.anomalies.append("callback raised %r" % (e,))
                        st["done"] = True
                        with GATE.cv:
                            GATE.cv.notify_all()
                    t = threading.Thread(target=run, daemon=True)
                    t.start()
                    r = GATE.wait_parked_or(t.ident, lambda: st["done"], WAIT_STEP)
                    nested["parked"] = (r == "parked")
                    nested["outcome"] = st.get("outcome")
                    nested["thread"] = (t, st)
                self.backend.abort_hook = hook
        self._send((ev[0],))
        end = time.time() + WAIT_STEP
        while time.time() < end and not self._consumer_idle():
            time.sleep(0.002)
        if not self._consumer_idle():
            self.anomalies.append("close did not return")
        if nested and "thread" in nested:
            self._record([ev[0], nested["tid"]])
            self.cb_threads[nested["tid"]] = nested["thread"]
            if nested["parked"]:
                self.mid.append(nested["tid"])
            # the completion that raced with the abort, as a separate event of the trace
            self._record(["cb", nested["tid"], "run", nested.get("outcome")])
        else:
            self.backend.abort_hook = None
            self._record([ev[0]])

    def ev_timeout(self, ev):
        # the consumer is blocked in a pull; wait for the TimeoutError (timeout is 2 s)
        end = time.time() + 8.0
        while time.time() < end and not self._consumer_idle():
            time.sleep(0.01)
        if self._consumer_idle():
            self.pending_pull = False
        self.timeout_elapsed = round(time.time() - getattr(self, "pull_t0", time.time()), 2)
        self._record(ev)

    # ---------------------------------------------------------------- schedule generation
    def enabled(self, calls_left):
        """events that are observably enabled in the real system"""
        evs = []
        self._sync_new_trackers()
        with GATE.cv:
            at_cbs = GATE.parked.get(self.consumer.ident) == "cbs"
        if at_cbs:
            evs.append("dispatch")
        infl = [self.trk_of_batch[i] for i, b in enumerate(self.backend.batches) if not b["started"]] if self.backend else []
        stall = self.case.get("stall_after")
        # the call whose completions are withheld (default: the first one); with "stall_call": k > 1 the earlier calls
        # run under the random schedule and call k is the one in which nothing (more) completes
        sc = self.case.get("stall_call", 1)
        if self.call_no != getattr(self, "_stall_seen_call", None):
            self._stall_seen_call = self.call_no
            self._cb_before_call = len(self.cb_started)
        stalled = stall is not None and self.call_no == sc and len(self.cb_started) - (self._cb_before_call if sc > 1 else 0) >= stall
        in_start = at_cbs or (self.consumer_busy and not self.pending_pull)
        hold = self.case.get("cb_after_start") and self.call_no == sc and in_start
        if infl and not stalled and not hold and not (self.case.get("no_cb_first_call") and self.call_no == 1):
            evs.append("cb")
        if self.mid:
            evs.append("cbfin")
        if self.fetching:
            evs.append("fetched")
        if self._consumer_idle() and self.gen is not None and not self.gen_done:
            if self._pull_likely_ready() or self.rng.random() < self.case.get("p_blocked_pull", 0.12) or not evs:
                evs += ["pull", "pull"]
            evs += ["close"]
        if self._consumer_idle() and (self.gen is None or self.gen_done) and calls_left:
            evs.append("call")
        return evs, infl

    def _pull_likely_ready(self):
        # heuristic only (biases the schedule generator, never decides anything)
        p = self.par
        try:
            if not p._running:
                return True
            jobs = list(p._jobs)
            if p.return_ordered:
                return bool(jobs) and jobs[0].status != "Pending" and jobs[0].status is not None and \
                    str(jobs[0].status).lower().find("pending") < 0
            return bool(jobs)
        except Exception:
            return True

    def generate(self):
        calls = list(self.case["calls"])
        bsizes = self.case.get("bsizes", [1, 1, 2, 3])
        p_close = self.case.get("p_close", 0.04)
        p_fail = self.case.get("p_extfail", 0.03)
        p_call2 = self.case.get("p_call2", 0.03)
        max_events = self.case.get("max_events", 120)
        timeout_case = any(c[7] is not None for c in calls)
        while len(self.events) < max_events:
            evs, infl = self.enabled(bool(calls))
            if not evs or (evs == ["cb"] and False):
                if self.pending_pull and timeout_case and not self.replay:
                    self.ev_timeout(["timeout"])
                    if self.pending_pull:
                        break          # the TimeoutError did not come: recorded, judged by the oracle
                    continue
                break
            # bias: finish callbacks and dispatches promptly, pulls when something may be ready
            weights = {"dispatch": 4, "cb": 3, "cbfin": 3, "pull": 2, "close": p_close * 10, "call": 5, "fetched": 1}
            ws = [weights[e] for e in evs]
            k = self.rng.choices(evs, ws)[0] if sum(ws) > 0 else "pull"
            if self.case.get("policy") == "pull_first" and self.call_no == self.case.get("stall_call", 1):
                # scripted shape for the timeout scenarios: the consumer always asks first, completions come
                # while it waits, the dispatch section of a callback runs before the next request
                for pref in ("dispatch", "cbfin", "pull", "cb"):
                    if pref in evs and not (pref == "cb" and not self.pending_pull):
                        k = pref
                        break
            if k == "pull" and "pull" not in evs:
                break
            if k == "dispatch":
                if self.rng.random() < self.case.get("p_refuse", 0.0):
                    self.ev_dispatch(["refuse", self.rng.choice(bsizes)])
                else:
                    self.ev_dispatch(["dispatch", self.rng.choice(bsizes)])
            elif k == "cb":
                tid = self.rng.choice(infl) if self.rng.random() < 0.5 else infl[0]
                if timeout_case and self.case.get("avoid_control"):
                    # bias (reads internals, decides nothing): leave the job the unordered retrieval loop watches for its
                    # time-out pending and complete the others, so that the same job is watched again much later
                    try:
                        ctl = next(iter(self.par._jobs_set), None)
                        ctl_tid = None
                        for i, b in enumerate(self.backend.batches):
                            if b["cb"] is ctl:
                                ctl_tid = self.trk_of_batch[i]
                        others = [t for t in infl if t != ctl_tid]
                        if others:
                            tid = self.rng.choice(others)
                    except Exception:
                        pass
                elif timeout_case and self.rng.random() < 0.7:
                    # bias (reads internals, decides nothing): complete the job the unordered retrieval loop
                    # would pick as its timeout-control job
                    try:
                        ctl = next(iter(self.par._jobs_set), None)
                        for i, b in enumerate(self.backend.batches):
                            if b["cb"] is ctl and self.trk_of_batch[i] in infl:
                                tid = self.trk_of_batch[i]
                    except Exception:
                        pass
                self.ev_cb(["cb", tid, "fail" if self.rng.random() < p_fail else "run"])
            elif k == "cbfin":
                self.ev_cbfin(["cbfin", self.rng.choice(self.mid), self.rng.choice(bsizes)])
            elif k == "fetched":
                self.ev_fetched(self.rng.choice(sorted(self.fetching)))
            elif k == "pull":
                if self.par._running and self.rng.random() < p_call2:
                    self.ev_call2(["call2"])
                self.ev_pull(["pull"])
            elif k == "close":
                r = self.rng.random()
                self.ev_close(["close" if r < 0.55 else ("xclose" if r < 0.8 else "drop")])
            elif k == "call":
                self.ev_call(calls.pop(0))
        self.finish()

    def replay_events(self):
        for ev in self.case["events"]:
            k = ev[0]
            try:
                if k == "call":
                    self.ev_call(ev)
                elif k == "call2":
                    self.ev_call2(ev)
                elif k in ("dispatch", "refuse"):
                    self.ev_dispatch(ev)
                elif k in ("cb", "cbfetch"):
                    self.ev_cb(ev)
                elif k == "cbfin":
                    self.ev_cbfin(ev)
                elif k in ("pull", "pulltimeout"):
                    self.ev_pull(ev)
                elif k in ("close", "drop", "xclose"):
                    self.ev_close(ev)
                    continue
                elif k == "timeout":
                    self.ev_timeout(ev)
            except Exception as e:  # noqa
                self.anomalies.append("replay: event %r not executable: %r" % (ev, e))
                break
        self.finish()

    def finish(self):
        # release everything so that no thread is left behind (not part of the compared trace)
        try:
            with GATE.cv:
                parked = dict(GATE.parked)
            for ident in parked:
                GATE.release(ident, 1)
        except Exception:
            pass

    def result(self):
        execs = {}
        for cn, i in EXEC_LOG:
            execs.setdefault(cn, []).append(i)
        return {"id": self.case.get("id"), "events": self.events, "obs": self.obs, "snaps": self.snaps,
                "script": self.script if len(self.script) != len(self.events) else None,
                "anomalies": self.anomalies, "exec_log": execs,
                "iter_threads": [len(x.threads) for x in self.inputs],
                "reentered": any(x.reentered for x in self.inputs)}


def main():
    for line in sys.stdin:
        line = line.strip()
        if not line:
            continue
        case = json.loads(line)
        del EXEC_LOG[:]
        BASE_FAIL[0] = bool(case.get("base_fail"))
        d = Driver(case)
        try:
            if case.get("mode") == "replay":
                d.replay_events()
            else:
                d.generate()
            r = d.result()
        except BaseException as e:  # noqa
            r = {"id": case.get("id"), "harness_error": repr(e), "tb": traceback.format_exc()}
        sys.stdout.write(json.dumps(r) + "\n")
        sys.stdout.flush()
    os._exit(0)


if __name__ == "__main__":
    main()
