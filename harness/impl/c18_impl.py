"""Implementation side of C18.  stdin: one JSON case per line; stdout: one JSON result per line.

unit case : {"mode":"unit","items":[[path_id,size,atime],...],"bl":int|str|null,"il":int|null,"al":int|null,"now":int}
e2e case  : {"mode":"e2e","entries":[[arg,payload_len,atime],...],"orphans":[["empty"|"meta",atime],...],"bl":...,"il":...,"al":...,"now":int}
"""
import datetime as real_datetime
import json
import os
import shutil
import sys
import tempfile
import types

import joblib
from joblib import _store_backends as sb

# results go to the original stdout; whatever joblib prints (Memory(verbose=...)) goes to stderr
OUT = os.fdopen(os.dup(1), "w")
os.dup2(2, 1)
sys.stdout = sys.stderr

BASE0 = real_datetime.datetime(2020, 1, 1)
BASE = BASE0


def set_base(c):
    """time 0 of the case: 2020-01-01, or the EPOCH (a cache restored from an archive with zeroed timestamps: an access
    time of exactly 0.0 is an access time like any other, and the oldest possible one)"""
    global BASE
    BASE = real_datetime.datetime.fromtimestamp(0) if c.get("base") == "epoch" else BASE0
NOW = [0]


class _FakeDateTime(real_datetime.datetime):
    @classmethod
    def now(cls, tz=None):
        local = BASE + real_datetime.timedelta(seconds=NOW[0])
        # faithful to datetime.now(tz): the same instant expressed in tz (the process may run under any TZ)
        return local if tz is None else real_datetime.datetime.fromtimestamp(local.timestamp(), tz)


fake_mod = types.ModuleType("datetime")
fake_mod.__dict__.update(real_datetime.__dict__)
fake_mod.datetime = _FakeDateTime
sb.datetime = fake_mod


def canon_exc(e):
    return {"raise": type(e).__name__}


class Stub(sb.StoreBackendMixin):
    verbose = 0

    def __init__(self, items):
        self._items = items

    def get_items(self):
        return list(self._items)


def run_unit(c):
    set_base(c)
    NOW[0] = c["now"]
    items = [sb.CacheItemInfo(p, s, BASE + real_datetime.timedelta(seconds=t)) for p, s, t in c["items"]]
    al = None if c["al"] is None else real_datetime.timedelta(seconds=c["al"])
    try:
        out = Stub(items)._get_items_to_delete(c["bl"], c["il"], al)
    except Exception as e:  # noqa
        return canon_exc(e)
    return {"ok": [it.path for it in out]}


def payload(n):
    return b"x" * n


def run_e2e(c):
    set_base(c)
    NOW[0] = c["now"]
    d = tempfile.mkdtemp(prefix="verif-c18-")
    cwd0 = os.getcwd()
    try:
        # where the cache lives: a plain absolute directory, one below a component that looks like an entry id (an md5 /
        # uuid keyed parent directory), or a RELATIVE path (plain, or with a sub-directory)
        how = c.get("loc", "abs")
        if how == "hex":
            loc = os.path.join(d, "0123456789abcdef0123456789abcdef", "cache")
        elif how in ("rel", "relsub"):
            os.chdir(d)
            loc = "cachedir" if how == "rel" else os.path.join(".", "sub", "cachedir")
        else:
            loc = d
        mem = joblib.Memory(loc, verbose=c.get("verbose", 0))
        calls = []

        def f(arg, n):
            calls.append(arg)
            return (arg, payload(n))
        f.__module__ = "verif_c18"
        f.__qualname__ = f.__name__ = "f"
        cf = mem.cache(f)
        for arg, n, t in c["entries"]:
            cf(arg, n)
        # set access times of output.pkl (get_items reads getatime(output.pkl))
        infos = {}
        # a second cached function whose store directory lies BELOW the first one's (a cached helper defined inside a
        # cached function: <f>/<locals>/<g>/<hash>): its entries are entries of the store like any other
        for gid, n, t in c.get("nested", []):
            def g(arg, n_):
                return (arg, payload(n_))
            g.__module__ = "verif_c18"
            g.__name__ = "g"
            g.__qualname__ = "f.<locals>.g"
            cg = mem.cache(g)
            cg(gid, n)
            path = os.path.join(cg.store_backend.location, cg.func_id, cg._get_args_id(gid, n))
            ts = (BASE + real_datetime.timedelta(seconds=t)).timestamp()
            os.utime(os.path.join(path, "output.pkl"), (ts, ts))
            infos[path] = gid
        for arg, n, t in c["entries"]:
            path = os.path.join(cf.store_backend.location, cf.func_id, cf._get_args_id(arg, n))
            ts = (BASE + real_datetime.timedelta(seconds=t)).timestamp()
            os.utime(os.path.join(path, "output.pkl"), (ts, ts))
            infos[path] = arg
        # files a writer left behind inside an entry (it died between writing its temporary file and the rename of
        # concurrency_safe_write), or any other file stored next to the result: they occupy space, so they count
        for idx, nbytes, name in c.get("stale", []):
            arg, n, t = c["entries"][idx]
            path = os.path.join(cf.store_backend.location, cf.func_id, cf._get_args_id(arg, n))
            with open(os.path.join(path, name), "wb") as fh:
                fh.write(b"s" * nbytes)
            ts = (BASE + real_datetime.timedelta(seconds=t)).timestamp()
            os.utime(os.path.join(path, "output.pkl"), (ts, ts))
        # entry directories WITHOUT output.pkl (a result that could not be pickled leaves metadata.json only; a crash
        # after create_location leaves an empty directory): they are entries of the store too
        func_dir = os.path.join(cf.store_backend.location, cf.func_id)
        for i, (kind, t) in enumerate(c.get("orphans", [])):
            path = os.path.join(func_dir, "%032x" % (0xabcdef000000 + i))
            os.makedirs(path)
            if kind == "meta":
                with open(os.path.join(path, "metadata.json"), "w") as fh:
                    fh.write('{"duration": 0.0, "input_args": {"arg": "%d"}}' % i)
            ts = (BASE + real_datetime.timedelta(seconds=t)).timestamp()
            os.utime(path, (ts, ts))
            infos[path] = -(i + 1)
        if c.get("symlink"):
            # a second name for the function directory inside the store (kept after a rename): a symbolic link, which
            # an inventory must not follow
            os.symlink(func_dir, func_dir + "_alias")
        # independent inventory of the store (standard library only), taken before get_items: every directory whose
        # name is 32 hex digits is an entry; its size is the size of its files; its access time is the one of
        # output.pkl, of the directory itself when there is no output.pkl (read after listing the directory)
        import re
        fs_items = []
        for dirpath, _, filenames in os.walk(mem.store_backend.location):
            if re.match("[a-f0-9]{32}", os.path.basename(dirpath)):
                out = os.path.join(dirpath, "output.pkl")
                at = os.path.getatime(out) if os.path.exists(out) else os.path.getatime(dirpath)
                at = real_datetime.datetime.fromtimestamp(at)
                fs_items.append([infos.get(dirpath, 0), sum(os.path.getsize(os.path.join(dirpath, fn)) for fn in filenames),
                                 int(round((at - BASE).total_seconds()))])
        items = mem.store_backend.get_items()
        seen = [[infos.get(it.path, 0), it.size, int(round((it.last_access - BASE).total_seconds()))] for it in items]
        al = None if c["al"] is None else real_datetime.timedelta(seconds=c["al"])
        if c.get("vanish") is not None:
            # fault: the folder of the k-th item to delete is removed, then the deletion reports a stale handle (what a
            # network file system does when another process was faster); the eviction must go on with the other items
            import errno
            backend = mem.store_backend
            real_clear = backend.clear_location
            count = [0]

            def faulty_clear(location):
                k = count[0]
                count[0] += 1
                real_clear(location)
                if k == c["vanish"]:
                    raise OSError(errno.ESTALE, "Stale file handle", location)
            backend.clear_location = faulty_clear
        # the order in which entries are removed (an interrupted reduce_size must have removed the OLDEST ones)
        order = []
        backend0 = mem.store_backend
        inner_clear = backend0.clear_location

        def logging_clear(location):
            order.append(infos.get(location, infos.get(os.path.normpath(location), 0)))
            return inner_clear(location)
        backend0.clear_location = logging_clear
        try:
            mem.reduce_size(c["bl"], c["il"], al)
        except Exception as e:  # noqa
            return dict(canon_exc(e), items=seen, fs_items=fs_items)
        try:
            del mem.store_backend.clear_location      # back to the class's method
        except AttributeError:
            pass
        survivors = [arg for arg, n, t in c["entries"] if cf.check_call_in_cache(arg, n)]
        dirs_left = sorted(infos[p] for p in infos if os.path.isdir(p))
        # every entry must still give the right value; evicted ones are recomputed
        del calls[:]
        values_ok = all(cf(arg, n) == (arg, payload(n)) for arg, n, t in c["entries"])
        recomputed = sorted(calls)
        return {"ok": True, "items": seen, "fs_items": fs_items, "survivors": sorted(survivors), "dirs_left": dirs_left,
                "deleted_order": order,
                "values_ok": values_ok, "recomputed": recomputed}
    finally:
        os.chdir(cwd0)
        shutil.rmtree(d, ignore_errors=True)


for line in sys.stdin:
    line = line.strip()
    if not line:
        continue
    c = json.loads(line)
    try:
        r = run_unit(c) if c["mode"] == "unit" else run_e2e(c)
    except BaseException as e:  # harness-level failure is reported, not hidden
        r = {"harness_error": repr(e)}
    OUT.write(json.dumps(r) + "\n")
    OUT.flush()
