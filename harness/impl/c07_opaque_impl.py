"""Implementation side of C07 for callables that are neither Python functions nor bound Python methods:
builtin functions (with and without an introspectable signature), bound builtin methods, classes used as
callables, functools.partial objects (of Python functions and of builtins), callable instances.

stdin : {"callable": <name in REGISTRY>, "args": [...], "kwargs": {...}}     (JSON values are the arguments)
stdout: {"accepted": bool            -- really calling it does not raise TypeError
         "ismethod": bool, "isfunction": bool   -- what the source test of filter_args looks at
         "fa": {"ok": <result dict>} | {"raise": name}}
"""
import contextlib
import functools
import inspect
import io
import json
import sys
import warnings

from joblib.func_inspect import filter_args


def pyf(a, b, c=0):
    return (a, b, c)


class CallableInstance(object):
    def __call__(self, x, y=0):
        return (x, y)


class KlassWithMethod(object):
    def m(self, x):
        return x


REGISTRY = {
    "len": len, "abs": abs, "sorted": sorted, "max": max, "pow": pow, "divmod": divmod, "print": print,
    "list.count": [1, 2, 1].count, "str.join": "-".join, "dict.get": {"k": 2}.get,
    "int": int, "dict": dict, "KlassWithMethod": KlassWithMethod,
    "partial(pyf,1)": functools.partial(pyf, 1), "partial(len)": functools.partial(len),
    "partial(pow,2)": functools.partial(pow, 2), "partial(bound)": functools.partial(KlassWithMethod().m),
    "instance.__call__": CallableInstance(),
    # controls: these two do NOT take the fallback
    "pyf": pyf, "bound": KlassWithMethod().m,
}

for line in sys.stdin:
    line = line.strip()
    if not line:
        continue
    c = json.loads(line)
    try:
        f = REGISTRY[c["callable"]]
        args, kwargs = tuple(c["args"]), dict(c["kwargs"])
        r = {"ismethod": inspect.ismethod(f), "isfunction": inspect.isfunction(f)}
        try:
            with contextlib.redirect_stdout(io.StringIO()):
                f(*args, **kwargs)
            r["accepted"] = True
        except TypeError:
            r["accepted"] = False
        except Exception:  # noqa  -- e.g. ValueError of int('x'): the call was bound, that is all we need
            r["accepted"] = True
        try:
            with warnings.catch_warnings():
                warnings.simplefilter("ignore")
                d = filter_args(f, [], args, kwargs)
            r["fa"] = {"ok": json.loads(json.dumps(d, default=repr))}
        except Exception as e:  # noqa
            r["fa"] = {"raise": type(e).__name__}
    except BaseException as e:
        r = {"harness_error": repr(e)}
    sys.stdout.write(json.dumps(r) + "\n")
sys.stdout.flush()
