"""Regenerated source fact for C20: which arguments every REAL call site of
TemporaryResourcesManager._clean_temporary_resources passes.  Read from the working tree of the repo under
test with `ast` (argv[1] = repo root); positional arguments are mapped to parameter names through the live
signature, so only the BINDING is compared, not the spelling.

stdout: one JSON object {"signature": [[param, default], ...], "sites": {"file:Class.func": {param: value}}}
(value = the constant, or "<expr>" for anything that is not a constant)
"""
import ast
import json
import os
import sys

repo = sys.argv[1]
FILES = ["joblib/_memmapping_reducer.py", "joblib/_parallel_backends.py", "joblib/executor.py", "joblib/pool.py"]


def const(node):
    return node.value if isinstance(node, ast.Constant) else "<expr>"


out = {"signature": None, "sites": {}}
trees = {}
for f in FILES:
    with open(os.path.join(repo, f)) as fh:
        trees[f] = ast.parse(fh.read())
params = None
for node in ast.walk(trees["joblib/_memmapping_reducer.py"]):
    if isinstance(node, ast.FunctionDef) and node.name == "_clean_temporary_resources":
        names = [a.arg for a in node.args.args][1:]
        defaults = [None] * (len(names) - len(node.args.defaults)) + [const(d) for d in node.args.defaults]
        params = names
        out["signature"] = [[n, d] for n, d in zip(names, defaults)]
for f, tree in trees.items():
    stack = []

    def visit(node):
        pushed = isinstance(node, (ast.ClassDef, ast.FunctionDef))
        if pushed:
            stack.append(node.name)
        if isinstance(node, ast.Call) and isinstance(node.func, ast.Attribute) and node.func.attr == "_clean_temporary_resources":
            bound = {}
            for i, a in enumerate(node.args):
                bound[params[i] if params and i < len(params) else "arg%d" % i] = const(a)
            for k in node.keywords:
                bound[k.arg or "**"] = const(k.value)
            key = "%s:%s" % (os.path.basename(f), ".".join(stack))
            n = 2
            while key in out["sites"]:
                key = "%s#%d" % (key.split("#")[0], n)
                n += 1
            out["sites"][key] = bound
        for c in ast.iter_child_nodes(node):
            visit(c)
        if pushed:
            stack.pop()

    visit(tree)
print(json.dumps(out, sort_keys=True))
