"""Line coverage of selected joblib modules inside a harness child (diagnostic only; enabled by VERIF_COV_OUT).
Appends one JSON object {file: [lines]} per process to the file named by VERIF_COV_OUT at exit."""
import atexit
import json
import os
import sys
import threading

OUT = os.environ.get("VERIF_COV_OUT")
WANT = tuple(os.environ.get("VERIF_COV_FILES", "joblib/parallel.py,joblib/_parallel_backends.py,joblib/_utils.py").split(","))
SEEN = {}
LOCK = threading.Lock()


def _dump():
    try:
        with open(OUT, "a") as f:
            f.write(json.dumps({k: sorted(v) for k, v in SEEN.items()}) + "\n")
    except Exception:
        pass


if OUT:
    mon = sys.monitoring
    TOOL = 5
    try:
        mon.use_tool_id(TOOL, "verif-cov")

        def on_line(code, line):
            fn = code.co_filename
            if fn.endswith(WANT):
                SEEN.setdefault(fn, set()).add(line)
                return None
            return mon.DISABLE

        mon.register_callback(TOOL, mon.events.LINE, on_line)
        mon.set_events(TOOL, mon.events.LINE)
        atexit.register(_dump)
        _orig_exit = os._exit

        def _exit(code=0):
            _dump()
            _orig_exit(code)
        os._exit = _exit
    except Exception:
        pass
