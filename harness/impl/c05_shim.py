"""File-system shim for C05/C11 (no change to /repo).

Loaded in the child interpreter BEFORE joblib is imported: joblib binds ``open``,
``os.path.exists`` and ``os.replace`` at class-definition time, so the wrappers must be in
place first.  Only paths under the cache directory ``LOC`` are intercepted.

Operation vocabulary (the same as coq/Model/FsModel.v):

  stat p            os.stat / os.lstat (exists, isdir, islink, getatime, getsize)
  mkdir p           os.mkdir (os.makedirs is NOT wrapped: it calls the wrapped exists + mkdir)
  creat p           open(p, 'w'/'wb')  (O_TRUNC)
  write p n         the bytes written through that handle, flushed as ONE write when the
                    handle is closed (CPython's BufferedWriter does the same for < 8 KiB)
  read p            open(p, 'r'/'rb') + the reads that follow (atomic: nobody else is
                    released between the open and the next shimmed operation)
  rename s d        os.replace / os.rename
  unlink p          os.unlink / os.remove
  rmdir p           os.rmdir
  listdir p         os.listdir / os.scandir   (entries are returned in CREATION order, kept in
                    a side journal outside the cache directory, so that the directory order is
                    the same deterministic function of the history as in the model)

shutil.rmtree is switched to its path-based implementation (``_use_fd_functions = False``,
stdlib's own alternative branch) so that every unlink/rmdir it issues carries a full path.

Modes (chosen by ``install``):
  trace       record every operation and its result;
  crash       before the k-th MUTATING operation call os._exit(137); if that operation is a
              write and ``torn`` is given, write only the first ``torn`` bytes first;
  interleave  before every operation send its description to the scheduler over a pipe and
              block until the scheduler answers (one participant released per turn).
"""
import builtins
import errno
import io
import json
import os
import shutil
import sys
import threading

MUTATING = ("mkdir", "creat", "write", "rename", "unlink", "rmdir")

_real_open = builtins.open
_real = {}
STATE = {
    "loc": None, "mode": "off", "log": [], "nmut": 0, "crash_at": None, "torn": None,
    "canon": None, "journal": None, "rfd": None, "wfd": None, "busy": False,
}


TL = threading.local()   # per-thread: scheduler channel, log, bypass flag (threads of one process are participants)


def _busy():
    return getattr(TL, "busy", False)


def current_log():
    return getattr(TL, "log", None) if getattr(TL, "log", None) is not None else STATE["log"]


def bind_thread(rfd, wfd):
    """interleave mode, several participants in one process: this thread talks to the scheduler over its own pipes"""
    TL.rfd, TL.wfd, TL.log, TL.busy = rfd, wfd, [], False


def _under(path):
    loc = STATE["loc"]
    if loc is None or _busy():
        return False
    if isinstance(path, bytes):
        try:
            path = path.decode()
        except Exception:
            return False
    if not isinstance(path, str):
        try:
            path = os.fspath(path)
        except TypeError:
            return False
        if not isinstance(path, str):
            return False
    ap = os.path.abspath(path)
    return ap == loc or ap.startswith(loc + os.sep)


def rel(path):
    ap = os.path.abspath(os.fspath(path))
    r = os.path.relpath(ap, STATE["loc"])
    c = STATE["canon"]
    return c(r) if c else r


def _errname(e):
    return errno.errorcode.get(e.errno, "E%s" % e.errno) if isinstance(e, OSError) else type(e).__name__


# ------------------------------------------------------------------ journal (creation order)
def _journal_add(path):
    j = STATE["journal"]
    if j is None:
        return
    fd = os.open(j, os.O_WRONLY | os.O_APPEND | os.O_CREAT, 0o644)
    try:
        os.write(fd, (os.path.relpath(os.path.abspath(path), STATE["loc"]) + "\n").encode())
    finally:
        os.close(fd)


def _journal_rank():
    j = STATE["journal"]
    rank = {}
    if j is None or not _real["lexists"](j):
        return rank
    with _real_open(j) as f:
        for i, line in enumerate(f):
            rank[line.rstrip("\n")] = i
    return rank


def _ordered(dirpath, names):
    rank = _journal_rank()
    base = os.path.relpath(os.path.abspath(dirpath), STATE["loc"])
    return sorted(names, key=lambda n: (rank.get(os.path.normpath(os.path.join(base, n)), 1 << 60), n))


# ------------------------------------------------------------------ the hook
def _before(op, path, extra=None):
    """Called before every intercepted operation.  Returns an index into the log."""
    st = STATE
    ent = {"op": op, "p": rel(path)}
    if extra:
        ent.update(extra)
    if st["mode"] == "interleave":
        TL.busy = True
        try:
            os.write(getattr(TL, "wfd", st["wfd"]), (json.dumps({"ev": "op", "op": op, "p": ent["p"]}) + "\n").encode())
            b = os.read(getattr(TL, "rfd", st["rfd"]), 1)
            if b != b"g":
                os._exit(3)
        finally:
            TL.busy = False
    if op in MUTATING:
        k = st["nmut"]
        st["nmut"] = k + 1
        if st["mode"] == "crash" and st["crash_at"] == k:
            if op == "write" and st["torn"] is not None:
                ent["torn"] = True
                return -2  # caller performs the torn write and dies
            os._exit(137)
    log = current_log()
    log.append(ent)
    return len(log) - 1


def _after(i, res):
    if i >= 0:
        current_log()[i]["r"] = res


def _wrap_simple(op, fn, creates=False):
    def w(path, *a, **k):
        if k.get("dir_fd") is not None or isinstance(path, int) or not _under(path):
            return fn(path, *a, **k)
        i = _before(op, path)
        try:
            r = fn(path, *a, **k)
        except OSError as e:
            _after(i, _errname(e))
            raise
        _after(i, "ok")
        if creates:
            _journal_add(path)
        return r
    w.__name__ = getattr(fn, "__name__", op)
    w.__wrapped__ = fn
    return w


def _wrap_rename(fn):
    def w(src, dst, *a, **k):
        if k.get("src_dir_fd") is not None or k.get("dst_dir_fd") is not None or not (_under(src) and _under(dst)):
            return fn(src, dst, *a, **k)
        i = _before("rename", src, {"d": rel(dst)})
        existed = _real["lexists"](dst)
        try:
            r = fn(src, dst, *a, **k)
        except OSError as e:
            _after(i, _errname(e))
            raise
        _after(i, "ok")
        if not existed:
            _journal_add(dst)
        return r
    w.__wrapped__ = fn
    return w


def _wrap_listdir(fn):
    def w(path=".", *a, **k):
        if isinstance(path, int) or not _under(path):
            return fn(path, *a, **k)
        i = _before("listdir", path)
        try:
            names = fn(path, *a, **k)
        except OSError as e:
            _after(i, _errname(e))
            raise
        names = _ordered(path, names)
        _after(i, [rel(os.path.join(path, n)) for n in names])
        return names
    w.__wrapped__ = fn
    return w


class _ScandirList(object):
    def __init__(self, entries):
        self._it = iter(entries)

    def __iter__(self):
        return self

    def __next__(self):
        return next(self._it)

    def __enter__(self):
        return self

    def __exit__(self, *a):
        return False

    def close(self):
        pass


def _wrap_scandir(fn):
    def w(path=".", *a, **k):
        if isinstance(path, int) or not _under(path):
            return fn(path, *a, **k)
        i = _before("listdir", path)
        try:
            with fn(path, *a, **k) as it:
                entries = list(it)
        except OSError as e:
            _after(i, _errname(e))
            raise
        by = {e.name: e for e in entries}
        names = _ordered(path, list(by))
        _after(i, [rel(os.path.join(path, n)) for n in names])
        return _ScandirList([by[n] for n in names])
    w.__wrapped__ = fn
    return w


class _Writer(object):
    """File object returned for open(p, 'w'/'wb'): collects the data and performs ONE write
    operation when closed."""

    def __init__(self, path, raw, text):
        self._path = path
        self._raw = raw
        self._text = text
        self._buf = io.BytesIO()
        self.closed = False
        self.name = path
        self.mode = "w" if text else "wb"

    def write(self, data):
        if self.closed:
            raise ValueError("I/O operation on closed file.")
        if self._text:
            b = data.encode("utf-8")
            self._buf.write(b)
            return len(data)
        b = bytes(data) if not isinstance(data, bytes) else data
        self._buf.write(b)
        return len(b)

    def writable(self):
        return True

    def readable(self):
        return False

    def seekable(self):
        return False

    def tell(self):
        return self._buf.tell()

    def flush(self):
        pass

    def fileno(self):
        return self._raw.fileno()

    def close(self):
        if self.closed:
            return
        self.closed = True
        data = self._buf.getvalue()
        i = _before("write", self._path, {"n": len(data)})
        if i == -2:
            j = STATE["torn"]
            if j < 0:                      # counted from the end
                j = max(0, len(data) + j)
            j = min(j, max(0, len(data) - 1))  # always a strict prefix
            self._raw.write(data[:j])
            self._raw.close()
            os._exit(137)
        try:
            self._raw.write(data)
        finally:
            self._raw.close()
        _after(i, "ok")

    def __enter__(self):
        return self

    def __exit__(self, *a):
        self.close()
        return False

    def __del__(self):
        try:
            if not self.closed:
                self._raw.close()
        except Exception:
            pass


def _wrap_open(fn):
    def w(file, mode="r", *a, **k):
        if isinstance(file, int) or not _under(file):
            return fn(file, mode, *a, **k)
        if "w" in mode and "+" not in mode:
            i = _before("creat", file)
            existed = _real["lexists"](file)
            try:
                raw = fn(file, "wb", buffering=0)
            except OSError as e:
                _after(i, _errname(e))
                raise
            _after(i, "ok")
            if not existed:
                _journal_add(file)
            return _Writer(os.fspath(file), raw, "b" not in mode)
        if mode.replace("b", "").replace("t", "") == "r":
            i = _before("read", file)
            try:
                f = fn(file, mode, *a, **k)
            except OSError as e:
                _after(i, _errname(e))
                raise
            _after(i, "ok")
            return f
        raise RuntimeError("c05_shim: unexpected open mode %r on %s" % (mode, file))
    w.__wrapped__ = fn
    return w


def install(loc, mode="trace", crash_at=None, torn=None, canon=None, journal=None, rfd=None, wfd=None):
    """Install the wrappers.  Must be called before ``import joblib``."""
    if "joblib" in sys.modules:
        raise RuntimeError("c05_shim must be installed before joblib is imported")
    st = STATE
    st.update(loc=os.path.abspath(loc), mode=mode, crash_at=crash_at, torn=torn, canon=canon,
              journal=journal, rfd=rfd, wfd=wfd)
    _real["lexists"] = _lexists_raw
    shutil._use_fd_functions = False
    shutil.rmtree.avoids_symlink_attacks = False
    os.stat = _wrap_simple("stat", os.stat)
    os.lstat = _wrap_simple("stat", os.lstat)
    os.mkdir = _wrap_simple("mkdir", os.mkdir, creates=True)
    os.unlink = _wrap_simple("unlink", os.unlink)
    os.remove = _wrap_simple("unlink", os.remove)
    os.rmdir = _wrap_simple("rmdir", os.rmdir)
    os.utime = _wrap_simple("utime", os.utime)
    os.replace = _wrap_rename(os.replace)
    os.rename = _wrap_rename(os.rename)
    os.listdir = _wrap_listdir(os.listdir)
    os.scandir = _wrap_scandir(os.scandir)
    builtins.open = _wrap_open(builtins.open)
    io.open = builtins.open


_posix_lstat = os.lstat


def _lexists_raw(path):
    try:
        _posix_lstat(path)
    except (OSError, ValueError):
        return False
    return True


def finished():
    """interleave mode: tell the scheduler this participant is done."""
    st = STATE
    if st["mode"] == "interleave":
        TL.busy = True
        os.write(getattr(TL, "wfd", st["wfd"]), (json.dumps({"ev": "done"}) + "\n").encode())


def pause():
    """Disable interception in this thread (harness-side inspection of the directory)."""
    TL.busy = True


def resume():
    TL.busy = False
