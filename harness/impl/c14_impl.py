"""Implementation side of C14.  stdin: one JSON case per line; stdout: one JSON result per line.

load case     : {"kind":"load","obj":{...},"compress":0|[name,level],"trunc":"all"|[n,...]|{"auto":k},
                 "trailers":[{"kind":"bytes","n":k}|{"kind":"stream"}],"via":"bytesio"|"path"}
readbytes case: {"kind":"readbytes","n":int,"size":int,"caps":[int,...],"eof_after":int|null}
memory case   : {"kind":"memory","obj":{...},"compress":false|true|int|[name,level],"damage":[["trunc",n]|["trunc_all"]|["trunc_auto",k]|["frac",a,b]
                 |["extend",k]|["double"]]}

Every load / call runs under a watchdog: SIGALRM (pure-Python loops) plus, for zlib/gzip, the
deterministic spin detector of the recording zlib proxy (c13_impl).  The parent adds a per-case
deadline on top and kills the process if that is missed.
"""
import io
import json
import os
import random
import shutil
import signal
import sys
import tempfile
import warnings

sys.path.insert(0, os.path.dirname(os.path.abspath(__file__)))
import c13_impl  # noqa: E402  (installs the recording zlib proxy into joblib.compressor)
from c13_impl import Alarm, Spin  # noqa: E402

import joblib  # noqa: E402
from joblib import numpy_pickle_utils as npu  # noqa: E402

try:
    import numpy as np
except Exception:  # noqa
    np = None

warnings.simplefilter("ignore")
sys.modules.setdefault("c14_impl", sys.modules[__name__])  # Thing must be importable when run as a script
ALARM_S = int(os.environ.get("VERIF_C14_ALARM", "8"))


class Thing:
    def __init__(self, a, b):
        self.a = a
        self.b = b

    def __eq__(self, o):
        return type(o) is Thing and deep_eq(self.a, o.a) and deep_eq(self.b, o.b)


Thing.__module__ = "c14_impl"


def deep_eq(a, b):
    if np is not None and (isinstance(a, np.ndarray) or isinstance(b, np.ndarray)):
        return (isinstance(a, np.ndarray) and isinstance(b, np.ndarray) and a.dtype == b.dtype
                and a.shape == b.shape and a.tobytes() == b.tobytes())
    if type(a) is not type(b):
        return False
    if isinstance(a, (list, tuple)):
        return len(a) == len(b) and all(deep_eq(x, y) for x, y in zip(a, b))
    if isinstance(a, dict):
        return list(a.keys()) == list(b.keys()) and all(deep_eq(a[k], b[k]) for k in a)
    return a == b


def make_obj(spec, salt=0):
    rng = random.Random(spec.get("seed", 0) * 1000003 + salt)
    k = spec["kind"]
    n = spec.get("n", 10)
    if k == "small":
        return {"a": [1, 2, 3], "b": "x" * n, "c": (None, True, 2.5), "salt": salt}
    if k == "bytes":
        return bytes(rng.getrandbits(8) for _ in range(n))
    if k == "repbytes":
        return (b"abcdefg" * (n // 7 + 1))[:n]
    if k == "strs":
        return ["s%d-%d" % (i, rng.randrange(10 ** 6)) for i in range(n)]
    if k == "ints":
        return [rng.randrange(-2 ** 40, 2 ** 40) for _ in range(n)]
    if k == "nested":
        def rec(d):
            t = rng.random()
            if d == 0 or t < 0.3:
                return rng.choice([None, True, 3, -1.5, "st" * rng.randrange(5), b"by" * rng.randrange(5),
                                   rng.randrange(10 ** 12)])
            if t < 0.55:
                return [rec(d - 1) for _ in range(rng.randrange(4))]
            if t < 0.75:
                return tuple(rec(d - 1) for _ in range(rng.randrange(4)))
            if t < 0.9:
                return {"k%d" % i: rec(d - 1) for i in range(rng.randrange(4))}
            return Thing(rec(d - 1), rec(d - 1))
        return [rec(4) for _ in range(n)]
    if k in ("utext", "udict", "ulist", "umix"):
        # text with 2-, 3- and 4-byte UTF-8 characters; "dense": (almost) every character is multi-byte
        alphabet = ["\u00e9", "\u20ac", "\U0001F600", "\u00fc", "\u4e2d", "\U00010348"]
        if not spec.get("dense"):
            alphabet = alphabet + list("abcdefghij klmnop")

        def text(m, period=None):
            if period:  # periodic (compressible) text of m characters
                unit = "".join(rng.choice(alphabet) for _ in range(period))
                return (unit * (m // period + 1))[:m]
            return "".join(rng.choice(alphabet) for _ in range(m))
        per = spec.get("period")
        if k == "utext":
            return text(n, per)
        if k == "udict":
            return {text(5): text(n, per), "k\u00e9y": [text(3), 1, 2.5], text(4): {"\u20ac": text(7)}, "salt": salt}
        if k == "ulist":
            return [text(3), [text(n, per), (text(2), b"\xff\xfe", [text(9)])], 7, text(1)]
        return [b"\x00\xff" * 9, text(n, per), bytearray(b"ab\xc3"), text(6), {"b": b"\xe2\x82", "s": text(4)}, salt]
    if k == "np":
        a = np.arange(n, dtype=spec.get("dtype", "float64")).reshape(spec.get("shape", [n]))
        if spec.get("wrap"):
            return {"x": a, "y": [a[:2] * 2, "text", 7], "z": b"tail" * 5}
        return a
    raise ValueError(k)


def guarded(fn):
    """('ok', value) | ('raises', type name) | ('hang', why)"""
    signal.alarm(ALARM_S)
    try:
        try:
            v = fn()
        finally:
            signal.alarm(0)
        return ("ok", v)
    except Spin as e:
        return ("hang", "spin: " + str(e))
    except Alarm:
        return ("hang", "no result after %d s" % ALARM_S)
    except Exception as e:  # noqa
        return ("raises", type(e).__name__)
    except BaseException as e:  # noqa  (SystemExit, KeyboardInterrupt from a loader would be a lie too)
        return ("raises", "BaseException:" + type(e).__name__)


def load_outcome(data, obj, via):
    del c13_impl.PROXY.epochs[:]
    if via == "path":
        fd, path = tempfile.mkstemp(prefix="verif-c14-")
        os.write(fd, data)
        os.close(fd)
        try:
            r = guarded(lambda: joblib.load(path))
        finally:
            os.unlink(path)
    else:
        r = guarded(lambda: joblib.load(io.BytesIO(data)))
    if r[0] == "ok":
        return ("E", None) if deep_eq(r[1], obj) else ("D", repr(r[1])[:200])
    if r[0] == "raises":
        return ("R", r[1])
    return ("H", r[1])


def trunc_points(spec, n, rng, data=None):
    if spec == "all":
        return list(range(n))
    if isinstance(spec, dict) and "unicode" in spec:
        # every offset of the last 2 KiB and of the start, and the region around multi-byte characters
        # (bytes >= 0x80; for an uncompressed file these are the UTF-8 sequences and a few opcodes)
        k = spec["unicode"]
        if n < 4096:
            return list(range(n))
        pts = set(range(max(0, n - spec.get("tail", 2048)), n)) | set(range(min(n, 96)))
        high = [i for i, b in enumerate(data or b"") if b >= 0x80]
        if len(high) > k:
            step = len(high) / float(k)
            high = [high[int(j * step)] for j in range(k)] + high[:40] + high[-40:]
        for p in high:
            pts |= set(range(p - 1, p + 5))
        for b in range(8192, n + 8192, 8192):
            pts |= {b - 1, b, b + 1}
        pts |= {n // 2, n // 3, (1 << 16) - 1, 1 << 16, (1 << 16) + 1, (1 << 16) + 2}
        return sorted(p for p in pts if 0 <= p < n)
    if isinstance(spec, dict):
        k = spec["auto"]
        pts = set(range(min(n, 24))) | set(range(max(0, n - 24), n))
        for b in range(8192, n + 8192, 8192):
            pts |= {b - 1, b, b + 1}
        pts |= {n // 2, n // 3, n // 4}
        while len(pts) < min(n, k):
            pts.add(rng.randrange(n))
        return sorted(p for p in pts if 0 <= p < n)
    return [p for p in spec if 0 <= p < n]


def run_load(c):
    obj = make_obj(c["obj"])
    buf = io.BytesIO()
    joblib.dump(obj, buf, compress=tuple(c["compress"]) if isinstance(c["compress"], list) else c["compress"],
                protocol=c.get("protocol"))
    data = buf.getvalue()
    rng = random.Random(len(data))
    base = load_outcome(data, obj, c.get("via", "bytesio"))
    pts = trunc_points(c["trunc"], len(data), rng, data)
    codes, excs, details = [], {}, []
    payload_lens = []
    zfmt = c["compress"][0] if isinstance(c["compress"], list) and c["compress"][0] in ("zlib", "gzip") else None
    for n in pts:
        code, info = load_outcome(data[:n], obj, c.get("via", "bytesio"))
        codes.append(code)
        if code == "R":
            excs[info] = excs.get(info, 0) + 1
        elif code in ("D", "H"):
            details.append([n, code, info])
        if code == "H":
            pts = pts[:len(codes)]  # one hang is enough; do not wait for the others
            break
        if zfmt:
            # how much of the payload the standard decompressor gets out of the cut file
            import zlib
            d = zlib.decompressobj(c13_impl.sh.WBITS[zfmt])
            try:
                payload_lens.append(len(d.decompress(data[:n])))
            except zlib.error:
                payload_lens.append(-1)
    tr = []
    for t in c.get("trailers", []):
        extra = data if t["kind"] == "stream" else bytes((i * 131 + 7) % 256 for i in range(t["n"]))
        code, info = load_outcome(data + extra, obj, c.get("via", "bytesio"))
        tr.append([t, code, info])
        if code == "H":
            break
    full_payload = None
    if zfmt:
        import zlib
        full_payload = len(zlib.decompressobj(c13_impl.sh.WBITS[zfmt]).decompress(data))
    return {"len": len(data), "base": base[0], "points": pts, "codes": "".join(codes), "exc_types": excs,
            "details": details[:10], "trailers": tr, "payload_lens": payload_lens, "full_payload": full_payload}


def run_junk(c):
    """files that only LOOK compressed: every registered magic prefix (and the old 'ZF' marker) followed by junk,
    and a valid pickle hidden behind a foreign magic: load must return or raise, never hang"""
    import pickle
    from joblib import compressor as jc
    prefixes = [(name, bytes(w.prefix)) for name, w in jc._COMPRESSORS.items()] + [("ZF", bytes(jc._ZFILE_PREFIX))]
    rng = random.Random(c.get("seed", 0))
    out = []
    for name, pre in prefixes:
        for n in c["lens"]:
            for kind in ("zeros", "random", "pickle", "self"):
                if kind == "zeros":
                    junk = b"\0" * n
                elif kind == "random":
                    junk = bytes(rng.getrandbits(8) for _ in range(n))
                elif kind == "pickle":
                    junk = pickle.dumps(list(range(n)), protocol=2)
                else:
                    junk = pre * (n // max(1, len(pre)) + 1)
                r = guarded(lambda: joblib.load(io.BytesIO(pre + junk)))
                code = {"ok": "V", "raises": "R", "hang": "H"}[r[0]]
                out.append([name, n, kind, code, r[1] if code != "V" else type(r[1]).__name__])
                if code == "H":
                    return {"results": out}
    return {"results": out}


class ShortReader:
    """file-like object whose successive read() calls are capped; optionally stops early"""

    def __init__(self, data, caps):
        self.data = data
        self.caps = list(caps)
        self.pos = 0
        self.calls = 0
        self.asked = []

    def read(self, n=-1):
        self.calls += 1
        if self.calls > 100000:
            raise Spin("read() called more than 100000 times")
        self.asked.append(n)
        want = len(self.data) - self.pos if n is None or n < 0 else n
        if self.caps:
            want = min(want, max(0, self.caps.pop(0)))
        r = self.data[self.pos:self.pos + want]
        self.pos += len(r)
        return r


def run_readbytes(c):
    data = bytes((i * 7 + 3) % 251 for i in range(c["n"]))
    fp = ShortReader(data, c["caps"])
    r = guarded(lambda: npu._read_bytes(fp, c["size"], "verif"))
    out = {"calls": fp.calls, "asked": fp.asked[:60]}
    if r[0] == "ok":
        v = r[1]
        out.update({"res": "ok", "len": len(v), "is_prefix": bytes(v) == data[:len(v)]})
    elif r[0] == "raises":
        out.update({"res": "raises", "type": r[1]})
    else:
        out.update({"res": "hang", "why": r[1]})
    out["pos"] = fp.pos
    return out


class NoClearBackend(joblib._store_backends.FileSystemStoreBackend):
    """a store that does not delete (public API: register_store_backend): clear_item is a no-op"""

    def clear_item(self, call_id):
        pass


joblib.register_store_backend("verif_noclear", NoClearBackend)
LOAD_LIMIT = 300   # load_item calls within ONE cached call: beyond that it is a retry loop, not a recovery
SIGN = [0]
NP_LOADS = [None]
NP_COUNT = [0]
_real_np_load = joblib.numpy_pickle.load


def _counting_np_load(*a, **kw):
    """numpy_pickle.load as seen by the store backend: a retry loop INSIDE load_item shows up here"""
    if NP_LOADS[0] is not None:
        NP_COUNT[0] += 1
        if NP_COUNT[0] > LOAD_LIMIT:
            raise Spin("numpy_pickle.load called %d times within one cached call" % NP_COUNT[0])
    return _real_np_load(*a, **kw)


joblib._store_backends.numpy_pickle.load = _counting_np_load


def run_memory(c):
    d = tempfile.mkdtemp(prefix="verif-c14m-")
    side = tempfile.mkdtemp(prefix="verif-c14s-")
    try:
        comp = tuple(c["compress"]) if isinstance(c["compress"], list) else c["compress"]
        und = c.get("undeletable")
        mem = joblib.Memory(d, verbose=0, compress=comp, **({"backend": "verif_noclear"} if und == "noclear" else {}))
        calls = []
        sig = c.get("sig")
        if sig:
            # a cached function whose parameter names collide with those of joblib's internal helpers
            # (func, args, kwargs, self, ...), defined in a real module so that its source can be inspected
            import importlib
            SIGN[0] += 1
            modname = "verif_c14_sig_%d_%d" % (os.getpid(), SIGN[0])
            with open(os.path.join(side, modname + ".py"), "w") as fh:
                fh.write("CALLS = []\nRESULT = [None]\n\n\ndef f(%s):\n    CALLS.append(1)\n    return RESULT[0]\n"
                         % ", ".join(sig))
            sys.path.insert(0, side)
            try:
                mod = importlib.import_module(modname)
            finally:
                sys.path.remove(side)
            mod.RESULT[0] = make_obj(c["obj"], 1)
            calls = mod.CALLS
            f = mod.f
            vals = list(range(1, len(sig) + 1))
            if c.get("callstyle") == "kw":
                cargs, ckw = [], dict(zip(sig, vals))
            else:
                cargs, ckw = vals, {}
        else:
            def f(x):
                calls.append(x)
                return make_obj(c["obj"], x)
            f.__module__ = "verif_c14"
            f.__qualname__ = f.__name__ = "f"
            cargs, ckw = [1], {}
        cf = mem.cache(f)
        truth = make_obj(c["obj"], 1)
        v0 = cf(*cargs, **ckw)
        if not deep_eq(v0, truth) or len(calls) != 1:
            return {"harness_error": "first call did not compute"}
        entry = os.path.join(cf.store_backend.location, cf.func_id, cf._get_args_id(*cargs, **ckw))
        if und == "symlink":
            # the entry directory is a symlink: shutil.rmtree refuses symlinks, so the entry cannot be deleted
            real = os.path.join(side, "entry")
            shutil.move(entry, real)
            os.symlink(real, entry)
        path = os.path.join(entry, "output.pkl")
        orig = open(path, "rb").read()
        if c.get("stale_tmp"):
            # what a writer killed in the middle of its dump leaves behind (concurrency_safe_write's temporary name,
            # thread id and pid of a process that no longer exists): half a pickle next to the item
            with open(path + ".thread-139872341234-pid-4194301", "wb") as fh:
                fh.write(orig[:len(orig) // 2])
        # deterministic detectors of a retry loop: count the loads of one cached call, at the store level and at
        # the numpy_pickle level (a retry inside load_item is one load_item call)
        loads = [0]
        real_load = cf.store_backend.load_item

        def counting_load(*a, **kw):
            loads[0] += 1
            if loads[0] > LOAD_LIMIT:
                raise Spin("load_item called %d times within one cached call" % loads[0])
            return real_load(*a, **kw)
        cf.store_backend.load_item = counting_load
        NP_LOADS[0] = loads

        def call():
            loads[0] = 0
            NP_COUNT[0] = 0
            if not c.get("werror"):
                return cf(*cargs, **ckw)
            with warnings.catch_warnings():
                warnings.simplefilter("error")   # as under `python -W error`
                return cf(*cargs, **ckw)
        res = []
        damages = []
        for dmg in c["damage"]:
            if dmg[0] == "trunc_all":      # every length 0..len-1
                damages += [["trunc", n] for n in range(len(orig))]
            elif dmg[0] == "trunc_auto":   # first/last 24 bytes, 8192-boundaries +-1, fractions, random points
                damages += [["trunc", n] for n in trunc_points({"auto": dmg[1]}, len(orig), random.Random(len(orig)))]
            elif dmg[0] == "trunc_u":      # last 2 KiB + around the multi-byte characters
                damages += [["trunc", n] for n in trunc_points({"unicode": dmg[1], "tail": dmg[2] if len(dmg) > 2 else 2048},
                                                               len(orig), random.Random(1), orig)]
            else:
                damages.append(dmg)
        for dmg in damages:
            if dmg[0] == "none":
                bad = orig          # no damage: only the surroundings (a stale temporary file) differ
            elif dmg[0] == "trunc":
                bad = orig[:max(0, min(len(orig) - 1, dmg[1]))]
            elif dmg[0] == "frac":
                bad = orig[:max(0, min(len(orig) - 1, len(orig) * dmg[1] // dmg[2]))]
            elif dmg[0] == "extend":
                bad = orig + bytes((i * 131 + 7) % 256 for i in range(dmg[1]))
            else:
                bad = orig + orig
            with open(path, "wb") as fh:
                fh.write(bad)
            del calls[:]
            r = guarded(call)
            if r[0] == "ok":
                code = "E" if deep_eq(r[1], truth) else "D"
            else:
                code = "R:" + r[1] if r[0] == "raises" else "H:" + r[1]
            recomputed = len(calls) == 1
            # the entry must be usable afterwards whatever happened
            del calls[:]
            r2 = guarded(call)
            after = "E" if r2[0] == "ok" and deep_eq(r2[1], truth) else ("D" if r2[0] == "ok" else r2[0] + ":" + str(r2[1]))
            res.append({"damage": dmg, "len": len(bad), "orig_len": len(orig), "code": code, "recomputed": recomputed,
                        "after": after, "after_recomputed": len(calls) == 1, "strict_prefix": len(bad) < len(orig)})
            with open(path, "wb") as fh:
                fh.write(orig)
            if code.startswith("H"):
                break
        return {"results": res}
    finally:
        NP_LOADS[0] = None
        shutil.rmtree(d, ignore_errors=True)
        shutil.rmtree(side, ignore_errors=True)


def run_memory_meta(c):
    """metadata.json of a real entry is damaged while output.pkl stays intact (the state a killed writer or a disk
    fault leaves): f(x), call_and_shelve(x).get() and check_call_in_cache(x) must not raise, hang or lie"""
    d = tempfile.mkdtemp(prefix="verif-c14mm-")
    try:
        comp = tuple(c["compress"]) if isinstance(c["compress"], list) else c["compress"]
        mem = joblib.Memory(d, verbose=0, compress=comp)
        calls = []

        def f(x):
            calls.append(x)
            return make_obj(c["obj"], x)
        f.__module__ = "verif_c14"
        f.__qualname__ = f.__name__ = "f"
        cf = mem.cache(f)
        truth = make_obj(c["obj"], 1)
        if not deep_eq(cf(1), truth) or calls != [1]:
            return {"harness_error": "first call did not compute"}
        entry = os.path.join(cf.store_backend.location, cf.func_id, cf._get_args_id(1))
        mpath = os.path.join(entry, "metadata.json")
        orig = open(mpath, "rb").read()
        rng = random.Random(len(orig))
        damages = []
        for dmg in c["damage"]:
            if dmg[0] == "trunc_all":
                damages += [["trunc", n] for n in range(len(orig))]
            else:
                damages.append(dmg)

        def wrapped(fn):
            if not c.get("werror"):
                return fn
            def g():
                with warnings.catch_warnings():
                    warnings.simplefilter("error")
                    return fn()
            return g
        res = []
        for dmg in damages:
            if dmg[0] == "trunc":
                bad = orig[:dmg[1]]
            elif dmg[0] == "extend_ascii":
                bad = orig + b" " * (dmg[1] - 1) + b"x"
            elif dmg[0] == "extend_bin":       # not valid UTF-8
                bad = orig + b"\xff" * dmg[1]
            elif dmg[0] == "garbage":
                bad = bytes([0xff, 0xfe, 0x00, 0x80]) + bytes(rng.getrandbits(8) for _ in range(dmg[1]))
            elif dmg[0] == "double":
                bad = orig + orig
            else:
                bad = None                      # missing
            if bad is None:
                os.unlink(mpath)
            else:
                with open(mpath, "wb") as fh:
                    fh.write(bad)
            out = {}
            del calls[:]
            for name, fn in (("call", lambda: cf(1)), ("shelve", lambda: cf.call_and_shelve(1).get()),
                             ("check", lambda: cf.check_call_in_cache(1))):
                r = guarded(wrapped(fn))
                if r[0] == "ok":
                    if name == "check":
                        out[name] = "E" if isinstance(r[1], bool) else "D"
                    else:
                        out[name] = "E" if deep_eq(r[1], truth) else "D"
                else:
                    out[name] = ("R:" if r[0] == "raises" else "H:") + str(r[1])
            res.append({"damage": dmg, "len": -1 if bad is None else len(bad), "orig_len": len(orig), "out": out,
                        "recomputed": len(calls)})
            with open(mpath, "wb") as fh:
                fh.write(orig)
            if any(v.startswith("H") for v in out.values()):
                break
        return {"results": res}
    finally:
        shutil.rmtree(d, ignore_errors=True)


def main():
    for line in sys.stdin:
        line = line.strip()
        if not line:
            continue
        c = json.loads(line)
        try:
            if c["kind"] == "load":
                r = run_load(c)
            elif c["kind"] == "readbytes":
                r = run_readbytes(c)
            elif c["kind"] == "memory":
                r = run_memory(c)
            elif c["kind"] == "junk":
                r = run_junk(c)
            elif c["kind"] == "memmeta":
                r = run_memory_meta(c)
            else:
                r = c13_impl.run_read(c)
        except BaseException as e:  # harness-level failure is reported, not hidden
            import traceback
            r = {"harness_error": repr(e) + " " + traceback.format_exc()[-400:]}
        sys.stdout.write(json.dumps(r) + "\n")
        sys.stdout.flush()


if __name__ == "__main__":
    main()
