"""Implementation side of C02 / C06 / C12: ONE PROCESS SEGMENT of a scenario on the real joblib.Memory.

stdin : one JSON object  {"cache": dir, "moddir": dir, "refs": file, "scenario": {...}, "events": [[idx, ev], ...]}
stdout: one JSON list with one result per event (same order).

scenario = {"versions": {k: {"tag": "v1", "path": "mod_a.py", "pad": 0, "kind": "def"|"lambda"|"nested"|"main"}},
            "params": [[name, kind, default|null], ...]   kind in po pk va ko vk
            "ignore": [names], "compress": false|3|["gzip",1]}
events   = ["define",k] ["wrap",k] ["call",k,cs,vld] ["shelve",k,cs,vld] ["check",k,cs,vld] ["get",r] ["clearref",r]
           ["clearfunc",k] ["clearmem"] ["evict",keep]       cs = {"pos":[val...],"kw":[[name,val]...]}
values   = {"i":1} {"f":"1.0"} {"b":true} {"n":0} {"s":"a"} {"y":"a"} {"t":[..]} {"l":[..]} {"d":[[k,v]..]} {"S":[..]} {"F":[..]}

Every function returns (tag, tuple of (name, value) of its bound arguments minus the ignored ones) and counts
its executions in _COUNT, so a wrong hit, a needless recomputation and the version that computed a value are
all visible.  The undecorated twin of every version (same source, never wrapped) is the oracle for values;
inspect.signature(...).bind is the oracle for call equivalence.
"""
import functools
import inspect
import json
import os
import pickle
import shutil
import subprocess
import sys
import types
import warnings

warnings.simplefilter("ignore")

import asyncio  # noqa: E402
import io  # noqa: E402

import joblib  # noqa: E402
from joblib import Memory, register_store_backend  # noqa: E402
from joblib._store_backends import StoreBackendBase, StoreBackendMixin  # noqa: E402
from joblib.func_inspect import filter_args  # noqa: E402


class EqAll(object):
    """compares equal to everything (like unittest.mock.ANY)"""
    def __eq__(self, other):
        return True

    def __ne__(self, other):
        return False
    __hash__ = object.__hash__


class EqNone(object):
    """compares unequal to everything, itself included"""
    def __eq__(self, other):
        return False

    def __ne__(self, other):
        return True
    __hash__ = object.__hash__


class CmpRaises(object):
    def __eq__(self, other):
        raise RuntimeError("comparison refused")

    def __ne__(self, other):
        raise RuntimeError("comparison refused")
    __hash__ = object.__hash__


class _Ambiguous(object):
    def __bool__(self):
        raise ValueError("The truth value of an array with more than one element is ambiguous")


class CmpElementwise(object):
    """comparisons return an object without a truth value (array-like)"""
    def __eq__(self, other):
        return _Ambiguous()

    def __ne__(self, other):
        return _Ambiguous()
    __hash__ = object.__hash__


ARG_SRC = """
class Json:
    class Codec:
        @classmethod
        def encode(cls, x):
            return ("json", x)


class Tsv:
    class Codec:
        @classmethod
        def encode(cls, x):
            return ("tsv", x)
"""


def _argmod(name, label):
    src = ARG_SRC + ("\n\nclass Codec:\n    @classmethod\n    def encode(cls, x):\n        return (%r, x)\n\n\n"
                     "def conv(x, y=0):\n    return (%r, x, y)\n" % (label, label))
    m = types.ModuleType(name)
    exec(compile(src, name + ".py", "exec"), m.__dict__)
    sys.modules[name] = m
    return m


def callables():
    """callable ARGUMENT values: bound classmethods of same-named classes (nested in two classes / in two modules),
    same-named functions of two modules, builtin functions and methods, bound methods of module objects, partials"""
    import math
    a = sys.modules.get("verifargs_a") or _argmod("verifargs_a", "a")
    b = sys.modules.get("verifargs_b") or _argmod("verifargs_b", "b")
    return {"Json.Codec.encode": a.Json.Codec.encode, "Tsv.Codec.encode": a.Tsv.Codec.encode,
            "a.Codec.encode": a.Codec.encode, "b.Codec.encode": b.Codec.encode,
            "a.conv": a.conv, "b.conv": b.conv, "len": len, "abs": abs, "str.upper": str.upper, "str.lower": str.lower,
            "[].append": [].append, "[1].append": [1].append, "math.sqrt": math.sqrt, "math.floor": math.floor,
            "partial(a.conv,1)": functools.partial(a.conv, 1), "partial(b.conv,1)": functools.partial(b.conv, 1),
            "partial(a.conv,y=2)": functools.partial(a.conv, y=2)}


def write_source(path, src, keep_mtime):
    """(re)write a module file.  keep_mtime: the modification time of the previous content is restored (an edit
    inside the timestamp granularity / a restored checkout) and linecache has the file warm, as after a traceback or
    inspect.getsource of the old version -- whoever trusts linecache.checkcache then sees the OLD text."""
    import linecache
    old = os.stat(path) if keep_mtime and os.path.exists(path) else None
    os.makedirs(os.path.dirname(path), exist_ok=True)
    with open(path, "w") as fh:
        fh.write(src)
    if old is not None:
        os.utime(path, ns=(old.st_atime_ns, old.st_mtime_ns))
    if keep_mtime:
        linecache.getlines(path)


def mutate_in_place(v):
    """modify every mutable container reachable from v (lists, dicts, sets)"""
    if isinstance(v, list):
        for e in v:
            mutate_in_place(e)
        v.append("MUTATED-BY-CALLER")
    elif isinstance(v, dict):
        for e in list(v.values()):
            mutate_in_place(e)
        v["MUTATED-BY-CALLER"] = 1
    elif isinstance(v, set):
        v.add("MUTATED-BY-CALLER")
    elif isinstance(v, tuple):
        for e in v:
            mutate_in_place(e)


def describe(v):
    """what a callable argument IS (module, qualified name, what it is bound to): two callables with one description
    are the same computation"""
    if isinstance(v, functools.partial):
        return "partial(%s, %s, %s)" % (describe(v.func), canon(v.args), canon(v.keywords))
    slf = getattr(v, "__self__", None)
    owner = ""
    if slf is not None:
        owner = ("module " + slf.__name__) if isinstance(slf, types.ModuleType) else (
            "class %s.%s" % (slf.__module__, slf.__qualname__) if isinstance(slf, type) else "instance " + canon(slf))
    return "%s.%s of [%s]" % (getattr(v, "__module__", None), getattr(v, "__qualname__", repr(v)), owner)


def D(v):
    """what the generated functions return for an argument: the value itself, or the description of a callable"""
    if isinstance(v, (Memory, Holder)):
        return ("jobj", canon(v))
    return ("callable", describe(v)) if callable(v) and not isinstance(v, (EqAll, EqNone, CmpRaises,
                                                                           CmpElementwise)) else v


ODD = {"eqall": EqAll(), "eqnone": EqNone(), "raises": CmpRaises(), "elementwise": CmpElementwise()}


def is_literal(v):
    (t, x), = v.items()
    if t in ("o", "np", "c", "j"):
        return False
    if t in ("t", "l", "S", "F"):
        return all(is_literal(e) for e in x)
    if t == "d":
        return all(is_literal(k) and is_literal(w) for k, w in x)
    return True


class Holder(object):
    """an estimator-like object that holds a Memory"""
    def __init__(self, memory):
        self.memory = memory
        self.alpha = 1


def _aux_g(x):
    return x


JOBJ = {}


def jobjects(base):
    """joblib's OWN objects used as argument values: a Memory, a MemorizedFunc of it, an object holding a Memory"""
    if not JOBJ:
        m = Memory(base + "_aux", verbose=0)
        JOBJ.update({"memory": m, "memfunc": m.cache(_aux_g, verbose=1), "holder": Holder(m)})
    return JOBJ


AUX_BASE = [None]


def dec(v):
    (t, x), = v.items()
    if t == "j":
        return jobjects(AUX_BASE[0])[x]
    if t == "o":
        return ODD[x]
    if t == "c":
        return callables()[x]
    if t == "i":
        return int(x)
    if t == "f":
        return float(x)
    if t == "b":
        return bool(x)
    if t == "n":
        return None
    if t == "s":
        return str(x)
    if t == "y":
        return x.encode("latin1")
    if t == "t":
        return tuple(dec(e) for e in x)
    if t == "l":
        return [dec(e) for e in x]
    if t == "d":
        return {dec(k): dec(w) for k, w in x}
    if t == "S":
        return set(dec(e) for e in x)
    if t == "F":
        return frozenset(dec(e) for e in x)
    if t == "np":
        # an array given by its raw bytes, dtype and shape (twins share bytes, shape and strides)
        import numpy as np
        return np.frombuffer(bytes.fromhex(x["bytes"]), dtype=np_dtype(x["dtype"])).reshape(x["shape"]).copy()
    raise ValueError(v)


def np_dtype(spec):
    import numpy as np
    if isinstance(spec, list):
        return np.dtype([tuple(tuple(e) if isinstance(e, list) else e for e in f) for f in spec])
    return np.dtype(spec)


def canon(v):
    """strict, order-insensitive text of a value: 1, 1.0 and True differ; dict/set order does not matter"""
    t = type(v).__name__
    if t in ("EqAll", "EqNone", "CmpRaises", "CmpElementwise"):
        return "odd:" + t          # never compared with ==
    if isinstance(v, Memory):
        return "jobj:Memory:%s" % v.location
    if isinstance(v, Holder):
        return "jobj:Holder(%s)" % canon(v.memory)
    if callable(v):
        return "callable:" + describe(v)
    if t == "ndarray":
        # dtype (fields, offsets, units), shape and element VALUES.  Byte order is normalised: joblib deliberately
        # returns cached arrays in native byte order (numpy_pickle _ensure_native_byte_order), values unchanged.
        w = v.astype(v.dtype.newbyteorder("="))
        return "ndarray:%r:%r:%r:%s" % (w.dtype.descr if w.dtype.names else w.dtype.str,
                                        (w.dtype.fields and sorted((n, str(f[0]), f[1]) for n, f in
                                                                   w.dtype.fields.items())),
                                        w.shape, w.tobytes().hex())
    if isinstance(v, (tuple, list)):
        return "%s(%s)" % (t, ",".join(canon(e) for e in v))
    if isinstance(v, dict):
        return "%s{%s}" % (t, ",".join(sorted(canon(k) + ":" + canon(w) for k, w in v.items())))
    if isinstance(v, (set, frozenset)):
        return "%s{%s}" % (t, ",".join(sorted(canon(e) for e in v)))
    if hasattr(v, "__dict__") and not callable(v):
        return "obj:%s%s" % (t, canon(vars(v)))
    return "%s:%r" % (t, v)


def _ind(lines):
    return "".join(l + "\n" for l in lines)


_B = ["def g(x):",
      "    _COUNT[0] += 1",
      "    acc = []",
      "    for i in (1, 2, 3):",
      "        if i == x:",
      "            acc.append('hit')",
      "        acc.append(i)",
      "    acc.append('end')",
      "    return ('ind', x, tuple(acc), 'a  b')"]

# "same tokens, different program" (re-indentation, swapped lines, moved statement, blanks inside a literal) and
# "different text, same program" (trailing blanks, blank line, comment, tabs) variants of ONE function
INDENT_VARIANTS = {
    "base": _ind(_B),
    "indent-into-if": _ind(_B[:6] + ["            acc.append(i)"] + _B[7:]),
    "indent-into-for": _ind(_B[:7] + ["        acc.append('end')"] + _B[8:]),
    "dedent-out-of-for": _ind(_B[:6] + ["    acc.append(i)"] + _B[7:]),
    "return-into-for": _ind(_B[:7] + ["        acc.append('end')", "        return ('ind', x, tuple(acc), 'a  b')"]),
    "swap-two-lines": _ind(_B[:6] + ["        acc.append('end')", "    acc.append(i)"] + _B[8:]),
    "move-before-loop": _ind(_B[:3] + [_B[7]] + _B[3:7] + _B[8:]),
    "literal-blanks": _ind(_B[:8] + ["    return ('ind', x, tuple(acc), 'a b')"]),
    "literal-blanks-3": _ind(_B[:8] + ["    return ('ind', x, tuple(acc), 'a   b')"]),
    # same program, other text
    "trailing-blanks": _ind(_B[:7] + [_B[7] + "   "] + _B[8:]),
    "blank-line": _ind(_B[:7] + [""] + _B[7:]),
    "comment": _ind(_B[:7] + ["    # a comment"] + _B[7:]),
    "tabs": _ind([l.replace("    ", "\t") for l in _B[:8]] + ["\treturn ('ind', x, tuple(acc), 'a  b')"]),
}


def vparams(sc, k):
    """parameters of version k (factory / wraps pairs give each object its own defaults / signature)"""
    return sc["versions"][str(k)].get("params", sc["params"])


def source_for(sc, k):
    ver = sc["versions"][str(k)]
    params = vparams(sc, k)
    factory = ver.get("kind") == "factory"
    ignore = set(sc.get("body_ignore", sc["ignore"]))
    parts = []
    seen_po = False
    n_po = sum(1 for p in params if p[1] == "po")
    for i, (name, kind, default) in enumerate(params):
        if kind == "va":
            parts.append("*" + name)
        elif kind == "vk":
            parts.append("**" + name)
        else:
            if kind == "ko" and not any(p[1] == "va" for p in params) and \
                    not any(q[1] == "ko" for q in params[:i]):
                parts.append("*")
            parts.append(name if default is None else
                         ("%s=D[%r]" % (name, name) if factory else
                          ("%s=%r" % (name, dec(default)) if is_literal(default) else
                           "%s=_DEFAULTS[%r]" % (name, name))))
        if kind == "po":
            seen_po = True
            if sum(1 for p in params[:i + 1] if p[1] == "po") == n_po:
                parts.append("/")
    items = []
    for name, kind, default in params:
        key = {"va": "*", "vk": "**"}.get(kind, name)
        if key in ignore:
            continue
        if kind == "vk":
            items.append("(%r, tuple(sorted((k_, _D(v_)) for k_, v_ in %s.items())))" % ("**", name))
        elif kind == "va":
            items.append("(%r, tuple(_D(v_) for v_ in %s))" % ("*", name))
        else:
            items.append("(%r, _D(%s))" % (name, name))
    ret = "(%r, (%s))" % (ver["tag"], "".join(it + ", " for it in items))
    sig = ", ".join(parts)
    pad = "".join("# pad %d\n" % j for j in range(sc.get("_pad_now", ver.get("pad", 0))))
    kind = ver.get("kind", "def")
    if kind == "sourceless" and ver.get("gname"):
        return ("_COUNT = [0]\n_T1 = 'g1'\n_T2 = 'g2'\n\n\ndef g(x):\n    _COUNT[0] += 1\n"
                "    return (_T%d, (('x', x),))\n" % ver["gname"])
    if kind == "names":
        # same-named callables of ONE module: a module-level function, a bound method, staticmethods of several
        # classes and of a nested class -- distinct qualnames, hence distinct function identifiers
        def body(label, ind, slf=""):
            return ("%sdef area(%sx):\n%s    _COUNT[0] += 1\n%s    return (%r, (('x', x),))\n"
                    % (ind, slf, ind, ind, label))
        return ("_COUNT = [0]\n\n\n" + body("area", "") + "\n\nclass Square:\n    def __init__(self):\n"
                "        self.t = 1\n\n" + body("Square.area", "    ", "self, ") +
                "\n\nclass Disc:\n    @staticmethod\n" + body("Disc.area", "    ") +
                "\n\nclass Outer:\n    class Inner:\n        @staticmethod\n" + body("Outer.Inner.area", "        ") +
                "\n    @staticmethod\n" + body("Outer.area", "    "))
    if ver.get("how"):
        # one base text for all callables without __code__: a function, a class with a method and __call__
        tag = ver["tag"]
        items = "(('a', a), ('b', b), ('c', c), ('d', d))"
        return ("_COUNT = [0]\n\n\n"
                "def g(a, b, c=12, *, d=13):\n    _COUNT[0] += 1\n    return (%r, %s)\n\n\n"
                "class K:\n    def __init__(self, s):\n        self.s = s\n\n"
                "    def m(self, a, b, c=12, *, d=13):\n        _COUNT[0] += 1\n"
                "        return (%r, 'm', self.s, %s)\n\n"
                "    def __call__(self, b, c=12, *, d=13):\n        _COUNT[0] += 1\n"
                "        return (%r, 'call', self.s, (('b', b), ('c', c), ('d', d)))\n" % (tag, items, tag, items, tag))
    if ver.get("variant"):
        return pad + "_COUNT = [0]\n" + INDENT_VARIANTS[ver["variant"]]
    if ver.get("slots") is not None:
        # position-aware edits: every literal sits on its own physical line; the final statement spans several
        # lines (tuple / list / dict literals continued over lines, implicit string concatenation, backslash
        # continuation, a comment line inside parentheses) and its trailing lines carry no bytecode of their own
        S = ver["slots"]
        body = ("def g(x):\n"
                "    _COUNT[0] += 1\n"
                "    a = %d\n"
                "    b = (x,\n"
                "         %d)\n"
                "    c = 'p' \\\n"
                "        'q%d'\n"
                "    return ('vm', (('x', x),), a, b, c, [%d,\n"
                "            %d], {'k':\n"
                "            %d}, (0.25,\n"
                "            %d,\n"
                "            # trailing comment inside the parentheses\n"
                "            0.%d))\n" % tuple(S))
        return pad + "_COUNT = [0]\n" + body
    if kind == "factory":
        # two objects made by ONE factory share their code object and differ in __defaults__/__kwdefaults__
        dflt = "{%s}" % ", ".join("%r: %r" % (n, dec(d)) for n, _, d in params if d is not None)
        body = ("def make(D):\n    def g(%s):\n        _COUNT[0] += 1\n        return %s\n    return g\n"
                "g = make(%s)\n" % (sig, ret, dflt))
    elif kind == "wraps":
        # functions behind one functools.wraps decorator share the wrapper's code object
        body = ("import functools\n\n\ndef deco(fn):\n    @functools.wraps(fn)\n"
                "    def wrapper(*args, **kwargs):\n        return fn(*args, **kwargs)\n    return wrapper\n\n\n"
                "def g(%s):\n    _COUNT[0] += 1\n    return %s\n\n\ng = deco(g)\n" % (sig, ret))
    elif kind == "method":
        body = ("class K:\n    def __init__(self):\n        self.tag = 1\n\n"
                "    def g(self, %s):\n        _COUNT[0] += 1\n        return %s\n\ng = K().g\n" % (sig, ret))
    elif kind == "lambda":
        body = "g = lambda %s: (_COUNT.__setitem__(0, _COUNT[0] + 1), %s)[1]\n" % (sig, ret)
    elif kind == "nested":
        body = ("def make():\n    def g(%s):\n        _COUNT[0] += 1\n        return %s\n    return g\n"
                "g = make()\n" % (sig, ret))
    elif kind == "async":
        body = "async def g(%s):\n    _COUNT[0] += 1\n    return %s\n" % (sig, ret)
    else:
        body = "def g(%s):\n    _COUNT[0] += 1\n    return %s\n" % (sig, ret)
    return pad + "_COUNT = [0]\n" + body


def ideal_filter_args(func, ignore, pos, kw):
    """what filter_args should return: the binding of the call in joblib's own name -> value convention"""
    if not inspect.isfunction(func) and not inspect.ismethod(func):
        return {"*": list(pos), "**": dict(kw)}       # joblib's documented convention for such callables
    sig = inspect.signature(func)
    ba = sig.bind(*pos, **kw)
    ba.apply_defaults()
    out = {}
    if inspect.ismethod(func):
        out[next(iter(inspect.signature(func.__func__).parameters))] = func.__self__
    for name, p in sig.parameters.items():
        if p.kind is p.VAR_POSITIONAL:
            out["*"] = list(ba.arguments[name])
        elif p.kind is p.VAR_KEYWORD:
            out["**"] = dict(ba.arguments[name])
        else:
            out[name] = ba.arguments[name]
    for item in ignore:
        out.pop(item)  # KeyError = the ignore list itself is wrong (never generated)
    return out


class _ObjWriter(io.BytesIO):
    def __init__(self, objects, key):
        io.BytesIO.__init__(self)
        self._objects, self._key = objects, key

    def close(self):
        if not self.closed:
            self._objects[self._key] = self.getvalue()
        io.BytesIO.close(self)


class ObjectStoreBackend(StoreBackendBase, StoreBackendMixin):
    """key -> bytes store implementing the documented StoreBackendBase interface; a 'location' exists when it is a
    key, a prefix of a key, or was created explicitly (as in S3-like stores).  Shared within ONE process."""
    objects = {}
    prefixes = set()

    def _open_item(self, f, mode):
        if "w" in mode:
            return _ObjWriter(self.objects, f)
        try:
            return io.BytesIO(self.objects[f])
        except KeyError:
            raise FileNotFoundError(f)

    def _item_exists(self, location):
        return (location in self.objects or location in self.prefixes
                or any(k_.startswith(location.rstrip("/") + "/") for k_ in self.objects))

    def _move_item(self, src, dst):
        self.objects[dst] = self.objects.pop(src)

    def create_location(self, location):
        self.prefixes.add(location)

    def clear_location(self, location):
        prefix = location.rstrip("/") + "/"
        for k_ in [k_ for k_ in self.objects if k_ == location or k_.startswith(prefix)]:
            del self.objects[k_]
        for p_ in [p_ for p_ in self.prefixes if p_ == location or p_.startswith(prefix)]:
            self.prefixes.discard(p_)

    def get_items(self):
        return []

    def configure(self, location, verbose=0, backend_options=None):
        self.location = location
        self.verbose = verbose
        self.compress = (backend_options or {}).get("compress", False)
        self.mmap_mode = None


register_store_backend("verif-objstore", ObjectStoreBackend)

VALID = [True]


class Validator(object):
    """cache_validation_callback of every wrapper (picklable: the wrapper may travel through pickle)"""
    def __call__(self, metadata):
        return VALID[0]


class _RawForm(Exception):
    pass


def cache_argument(job, sc):
    """the location argument of Memory: a str, a pathlib.Path (NO 'joblib' sub-directory is appended then) or a
    '~'-path with HOME pointed into the sandbox"""
    if sc.get("loc_form") == "path":
        import pathlib
        return pathlib.Path(job["cache"])
    if sc.get("loc_form") == "tilde":
        os.environ["HOME"] = os.path.dirname(job["cache"])
        return os.path.join("~", os.path.basename(job["cache"]))
    return job["cache"]


def side(job, what):
    """perform one store operation in a SECOND process sharing the cache directory"""
    p = subprocess.run([sys.executable, os.path.abspath(__file__), "--side"],
                       input=json.dumps({"cache": job["cache"], "moddir": job["moddir"], "scenario": job["scenario"],
                                         "what": what}),
                       stdout=subprocess.PIPE, stderr=subprocess.PIPE, text=True, timeout=120)
    if p.returncode != 0:
        raise RuntimeError("side process failed: " + p.stderr[-400:])


def side_main():
    import datetime
    job = json.load(sys.stdin)
    sc, what = job["scenario"], job["what"]
    mem = Memory(cache_argument(job, sc), verbose=0, compress=tuple(sc["compress"]) if isinstance(sc["compress"], list)
                 else sc["compress"])
    if what["action"] == "reduce_size":
        kw = dict(what["kwargs"])
        if "age_limit" in kw:
            kw["age_limit"] = datetime.timedelta(seconds=kw["age_limit"])
        mem.reduce_size(**kw)
    elif what["action"] == "clearfunc":
        ver = sc["versions"][str(what["k"])]
        path = os.path.join(job["moddir"], ver["path"])
        src = open(path).read()
        mod = types.ModuleType("verifmod")
        mod.__dict__["_D"] = D
        mod.__dict__["_DEFAULTS"] = {n: dec(d) for n, _, d in vparams(sc, what["k"])
                                     if d is not None and not is_literal(d)}
        exec(compile(src, path, "exec"), mod.__dict__)
        sys.modules["verifmod"] = mod
        mem.cache(mod.__dict__["g"], ignore=what["opts"].get("ignore"),
                  mmap_mode=what["opts"].get("mmap_mode")).clear(warn=False)


def main():
    job = json.loads(sys.stdin.readline()) if "--serve" in sys.argv else json.load(sys.stdin)
    # joblib prints progress messages (verbose >= 1) on stdout: the results go to a private copy of fd 1
    result_channel = os.fdopen(os.dup(1), "w")
    os.dup2(2, 1)
    sys.stdout = sys.stderr
    sc = job["scenario"]
    moddir = job["moddir"]
    if sc.get("pads"):
        sc["_pad_now"] = sc["pads"][job.get("segment", 0) % len(sc["pads"])]
    cache_arg = cache_argument(job, sc)
    AUX_BASE[0] = job["cache"]
    mem = Memory(cache_arg, backend="verif-objstore" if sc.get("backend") == "objstore" else "local",
                 verbose=sc.get("verbose", 0), mmap_mode=sc.get("mmap_mode"), compress=tuple(sc["compress"]) if isinstance(sc["compress"], list)
                 else sc["compress"])
    refs = []
    if os.path.exists(job["refs"]):
        with open(job["refs"], "rb") as fh:
            refs = pickle.load(fh)
    objs, plains, wraps, counts, bases = {}, {}, {}, {}, {}
    mems = {0: mem}

    def mem_at(L):
        """the Memory of cache location L (several cache directories shared by the processes of a history)"""
        if L not in mems:
            base_, spelling = (sc.get("loc_alias") or {}) and sc["loc_alias"][L] or (L, "abs")
            path_ = job["cache"] if base_ == 0 else job["cache"] + "_loc%d" % base_
            if spelling == "rel":
                path_ = os.path.relpath(path_)
            elif spelling == "dot":
                path_ = os.path.join(path_, ".", "")
            elif spelling == "link":
                link_ = path_ + "_alias"
                os.makedirs(path_, exist_ok=True)
                if not os.path.islink(link_):
                    os.symlink(path_, link_)
                path_ = link_
            mems[L] = Memory(path_, verbose=sc.get("verbose", 0),
                             mmap_mode=sc.get("mmap_mode"),
                             compress=tuple(sc["compress"]) if isinstance(sc["compress"], list) else sc["compress"])
        return mems[L]

    # a FAKE CLOCK for joblib.memory (scenario flag "slow"): every description of a parameter inside the CACHED function
    # (not its plain twin) takes sc["slow"] fake seconds, so that executions last about / longer than the expiry given
    # to expires_after; time only moves while a cached function executes
    FAKE = [0.0]
    if sc.get("slow"):
        import joblib.memory as _jm
        import time as _real_time

        class _Clock(object):
            def time(self):
                return _real_time.time() + FAKE[0]

            def __getattr__(self, name):
                return getattr(_real_time, name)
        _jm.time = _Clock()

    def D_of(name):
        if not sc.get("slow") or name == "verifplain":
            return D

        def D_slow(v):
            FAKE[0] += sc["slow"]
            return D(v)
        return D_slow

    def wkey(k, L):
        return k if not L else (k, L)
    ign_of = {}       # wrapper key -> the ignore list the SCENARIO gave it (not what the wrapper believes)

    def run_maybe_async(k, x):
        return asyncio.run(x) if sc["versions"][str(k)].get("kind") == "async" else x
    valid = VALID
    last_entry = [None]

    def entry_dirs():
        base = mem.store_backend.location
        out = set()
        for root, dirs, files in os.walk(base):
            if "output.pkl" in files:
                out.add(os.path.basename(root))
        return out

    serve = "--serve" in sys.argv      # a LONG-LIVED process: one batch of events per input line, state kept
    while True:
        results = []
        for idx, ev in job["events"]:
            kind = ev[0]
            res = {"idx": idx}
            try:
                if kind == "define":
                    k = ev[1]
                    ver = sc["versions"][str(k)]
                    src = source_for(sc, k)
                    path = os.path.join(moddir, ver["path"])
                    if ver.get("kind") == "ipycell":
                        # a notebook cell: compiled under <tmp>/ipykernel_<pid of the kernel>/<hash>.py, the source is
                        # registered in linecache (no file on disk), the function lives in __main__
                        import linecache
                        pids = sc.get("pids") or ["12345"]
                        path = os.path.join(moddir, "ipykernel_%s" % pids[job.get("segment", 0) % len(pids)], "3141592653.py")
                        linecache.cache[path] = (len(src), None, src.splitlines(True), path)
                    elif ver.get("kind") == "sourceless":
                        path = "<string>"          # exec'd text: inspect.getsource fails, get_func_code falls back
                    else:
                        write_source(path, src, sc.get("keep_mtime"))
                    modname = "__main__" if ver.get("kind") in ("main", "ipycell") else "verifmod"

                    defaults_ns = {n: dec(d) for n, _, d in vparams(sc, k) if d is not None and not is_literal(d)}

                    def load(name, fname):
                        if ver.get("kind") in ("method", "names") or (sc.get("picklable") and name != "__main__"):
                            # the instance is hashed (pickled) as part of the key: its class must be importable
                            mod = types.ModuleType(name)
                            mod.__dict__["_DEFAULTS"] = defaults_ns
                            mod.__dict__["_D"] = D_of(name)
                            exec(compile(src, fname, "exec"), mod.__dict__)
                            sys.modules[name] = mod
                            return mod.__dict__
                        ns_ = {"__name__": name, "_DEFAULTS": defaults_ns, "_D": D_of(name)}
                        exec(compile(src, fname, "exec"), ns_)
                        return ns_
                    if ver.get("kind") == "partial":
                        # 2-3 partial objects of ONE function: the base is executed once per process and file
                        if path not in bases:
                            stem = os.path.splitext(os.path.basename(path))[0]
                            bases[path] = (load("verifmod_" + stem if ver.get("how") else modname, path),
                                           load("verifplain", path + ".plain"))
                        ns, ns2 = bases[path]
                        fpos = [dec(v) for v in ver["frozen"]["pos"]]
                        fkw = {n: dec(v) for n, v in ver["frozen"]["kw"]}

                        def build(n_):
                            how = ver.get("how", "func")
                            if how == "method":       # partial of a method bound to its own instance (default repr)
                                return functools.partial(n_["K"](ver.get("state", 0)).m, *fpos, **fkw)
                            if how == "nested":       # partial of a partial
                                return functools.partial(functools.partial(n_["g"], fpos[0]), *fpos[1:], **fkw)
                            if how == "callable":     # an instance of a class with __call__ (default repr)
                                return n_["K"](ver.get("state", 0))
                            return functools.partial(n_["g"], *fpos, **fkw)
                        objs[k] = build(ns)
                        plains[k] = build(ns2)
                    elif ver.get("kind") == "names":
                        if path not in bases:
                            bases[path] = (load(modname, path), load("verifplain", path + ".plain"))
                        ns, ns2 = bases[path]

                        def member(n_):
                            m = ver["member"]
                            if m == "Square().area":
                                return n_["Square"]().area
                            o = None
                            for part in m.split("."):
                                o = n_[part] if o is None else getattr(o, part)
                            return o
                        objs[k] = member(ns)
                        plains[k] = member(ns2)
                    else:
                        cpath = path
                        if ver.get("kind") == "main" and sc.get("cwds"):
                            # a SCRIPT run with a relative path (python script.py / runpy.run_path) from some working
                            # directory: co_filename is relative; another session uses another cwd / spelling
                            sp = sc["cwds"][job.get("segment", 0) % len(sc["cwds"])]
                            base_ = os.path.basename(moddir.rstrip(os.sep))
                            cwd_, cpath = {"here": (moddir, ver["path"]),
                                           "dot": (moddir, os.path.join(".", ver["path"])),
                                           "parent": (os.path.dirname(moddir.rstrip(os.sep)),
                                                      os.path.join(base_, ver["path"])),
                                           "updown": (moddir, os.path.join("..", base_, ver["path"])),
                                           "abs": (moddir, path)}[sp]
                            os.chdir(cwd_)
                        ns = load(modname, cpath)
                        ns2 = load("verifplain", path if path == "<string>" else path + ".plain")
                        objs[k] = ns["g"]
                        plains[k] = ns2["g"]
                    counts[k] = ns["_COUNT"]
                    for key_ in [q for q in wraps if q == k or (isinstance(q, tuple) and q[0] == k)]:
                        wraps.pop(key_)
                    res["o"] = "done"
                elif kind == "pickled":
                    # the live wrapper is pickled / copied / hashed (as a Parallel dispatch does); the copy is DISCARDED
                    # unless how == "roundtrip": being pickled must not change the live wrapper
                    import copy
                    import pickle as _p
                    k, how = ev[1], ev[2]
                    w = wraps[k]
                    if how == "dumps":
                        _p.dumps(w)
                    elif how == "hash":
                        joblib.hash(w)
                    elif how == "copy":
                        copy.copy(w)
                    elif how == "deepcopy":
                        copy.deepcopy(w)
                    elif how == "roundtrip":
                        wraps[k] = _p.loads(_p.dumps(w))
                    res["o"] = "skip"
                elif kind == "jlog":
                    # the joblib objects used as arguments emit their first warnings (Memory.clear / MemorizedFunc.clear
                    # with warn=True): being logged through must not change what they hash to
                    import logging
                    logging.disable(logging.CRITICAL)
                    try:
                        jo = jobjects(AUX_BASE[0])
                        jo["memory"].clear(warn=True)
                        jo["memfunc"].clear(warn=True)
                        jo["holder"].memory.warn("holder logs")
                    finally:
                        logging.disable(logging.NOTSET)
                    res["o"] = "skip"
                elif kind == "nullmem":
                    # the wrapper of Memory(None) (NotMemorizedFunc / AsyncNotMemorizedFunc) and Memory(None).eval:
                    # every route accepts what the plain function accepts and returns the plain function's value
                    k, cs = ev[1], ev[2]
                    pos = [dec(v) for v in cs["pos"]]
                    kw = {n: dec(v) for n, v in cs["kw"]}
                    try:
                        expect = canon(run_maybe_async(k, plains[k](*pos, **kw)))
                        res["bind"] = "accepted"
                    except TypeError:
                        expect = None
                        res["bind"] = None
                    nm = Memory(None, verbose=0)
                    nw = nm.cache(objs[k])
                    routes = {}
                    for route, fn in (("__call__", lambda: run_maybe_async(k, nw(*pos, **kw))),
                                      ("call", lambda: (lambda o: run_maybe_async(k, o[0]) if isinstance(o, tuple)
                                                        else run_maybe_async(k, o)[0])(nw.call(*pos, **kw))),
                                      ("call_and_shelve", lambda: run_maybe_async(k, nw.call_and_shelve(*pos, **kw)).get()),
                                      ("check_call_in_cache", lambda: nw.check_call_in_cache(*pos, **kw)),
                                      ("eval", lambda: run_maybe_async(k, nm.eval(objs[k], *pos, **kw)))):
                        try:
                            out = fn()
                            if route == "check_call_in_cache":
                                routes[route] = "ok" if out is False else "answer %r" % (out,)
                            else:
                                routes[route] = "ok" if canon(out) == expect else "value %s" % canon(out)
                        except Exception as e:  # noqa
                            routes[route] = "raise %s" % type(e).__name__
                    res["routes"] = routes
                    res["o"] = "skip"
                elif kind == "recache":
                    # RE-DECORATION of an already cached function, with other options or with none:
                    # memory.cache(cached_g, ignore=...) / memory.cache(cached_g)
                    k, opts = ev[1], ev[2]
                    if opts.get("ignore") is None:
                        wraps[k] = mem.cache(wraps[k])
                        ign_of[k] = []
                    else:
                        wraps[k] = mem.cache(wraps[k], ignore=list(opts["ignore"]),
                                             cache_validation_callback=Validator() if sc.get("callback", True) else None)
                        ign_of[k] = list(opts["ignore"])
                    res["o"] = "skip"
                elif kind == "rewrap":
                    # the wrapper goes through pickle / copy (as when it is sent to a worker): __getstate__ drops the
                    # timestamp and the code id; the copy replaces the original
                    import copy
                    import pickle as _p
                    k, how = ev[1], ev[2]
                    w = wraps[k]
                    if how == "pickle":
                        w = _p.loads(_p.dumps(w))
                    elif how == "cloudpickle":
                        from joblib.externals import cloudpickle
                        w = _p.loads(cloudpickle.dumps(w))
                    elif how == "copy":
                        w = copy.copy(w)
                    elif how == "deepcopy":
                        w = copy.deepcopy(w)
                    elif how == "dump":          # for another process (loaded there with "load")
                        with open(os.path.join(moddir, "wrapper_%s.pkl" % k), "wb") as fh:
                            _p.dump(w, fh)
                    elif how == "load":
                        with open(os.path.join(moddir, "wrapper_%s.pkl" % k), "rb") as fh:
                            w = _p.load(fh)
                        counts[k] = w.func.__globals__["_COUNT"]
                    wraps[k] = w
                    res["o"] = "skip"
                elif kind == "hotreload":
                    # the file of object k is edited in place and the new code object is installed into the EXISTING
                    # function object (what %autoreload does); the long-lived MemorizedFunc stays.  From now on the
                    # object is addressed as k2 (= object k with the text of version k2).
                    k, k2 = ev[1], ev[2]
                    ver = sc["versions"][str(k2)]
                    src = source_for(sc, k2)
                    path = os.path.join(moddir, ver["path"])
                    write_source(path, src, sc.get("keep_mtime"))
                    scratch = {"__name__": objs[k].__module__}
                    exec(compile(src, path, "exec"), scratch)
                    objs[k].__code__ = scratch["g"].__code__
                    ns2 = {"__name__": "verifplain", "_D": D}
                    exec(compile(src, path + ".plain", "exec"), ns2)
                    objs[k2], counts[k2], plains[k2] = objs[k], counts[k], ns2["g"]
                    for key_ in list(wraps):
                        if key_ == k or (isinstance(key_, tuple) and key_[0] == k):
                            wraps[k2 if key_ == k else (k2, key_[1])] = wraps[key_]
                    res["o"] = "done"
                elif kind == "recode":
                    # the code object is replaced by a freshly compiled EQUAL one (file untouched)
                    k = ev[1]
                    src = source_for(sc, k)
                    scratch = {"__name__": objs[k].__module__}
                    exec(compile(src, os.path.join(moddir, sc["versions"][str(k)]["path"]), "exec"), scratch)
                    objs[k].__code__ = scratch["g"].__code__
                    res["o"] = "done"
                elif kind == "wrap":
                    k = ev[1]
                    L = ev[2] if len(ev) > 2 else 0
                    wraps[wkey(k, L)] = mem_at(L).cache(
                        objs[k], ignore=list(sc["ignore"]),
                        cache_validation_callback=(joblib.expires_after(**sc["expires"]) if sc.get("expires") else
                                                   Validator() if sc.get("callback", True) else None))
                    ign_of[wkey(k, L)] = list(sc["ignore"])
                    res["o"] = "done"
                    res["func_id"] = wraps[wkey(k, L)].func_id
                elif kind in ("call", "shelve", "check"):
                    k, cs, vld = ev[1], ev[2], ev[3]
                    pos = [dec(v) for v in cs["pos"]]
                    kw = {n: dec(v) for n, v in cs["kw"]}
                    w = wraps[wkey(k, ev[4] if len(ev) > 4 else 0)]
                    via_eval = cs.get("via") == "eval"      # memory.eval(cached_g, ...): a fresh decoration without options
                    eff_ignore = [] if via_eval else ign_of.get(wkey(k, ev[4] if len(ev) > 4 else 0), list(sc["ignore"]))
                    # oracles: the undecorated twin and Python's own binding
                    try:
                        ba = inspect.signature(plains[k]).bind(*pos, **kw)
                        ba.apply_defaults()
                        res["bind"] = canon(dict(ba.arguments))
                        if not inspect.isfunction(plains[k]) and not inspect.ismethod(plains[k]):
                            raise _RawForm()
                        keep = {n: v for n, v in ba.arguments.items()
                                if {"va": "*", "vk": "**"}.get(
                                    {p[0]: p[1] for p in vparams(sc, k)}[n], n) not in eff_ignore}
                        res["bind_r"] = canon(keep)
                        res["expect"] = canon(run_maybe_async(k, plains[k](*pos, **kw)))
                    except _RawForm:
                        # joblib keys such callables by the call form itself ({'*': args, '**': kwargs})
                        res["bind"] = res["bind_r"] = canon({"*": list(pos), "**": dict(kw)})
                        res["expect"] = canon(plains[k](*pos, **kw))
                    except TypeError:
                        res["bind"] = None
                    # observations that do not touch the store
                    try:
                        res["args_id"] = (mem.cache(objs[k])._get_args_id(*pos, **kw) if via_eval
                                          else w._get_args_id(*pos, **kw))
                    except Exception as e:  # noqa
                        res["args_id"] = None
                        res["args_id_exc"] = type(e).__name__
                    if res.get("bind") is not None:
                        try:
                            real = filter_args(objs[k], list(eff_ignore), tuple(pos), dict(kw))
                            res["fa_ok"] = canon(real) == canon(ideal_filter_args(plains[k], eff_ignore, pos, kw))
                        except Exception:  # noqa
                            res["fa_ok"] = False
                    valid[0] = bool(vld)
                    if res.get("args_id"):
                        last_entry[0] = (w.func_id, res["args_id"])
                    before = counts[k][0]
                    res["clock0"] = FAKE[0]
                    try:
                        if kind == "call" and cs.get("via") == "call":
                            out = run_maybe_async(k, w.call(*pos, **kw))[0]      # MemorizedFunc.call: forced execution
                            res["o"] = "val"
                            res["v"] = canon(out)
                        elif kind == "call":
                            out = run_maybe_async(k, mem.eval(w if sc.get("eval_wrapper", True) else objs[k], *pos, **kw)
                                              if via_eval else w(*pos, **kw))
                            res["o"] = "val"
                            res["v"] = canon(out)
                        elif kind == "shelve":
                            r = run_maybe_async(k, w.call_and_shelve(*pos, **kw))
                            refs.append(r)
                            res["o"] = "ref"
                            res["r"] = len(refs) - 1
                            res["ref_args_id"] = r.args_id
                        else:
                            res["o"] = "check"
                            res["b"] = bool(w.check_call_in_cache(*pos, **kw))
                    except Exception as e:  # noqa
                        res["o"] = "raise"
                        res["e"] = type(e).__name__
                    res["n"] = counts[k][0] - before
                    res["clock1"] = FAKE[0]
                    valid[0] = True
                elif kind in ("get", "clearref") and ev[1] >= len(refs):
                    res["o"] = "skip"     # no such reference (an earlier call_and_shelve raised)
                elif kind == "get":
                    try:
                        got = refs[ev[1]].get()
                        res["v"] = canon(got)
                        res["o"] = "val"
                        mutate_in_place(got)      # the caller scribbles on what it received: the store must not notice
                    except Exception as e:  # noqa
                        res["o"] = "raise"
                        res["e"] = type(e).__name__
                elif kind == "clearref":
                    refs[ev[1]].clear()
                    res["o"] = "done"
                elif kind == "clearfunc":
                    wraps[wkey(ev[1], ev[2] if len(ev) > 2 else 0)].clear(warn=False)
                    res["o"] = "done"
                elif kind == "clearmem":
                    mem_at(ev[1] if len(ev) > 1 else 0).clear(warn=False)
                    res["o"] = "done"
                elif kind == "evict":
                    # Memory.reduce_size with each kind of limit, in this process or in a SECOND process that shares the
                    # cache directory (the wrappers of this process stay alive)
                    import datetime
                    spec = ev[1]
                    kwargs = ({"items_limit": spec} if isinstance(spec, int) else
                              {"bytes_limit": spec["bytes"]} if "bytes" in spec else
                              {"age_limit": datetime.timedelta(seconds=spec["age"])})
                    before = entry_dirs()
                    if len(ev) > 2 and ev[2] == "side":
                        side(job, {"action": "reduce_size", "kwargs": {k_: (v_ if k_ != "age_limit" else spec["age"])
                                                                       for k_, v_ in kwargs.items()}})
                    else:
                        mem.reduce_size(**kwargs)
                    res["o"] = "done"
                    res["evicted"] = sorted(before - entry_dirs())
                elif kind == "rmentry":
                    # the entry directory of the last call is removed behind joblib's back
                    before = entry_dirs()
                    if last_entry[0] is not None:
                        shutil.rmtree(os.path.join(mem.store_backend.location, *last_entry[0]), ignore_errors=True)
                    res["o"] = "done"
                    res["evicted"] = sorted(before - entry_dirs())
                elif kind == "clearfunc2":
                    # clear() of ANOTHER wrapper of the same function (other ignore list / mmap_mode), here or in a second
                    # process
                    k, opts = ev[1], ev[2]
                    if len(ev) > 3 and ev[3] == "side":
                        side(job, {"action": "clearfunc", "k": k, "opts": opts})
                    else:
                        mem.cache(objs[k], ignore=opts.get("ignore"), mmap_mode=opts.get("mmap_mode")).clear(warn=False)
                    res["o"] = "done"
                else:
                    res["harness_error"] = "unknown event %r" % (ev,)
            except BaseException as e:  # harness-level failure is reported, not hidden
                import traceback
                res["harness_error"] = repr(e) + " " + traceback.format_exc()[-600:]
            results.append(res)
        with open(job["refs"], "wb") as fh:
            pickle.dump(refs, fh)
        result_channel.write(json.dumps(results) + "\n")
        result_channel.flush()
        if not serve:
            break
        line = sys.stdin.readline()
        if not line.strip():
            break
        job["events"] = json.loads(line)["events"]


if __name__ == "__main__":
    if "--side" in sys.argv:
        side_main()
    else:
        main()
