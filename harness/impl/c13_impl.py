"""Implementation side of C13.  stdin: one JSON case per line; stdout: one JSON result per line.

read case : {"kind":"read","fmt":"zlib"|"gzip","level":1..9,"payload":{...},"trailer":{...}|null,
             "trunc":int|null,"bufsize":int|null,"via":"bytesio"|"path",
             "ops":[["read",n]|["readinto",n]|["readline",limit]|["seek",o,w]|["tell"]|["close"]|["write"]]}
write case: {"kind":"write","fmt":...,"level":...,"payload":{...},"chunks":[len,...],"via":...,
             "ops":[["write",k]|["writemv",k]|["tell"]|["read"]|["seek"]|["close"]]}

joblib.compressor is given a recording proxy for the zlib module (no edit of the repository): every
decompress() call of every decompressor the file object creates is logged and afterwards compared
with the script obtained by feeding the same file to a fresh zlib.decompressobj in _BUFFER_SIZE
blocks -- this validates the script the Coq model is run on.  The proxy also turns an endless
refill loop into an exception deterministically (many consecutive calls without output).
"""
import base64
import io
import json
import os
import signal
import sys
import tempfile
import zlib as real_zlib

sys.path.insert(0, os.path.dirname(os.path.abspath(__file__)))
import c13_shared as sh  # noqa: E402

import joblib.compressor as jc  # noqa: E402

SPIN_LIMIT = 20000
ALARM_S = int(os.environ.get("VERIF_C13_ALARM", "6"))
MAX_TIMER_HANGS = 2   # after that many timer-detected hangs the remaining cases of this process are skipped
TIMER_HANGS = [0]


class Spin(BaseException):
    pass


class Alarm(BaseException):
    pass


class RecDecomp:
    def __init__(self, wbits, log, log_args):
        self._d = real_zlib.decompressobj(wbits)
        self._log = log
        self._log_args = log_args
        self._empties = 0
        self._after_eof = 0

    @property
    def eof(self):
        return self._d.eof

    @property
    def unused_data(self):
        return self._d.unused_data

    @property
    def unconsumed_tail(self):
        return self._d.unconsumed_tail

    def decompress(self, data, *a, **kw):
        if a or kw:
            # the model's decompressor has one argument: decompress(rawblock) returns everything the block yields
            self._log_args.append("decompress called with extra arguments %r %r" % (a, kw))
        if self._d.eof:
            # the current code never feeds the decompressor after the end marker; the pre-fix loop did, for
            # ever, doubling unused_data each time -- stop it deterministically before memory explodes
            self._after_eof += 1
            if self._after_eof > 6:
                raise Spin("decompress() called %d times after the end-of-stream marker" % self._after_eof)
        out = self._d.decompress(data, *a, **kw)
        self._empties = 0 if out else self._empties + 1
        if len(self._log) < 100000:
            self._log.append((sh.sha(data), len(data), sh.sha(out), len(out), self._d.eof, len(self._d.unused_data)))
        if self._empties > SPIN_LIMIT:
            raise Spin("decompress() called %d times in a row without output" % self._empties)
        return out

    def flush(self, *a):
        return self._d.flush(*a)


class ZlibProxy:
    def __init__(self):
        self.epochs = []
        self.odd_args = []

    def decompressobj(self, wbits=real_zlib.MAX_WBITS, *a):
        log = []
        self.epochs.append(log)
        return RecDecomp(wbits, log, self.odd_args)

    def __getattr__(self, name):
        return getattr(real_zlib, name)


PROXY = ZlibProxy()
jc.zlib = PROXY
DEFAULT_BUFSIZE = jc._BUFFER_SIZE
CLS = {"zlib": jc.BinaryZlibFile, "gzip": jc.BinaryGzipFile}


def on_alarm(*a):
    raise Alarm()


signal.signal(signal.SIGALRM, on_alarm)


def state(f):
    return [f._pos, f._buffer_offset, len(f._buffer), f._mode, f._size]


def exc_code(e):
    if isinstance(e, io.UnsupportedOperation):
        return ["e", 101, type(e).__name__]
    if isinstance(e, ValueError):
        return ["e", 1, type(e).__name__]
    if isinstance(e, TypeError):
        return ["e", 2, type(e).__name__]
    return ["e", 99, type(e).__name__ + ": " + str(e)[:80]]


def do_op(f, o):
    k = o[0]
    if k == "read":
        b = f.read(o[1]) if o[1] is not None else f.read()
        if not isinstance(b, bytes):
            return ["x", "read returned " + type(b).__name__]
        return ["b", sh.sha(b), len(b)]
    if k == "readinto":
        kind = o[2] if len(o) > 2 else "bytearray"
        t = sh.make_target(kind, o[1])
        n = f.readinto(t)
        ba = sh.target_bytes(t)
        if not isinstance(n, int) or n < 0 or n > len(ba):
            return ["x", "readinto returned %r" % (n,)]
        return ["i", sh.sha(ba[:n]), n, bytes(ba[n:]) == b"\xaa" * (o[1] - n)]
    if k == "readline":
        b = f.readline(o[1])
        return ["b", sh.sha(b), len(b)]
    if k == "seek":
        return ["n", f.seek(o[1], o[2])]
    if k == "tell":
        return ["n", f.tell()]
    if k == "close":
        f.close()
        return ["none"]
    if k == "write":
        f.write(b"x")
        return ["none"]
    if k == "q":
        v = f.closed if o[1] == "closed" else getattr(f, o[1])()
        return ["t", v] if isinstance(v, bool) else ["x", "%s gave %r" % (o[1], v)]
    if k == "flush":
        r = f.flush()
        return ["none"] if r is None else ["x", "flush returned %r" % (r,)]
    raise KeyError(k)


class ShortRaw:
    """a seekable raw stream that LEGALLY returns short reads (like an unbuffered socket file or a RawIOBase wrapper):
    read(n) returns a non-empty prefix of what was asked, its length a function of the position"""

    def __init__(self, raw, seed):
        self._raw, self._seed, self._pos, self.closed = raw, seed, 0, False

    def read(self, n=-1):
        if n is None or n < 0:
            n = len(self._raw) - self._pos
        if self._pos >= len(self._raw) or n == 0:
            return b""
        k = sh.short_len(self._pos, n, self._seed)
        out = self._raw[self._pos:self._pos + k]
        self._pos += len(out)
        return out

    def seek(self, off, whence=0):
        self._pos = off if whence == 0 else (self._pos + off if whence == 1 else len(self._raw) + off)
        return self._pos

    def tell(self):
        return self._pos

    def seekable(self):
        return True

    def readable(self):
        return True

    def close(self):
        self.closed = True


def open_pipe(raw, seed):
    """an os.pipe fed by a thread in chunks (short reads decided by timing); not seekable"""
    import threading
    import time
    r, w = os.pipe()

    def feed():
        p = 0
        k = 0
        try:
            while p < len(raw):
                n = [4993, 1, 700, 8192, 3000][(seed + k) % 5]
                os.write(w, raw[p:p + n])
                p += n
                k += 1
                time.sleep(0.001)
        finally:
            os.close(w)
    t = threading.Thread(target=feed, daemon=True)
    t.start()
    fobj = os.fdopen(r, "rb", buffering=0)
    return fobj, (lambda: (fobj.close(), t.join(5)))


def open_target(case, mode, raw=None):
    """returns (file object for BinaryZlibFile, cleanup, getter of the written bytes)"""
    if case.get("via") == "path":
        fd, path = tempfile.mkstemp(prefix="verif-c13-")
        os.write(fd, raw or b"")
        os.close(fd)
        return path, (lambda: os.unlink(path)), (lambda: open(path, "rb").read())
    if case.get("via") == "shortraw":
        return ShortRaw(raw or b"", case.get("short_seed", 0)), (lambda: None), None
    if case.get("via") == "pipe":
        fobj, cleanup = open_pipe(raw or b"", case.get("short_seed", 0))
        return fobj, cleanup, None
    bio = io.BytesIO(raw or b"")
    return bio, (lambda: None), bio.getvalue


def run_read(case):
    raw, d = sh.build_file(case)
    bufsize = case.get("bufsize") or DEFAULT_BUFSIZE
    jc._BUFFER_SIZE = bufsize
    del PROXY.epochs[:]
    del PROXY.odd_args[:]
    script, outs, blocks = sh.script_of(raw, case["fmt"], bufsize,
                                        case.get("short_seed", 0) if case.get("via") == "shortraw" else None)
    target, cleanup, _ = open_target(case, "rb", raw)
    res = []
    try:
        f = CLS[case["fmt"]](target, "rb")
        res.append([["open"], state(f)])
        for o in case["ops"]:
            signal.alarm(ALARM_S)
            try:
                r = do_op(f, o)
            except Spin as e:
                signal.alarm(0)
                res.append([["hang", str(e)], state(f)])
                break
            except Alarm:
                TIMER_HANGS[0] += 1
                res.append([["hang", "no result after %d s" % ALARM_S], state(f)])
                break
            except Exception as e:  # noqa
                r = exc_code(e)
            signal.alarm(0)
            res.append([r, state(f)])
    finally:
        signal.alarm(0)
        jc._BUFFER_SIZE = DEFAULT_BUFSIZE
        cleanup()
    # validate the script against what the file object's decompressors were really given
    script_ok = True
    why = None
    if PROXY.odd_args:
        script_ok, why = False, PROXY.odd_args[0]
    if case.get("via") == "pipe":
        PROXY.epochs[:] = []   # block boundaries of a pipe are decided by timing: the oracle alone judges
    for ep in PROXY.epochs if script_ok else []:
        for i, (sin, nin, sout, nout, eof, nun) in enumerate(ep):
            if i >= len(script["lens"]):
                script_ok, why = False, "decompress call %d beyond the %d stream blocks" % (i, len(script["lens"]))
                break
            if sin != sh.sha(blocks[i]) or sout != sh.sha(outs[i]):
                script_ok, why = False, "decompress call %d: input/output differ from block %d of the script" % (i, i)
                break
        if not script_ok:
            break
    return {"script": script, "file_sha": sh.sha(raw), "file_len": len(raw), "bufsize": bufsize, "results": res,
            "script_ok": script_ok, "script_why": why, "epochs": [len(e) for e in PROXY.epochs]}


def run_write(case):
    d = sh.payload(case["payload"])
    chunks = []
    p = 0
    for n in case["chunks"]:
        chunks.append(d[p:p + n])
        p += n
    target, cleanup, getter = open_target(case, "wb")
    res = []
    try:
        f = CLS[case["fmt"]](target, "wb", compresslevel=case["level"])
        res.append([["open"], [f._pos, f._mode]])
        for o in case["ops"]:
            try:
                if o[0] == "write":
                    r = ["n", f.write(chunks[o[1]])]
                elif o[0] == "writemv":
                    r = ["n", f.write(memoryview(chunks[o[1]]))]
                elif o[0] == "tell":
                    r = ["n", f.tell()]
                elif o[0] == "read":
                    f.read(1)
                    r = ["none"]
                elif o[0] == "seek":
                    f.seek(0)
                    r = ["none"]
                elif o[0] == "close":
                    f.close()
                    r = ["none"]
                elif o[0] in ("q", "flush"):
                    r = do_op(f, o)
                else:
                    raise KeyError(o[0])
            except Exception as e:  # noqa
                r = exc_code(e)
            res.append([r, [f._pos, f._mode]])
        f.close()
        res.append([["none"], [f._pos, f._mode]])
        out = getter()
    finally:
        cleanup()
    return {"results": res, "file": base64.b64encode(out).decode()}


class GateFile:
    """underlying file of a shared writer: the chosen write() call (thread, k-th call of that thread) is pre-empted --
    it blocks until released and its bytes reach the file only then; all other calls go through at once"""

    def __init__(self, target):
        import threading
        self.target = target
        self.mutex = threading.Lock()
        self.counts = {}
        self.data = []
        self.entered = threading.Event()
        self.release = threading.Event()

    def write(self, b):
        import threading
        name = threading.current_thread().name
        with self.mutex:
            k = self.counts.get(name, 0)
            self.counts[name] = k + 1
        if [name, k] == self.target:
            self.entered.set()
            self.release.wait(60)
        with self.mutex:
            self.data.append(bytes(b))
        return len(b)

    def close(self):
        pass


def run_cwrite(c):
    """2-3 threads write their own chunks through ONE BinaryZlibFile/BinaryGzipFile; one underlying write is pre-empted.
    With write() holding the file object's lock across compress + fp.write the other threads wait, so the outcome
    does not depend on timing; the grace period only decides how surely a broken locking discipline is seen."""
    import threading
    chunks = sh.cw_chunks(c)
    gate = GateFile(["w%d" % c["gate"][0], c["gate"][1]])
    f = CLS[c["fmt"]](gate, "wb", compresslevel=c["level"])
    rets = {}
    done = [threading.Event() for _ in chunks]

    def worker(t):
        try:
            rets[t] = [f.write(ch) for ch in chunks[t]]
        except BaseException as e:  # noqa
            rets[t] = "raised " + repr(e)
        finally:
            done[t].set()
    ths = [threading.Thread(target=worker, args=(t,), name="w%d" % t, daemon=True) for t in range(len(chunks))]
    g = c["gate"][0]
    ths[g].start()
    if not gate.entered.wait(20):
        gate.release.set()
        return {"harness_error": "the gated write was never reached"}
    for t, th in enumerate(ths):
        if t != g:
            th.start()
    others_done = all(done[t].wait(c.get("grace", 0.4)) for t in range(len(chunks)) if t != g)
    gate.release.set()
    for th in ths:
        th.join(30)
    if any(th.is_alive() for th in ths):
        return {"harness_error": "a writer thread did not finish"}
    tell = f.tell()
    f.close()
    return {"file": base64.b64encode(b"".join(gate.data)).decode(), "rets": [rets.get(t) for t in range(len(chunks))],
            "tell": tell, "others_finished_while_gated": others_done}


def main():
    for line in sys.stdin:
        line = line.strip()
        if not line:
            continue
        c = json.loads(line)
        try:
            if TIMER_HANGS[0] >= MAX_TIMER_HANGS:
                r = {"skipped": "earlier cases of this process hung"}
            else:
                r = run_read(c) if c["kind"] == "read" else (run_cwrite(c) if c["kind"] == "cwrite" else run_write(c))
        except BaseException as e:  # harness-level failure is reported, not hidden
            r = {"harness_error": repr(e)}
        sys.stdout.write(json.dumps(r) + "\n")
        sys.stdout.flush()


if __name__ == "__main__":
    main()
