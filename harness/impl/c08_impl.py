"""Implementation side of C08 (joblib.hash).  stdin: one JSON case per line; stdout: one JSON result per line.

case   : {"v": spec, "perm": "id" | "rev" | "shuf:<int>" (optionally + "+share": equal str/bytes are ONE shared object), "want": ["stream","iter","md5","sha1"]}
spec   : ["N"] | ["B",bool] | ["I","<decimal>"] | ["F","<bits64 decimal>"] | ["S","<hex of utf-8/surrogatepass>"]
         | ["Y","<hex>"] | ["T",[spec..]] | ["L",[spec..]] | ["D",[[kspec,vspec]..]] | ["E",[spec..]] (set)
         | ["Z",[spec..]] (frozenset)
The containers D/E/Z are filled in the listed order after applying `perm` (insertion order is part of
the experiment).  Every value is built afresh from the text: no sub-object is shared, strings are
assembled at run time (equal but distinct objects).

result : {"stream": hex of Hasher().dump(v) bytes, "md5": joblib.hash(v), "sha1": joblib.hash(v,'sha1'),
          "iter": spec of v with D/E/Z listed in ITERATION order, "twice": second joblib.hash(v) in this process}
         or {"raise": "<ExceptionName>"}
first line of output: {"const": {...}} live constants the model depends on.
"""
import json
import pickle
import random
import struct
import sys

import joblib
from joblib import hashing


SHARE = {}


def order(items, perm, salt):
    items = list(items)
    perm = perm.replace("+share", "")
    if perm == "rev":
        items.reverse()
    elif perm.startswith("shuf:"):
        random.Random(int(perm[5:]) * 1000003 + salt).shuffle(items)
    return items


def build(s, perm, depth=0):
    t = s[0]
    if t == "N":
        return None
    if t == "B":
        return bool(s[1])
    if t == "I":
        return int(s[1])
    if t == "F":
        return struct.unpack(">d", struct.pack(">Q", int(s[1])))[0]
    if t == "S":
        b = bytes.fromhex(s[1])
        # assembled from two pieces at run time: a distinct object even for equal text
        if "+share" in perm:
            # the opposite experiment: one shared object for all equal strings of the value
            if ("S", s[1]) not in SHARE:
                SHARE["S", s[1]] = b.decode("utf-8", "surrogatepass")
            return SHARE["S", s[1]]
        h = _cut(b)
        return "".join([b[:h].decode("utf-8", "surrogatepass"), b[h:].decode("utf-8", "surrogatepass")])
    if t == "Y":
        if "+share" in perm:
            if ("Y", s[1]) not in SHARE:
                SHARE["Y", s[1]] = bytes(bytearray.fromhex(s[1]))
            return SHARE["Y", s[1]]
        return bytes(bytearray.fromhex(s[1]))
    if t == "T":
        return tuple([build(x, perm, depth + 1) for x in s[1]])
    if t == "L":
        return [build(x, perm, depth + 1) for x in s[1]]
    if t == "D":
        d = {}
        for k, v in order(s[1], perm, len(s[1]) + depth):
            d[build(k, perm, depth + 1)] = build(v, perm, depth + 1)
        return d
    if t == "E":
        r = set()
        for x in order(s[1], perm, len(s[1]) + depth):
            r.add(build(x, perm, depth + 1))
        return r
    if t == "Z":
        return frozenset([build(x, perm, depth + 1) for x in order(s[1], perm, len(s[1]) + depth)])
    raise ValueError("bad spec " + repr(s)[:50])


def _cut(b):
    """a character boundary of the utf-8 text near its middle"""
    h = len(b) // 2
    while h > 0 and h < len(b) and (b[h] & 0xC0) == 0x80:
        h -= 1
    return h


def describe(v):
    if v is None:
        return ["N"]
    t = type(v)
    if t is bool:
        return ["B", v]
    if t is int:
        return ["I", str(v)]
    if t is float:
        return ["F", str(struct.unpack(">Q", struct.pack(">d", v))[0])]
    if t is str:
        return ["S", v.encode("utf-8", "surrogatepass").hex()]
    if t is bytes:
        return ["Y", v.hex()]
    if t is tuple:
        return ["T", [describe(x) for x in v]]
    if t is list:
        return ["L", [describe(x) for x in v]]
    if t is dict:
        return ["D", [[describe(k), describe(x)] for k, x in v.items()]]
    if t is set:
        return ["E", [describe(x) for x in v]]
    if t is frozenset:
        return ["Z", [describe(x) for x in v]]
    raise ValueError("outside the universe: %r" % t)


def run(c):
    perm = c.get("perm", "id")
    v = build(c["v"], perm)
    out = {}
    want = c.get("want") or ["stream", "iter", "md5", "sha1"]
    try:
        if "stream" in want:
            h = hashing.Hasher()
            h.dump(v)
            out["stream"] = h.stream.getvalue().hex()
        if "md5" in want:
            out["md5"] = joblib.hash(v)
            out["twice"] = joblib.hash(v)
        if "sha1" in want:
            out["sha1"] = joblib.hash(v, hash_name="sha1")
    except Exception as e:  # noqa
        return {"raise": type(e).__name__}
    if "iter" in want:
        out["iter"] = describe(v)
    return out


def main():
    const = {"batchsize": pickle._Pickler._BATCHSIZE,
             "proto": hashing.Hasher().proto,
             "set_name": "%s\n%s\n" % (hashing._ConsistentSet.__module__, hashing._ConsistentSet.__qualname__),
             "fset_name": "%s\n%s\n" % (hashing._ConsistentFrozenSet.__module__,
                                        hashing._ConsistentFrozenSet.__qualname__),
             "pickler_is_pure_python": hashing.Pickler is pickle._Pickler,
             "hashseed": __import__("os").environ.get("PYTHONHASHSEED"),
             "opcodes": {k: getattr(pickle, k)[0] for k in dir(pickle)
                         if k.isupper() and isinstance(getattr(pickle, k), bytes) and len(getattr(pickle, k)) == 1}}
    sys.stdout.write(json.dumps({"const": const}) + "\n")
    for line in sys.stdin:
        line = line.strip()
        if not line:
            continue
        c = json.loads(line)
        try:
            r = run(c)
        except BaseException as e:  # harness-level failure is reported, not hidden
            r = {"harness_error": repr(e)[:300]}
        sys.stdout.write(json.dumps(r) + "\n")
    sys.stdout.flush()


if __name__ == "__main__":
    main()
