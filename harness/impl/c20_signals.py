"""Signals and the REAL spawn path of the tracker (ensure_running -> spawnv_passfds -> main).

stdin: one JSON scenario per line; stdout: one JSON result per line.  argv[1]: scratch directory.

scenario = {"sig": "INT"|"TERM", "target": "pid"|"group", "when": "pending"|"running"}

A client process (own session, with Python-level handlers for SIGINT/SIGTERM -- caught signals
are reset to the default action in the exec'ed tracker, so nothing is inherited as "ignored")
registers a real folder and a real file in it through the public API.
  pending: the module attribute ``spawnv_passfds`` used by ensure_running() is wrapped from outside:
           right after the real spawn -- ensure_running() still has both signals blocked, and the
           child inherited that mask -- the signal is sent to the tracker's pid / to the whole group.
           It is therefore pending in the tracker before main() can run: no timing involved.
  running: after a synchronisation (marker request answered on stderr) the signal is sent to the
           tracker's pid / the group, then the client synchronises again (the tracker must answer).
Then the client SIGKILLs itself.  End state: once the tracker process has terminated, the temp
root must be empty.
"""
import json
import os
import shutil
import signal
import subprocess
import sys
import tempfile
import time


def proc_gone(pid):
    try:
        with open("/proc/%d/stat" % pid) as f:
            return f.read().rsplit(")", 1)[1].split()[0] == "Z"
    except (FileNotFoundError, ProcessLookupError):
        return True


def client(root, logp, errp, sc):
    got = []
    signal.signal(signal.SIGINT, lambda s, f: got.append(s))
    signal.signal(signal.SIGTERM, lambda s, f: got.append(s))
    import joblib  # noqa: the tracker deletes files with joblib's unlink_file
    from joblib.externals.loky.backend import resource_tracker as rt
    signum = getattr(signal, "SIG" + sc["sig"])
    log = open(logp, "a", buffering=1)
    info = {}

    def send(pid):
        if sc["target"] == "group":
            os.killpg(0, signum)
        else:
            os.kill(pid, signum)

    real_spawn = rt.spawnv_passfds

    def spawn_then_signal(path, args, passfds):
        pid = real_spawn(path, args, passfds)
        info.setdefault("tracker", pid)
        info["mask_at_spawn"] = sorted(s.name for s in signal.pthread_sigmask(signal.SIG_BLOCK, []))
        if sc["when"] == "pending":
            send(pid)
        return pid

    rt.spawnv_passfds = spawn_then_signal

    n = [0]

    def sync():
        n[0] += 1
        marker = "jvsync-%d" % n[0]
        rt.register(marker, "jvsynctype")
        t0 = time.time()
        while True:
            with open(errp, "rb") as f:
                if marker.encode() in f.read():
                    return True
            if time.time() - t0 > 10 or proc_gone(rt._resource_tracker._pid):
                return False
            time.sleep(0.001)

    folder = os.path.join(root, "folder")
    os.makedirs(folder)
    fname = os.path.join(folder, "array.pkl")
    with open(fname, "wb") as f:
        f.write(b"x" * 64)
    try:
        rt.register(folder, "folder")        # launches the tracker
        rt.register(fname, "file")
        info["sync1"] = sync()
        if sc["when"] == "running":
            send(rt._resource_tracker._pid)
            info["sync2"] = sync()
    except Exception as e:  # e.g. BrokenPipeError: the tracker is gone
        info["client_error"] = "%s: %s" % (type(e).__name__, e)
    info["client_got"] = [signal.Signals(s).name for s in got]
    log.write(json.dumps(info) + "\n")
    log.flush()
    os.kill(os.getpid(), signal.SIGKILL)


def run_scenario(sc, scratch):
    base = tempfile.mkdtemp(prefix="c20sg-", dir=scratch)
    root = os.path.join(base, "root")
    os.makedirs(root)
    logp, errp, scp = os.path.join(base, "log"), os.path.join(base, "stderr"), os.path.join(base, "sc.json")
    with open(scp, "w") as f:
        json.dump(sc, f)
    errf = open(errp, "wb")
    p = subprocess.Popen([sys.executable, os.path.abspath(__file__), "--client", root, logp, errp, scp],
                         stdin=subprocess.DEVNULL, stdout=subprocess.DEVNULL, stderr=errf, cwd=base,
                         start_new_session=True)
    errf.close()
    out = {"flags": []}
    try:
        out["client_rc"] = p.wait(timeout=60)
    except subprocess.TimeoutExpired:
        p.kill()
        p.wait()
        out["flags"].append("client-timeout")
    try:
        out.update(json.loads(open(logp).read().strip().splitlines()[-1]))
    except (OSError, ValueError, IndexError):
        out["flags"].append("no-client-log")
    tr = out.get("tracker")
    if tr:
        t0 = time.time()
        while not proc_gone(tr) and time.time() - t0 < 20:
            time.sleep(0.002)
        if not proc_gone(tr):
            out["flags"].append("tracker-still-running-after-60s")
            try:
                os.kill(tr, signal.SIGKILL)
            except OSError:
                pass
    out["left"] = sorted(os.path.relpath(os.path.join(d, x), root) for d, ds, fs in os.walk(root) for x in ds + fs)
    try:
        out["stderr_tail"] = open(errp, "rb").read().decode("utf-8", "replace")[-500:]
    except OSError:
        pass
    shutil.rmtree(base, ignore_errors=True)
    return out


def main():
    if len(sys.argv) > 1 and sys.argv[1] == "--client":
        root, logp, errp, scp = sys.argv[2:6]
        client(root, logp, errp, json.load(open(scp)))
        return
    scratch = sys.argv[1]
    hangs = 0
    for ln in sys.stdin:
        if not ln.strip():
            continue
        sc = json.loads(ln)
        if hangs >= 2:  # early stop: do not wait for the same time-out again and again
            sys.stdout.write(json.dumps({"skipped": "early stop after 2 time-outs in this stream"}) + "\n")
            sys.stdout.flush()
            continue
        try:
            res = run_scenario(sc, scratch)
            if res.get("flags"):
                hangs += 1
        except Exception as e:  # noqa
            res = {"harness_error": "%s: %s" % (type(e).__name__, e)}
        sys.stdout.write(json.dumps(res) + "\n")
        sys.stdout.flush()


if __name__ == "__main__":
    main()
