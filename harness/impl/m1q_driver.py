"""Deterministic driver for the sequential path of joblib.Parallel (n_jobs resolves to 1), for Model/ParallelSeq.v.

stdin : one JSON case per line
  {"id":.., "bs": int|"auto", "gen": bool, "how": "n_jobs1"|"sequential"|"threading1"|"negative", "verbose": int,
   "events": [["call", N, ifail, tfail, sized] | ["next"] | ["close"] | ["drop"]]}
stdout: one JSON result per line {"id":.., "events": [...], "obs": [[...]], "snaps": [[...]]}
Everything runs in one thread: there is nothing to schedule, the run IS the event list.
"""
import gc
import json
import os
import sys
import traceback
import warnings

import os as _os_cov, sys as _sys_cov
if _os_cov.environ.get("VERIF_COV_OUT"):
    _sys_cov.path.insert(0, _os_cov.path.dirname(_os_cov.path.abspath(__file__)))
    import cov_hook  # noqa: F401  (diagnostic line coverage, off by default)
from joblib import Parallel, delayed

OUT = os.fdopen(os.dup(1), "w")
os.dup2(2, 1)
sys.stdout = sys.stderr


class TaskFail(Exception):
    pass


class IterFail(Exception):
    pass


class DuplicateExecution(Exception):
    pass


RAN = set()


def task(i, fails, call_no=0):
    if (call_no, i) in RAN:
        # (also keeps a run that re-executes tasks for ever from hanging the driver)
        raise DuplicateExecution("task %d of call %d executed twice" % (i, call_no))
    RAN.add((call_no, i))
    if fails:
        raise TaskFail(i)
    return i


class Input:
    """the input of one call: counts the successful pulls; pull number `ifail` raises (ifail == N: at the end)"""

    def __init__(self, N, ifail, tfail, sized, call_no=0):
        self.N, self.ifail, self.tfail, self.sized, self.call_no = N, ifail, tfail, sized, call_no
        self.pulls = 0

    def __iter__(self):
        return self

    def __next__(self):
        k = self.pulls
        if self.ifail is not None and k == self.ifail:
            raise IterFail(k)
        if k >= self.N:
            raise StopIteration
        self.pulls += 1
        return delayed(task)(k, k == self.tfail, self.call_no)


class ListInput(list):
    """a list whose iterators report how far they got (a fresh iterator starts at the head again)"""
    counter = None

    def __iter__(self):
        def it():
            for k, x in enumerate(list.__iter__(self)):
                if self.counter is not None:
                    self.counter.pulls = max(self.counter.pulls, k + 1)
                yield x
        return it()


class SizedInput(Input):
    def __len__(self):
        return self.N


def classify(e):
    if isinstance(e, TaskFail):
        return ["raised", "task", e.args[0]]
    if isinstance(e, IterFail):
        return ["raised", "iter", 0]
    if isinstance(e, RuntimeError) and "already running" in str(e):
        return ["raised", "runtime", 0]
    if isinstance(e, DuplicateExecution):
        return ["raised", "DuplicateExecution", str(e)]
    return ["raised", type(e).__name__, str(e)[:200]]


def run_case(c):
    ncpu = os.cpu_count() or 1
    kw = {"n_jobs1": dict(n_jobs=1), "sequential": dict(n_jobs=2, backend="sequential"),
          "threading1": dict(n_jobs=1, backend="threading"),
          "negative": dict(n_jobs=-ncpu - 3, backend="threading")}[c.get("how", "n_jobs1")]
    p = Parallel(batch_size=c["bs"], return_as="generator" if c["gen"] else "list", verbose=c.get("verbose", 0), **kw)
    gen = None
    cur = None
    events, obs, snaps = [], [], []

    def snap():
        g = lambda name: getattr(p, name, 0)       # noqa: E731  (an attribute that was never set reads as 0 / False)
        return [cur.pulls if cur is not None else 0, g("n_dispatched_tasks"), g("n_completed_tasks"), g("_nb_consumed"),
                int(bool(g("_iterating"))), int(bool(g("_aborting"))), int(bool(g("_exception"))), int(bool(g("_running")))]
    ncall = 0
    for ev in c["events"]:
        k = ev[0]
        o = None
        if k == "call":
            _, N, ifail, tfail, sized = ev
            ncall += 1
            inp = (SizedInput if sized and ifail is None else Input)(N, ifail, tfail, sized, ncall)
            given = inp
            if c.get("relist") and ifail is None:
                # a plain, re-iterable list of tasks (the most common input of all); the model's pull counter is then
                # read off the list: every item the loop has reached
                given = ListInput(list(inp))
                inp.pulls = 0
                given.counter = inp
            try:
                r = p(given)
                if c["gen"]:
                    gen, cur = r, inp
                    o = ["gen"]
                else:
                    cur = inp
                    o = ["returned", list(r)]
            except BaseException as e:  # noqa
                o = classify(e)
                if o[1] != "runtime":
                    cur = inp
        elif k == "next":
            if gen is None:
                continue
            try:
                o = ["val", next(gen)]
            except StopIteration:
                o = ["stop"]
            except BaseException as e:  # noqa
                o = classify(e)
        elif k in ("close", "drop"):
            if gen is None:
                continue
            with warnings.catch_warnings():
                warnings.simplefilter("ignore")
                if k == "close":
                    gen.close()
                else:
                    gen = None
                    r = None
                    gc.collect()
            o = ["stop"]
            if k == "drop":
                # the generator object is gone: later requests have nothing to ask
                events.append(ev), obs.append([o]), snaps.append(snap())
                gen = None
                continue
        events.append(ev)
        obs.append([o])
        snaps.append(snap())
    return {"id": c.get("id"), "events": events, "obs": obs, "snaps": snaps, "bs": c["bs"], "gen": c["gen"]}


for line in sys.stdin:
    line = line.strip()
    if not line:
        continue
    c = json.loads(line)
    RAN.clear()
    try:
        r = run_case(c)
    except BaseException as e:  # noqa
        r = {"id": c.get("id"), "harness_error": repr(e), "tb": traceback.format_exc()}
    OUT.write(json.dumps(r) + "\n")
    OUT.flush()
