"""Client-side driver for C20: the REAL TemporaryResourcesManager (register_new_context,
_clean_temporary_resources, its atexit finalizers) + the real loky resource tracker + a real
directory, driven event by event; the client is then killed (SIGKILL) or exits normally.

stdin: one JSON scenario per line; stdout: one JSON result per line.  argv[1]: scratch directory.

scenario = {"events": [ev, ...], "end": "kill" | "exit",
            "root": "abs" | "rel" | "relsub" | "env" | "envabs"   (how temp_folder is spelled: absolute path, 'tmpjl',
                    './sub/tmpjl', or temp_folder=None with JOBLIB_TEMP_FOLDER='tmpjl' / absolute),
            "chdir": bool   (the tracker is started by ensure_running() while the client's cwd is A, then the client
                    does os.chdir(B); the manager is created afterwards, relative spellings are relative to B)}
The temp root is always looked at through its REAL ABSOLUTE location B/tmpjl (B/sub/tmpjl).  Every name the
client hands to register/unregister/maybe_unlink is recorded: names that are not absolute paths are
reported per event ("rel") -- the tracker resolves names in its own process, with its own cwd.
  ev = ["new", c] | ["mkdir", c] | ["reg", c, f] | ["write", c, f] | ["unl", c, f]
     | ["clean", c, force, allow_non_empty]      (one real manager._clean_temporary_resources(context_id=c, ...) call;
                                                   force / allow_non_empty None = the keyword is omitted, as at the
                                                   real call sites: LokyBackend.terminate passes force only)
     | ["cleanall", m, force, allow_non_empty]   (context_id omitted: all contexts of manager m, as
                                                   MemmappingExecutor.terminate and MemmappingPool.terminate do)
  contexts 1, 2 (and 9, the constructor's) belong to manager 1; with "two": true a second manager serves the SAME
  context ids, labelled 11, 12, 19.  An exception raised by the implementation is recorded ("raised").
     | ["freeze"] | ["thaw"]                     (SIGSTOP / SIGCONT the tracker: it lags behind)

Instrumentation, all from outside (nothing in the repo is edited): the functions
register / unregister / maybe_unlink of the tracker module and the name delete_folder inside
joblib._memmapping_reducer are wrapped to record the calls IN ORDER (delete_folder with its outcome).
Unless the tracker is frozen, the delete_folder wrapper and the end of every event first wait until
the tracker has read everything written so far (marker request with an unknown resource type ->
its ValueError on the shared stderr file), so the outcome of delete_folder does not depend on timing;
joblib.disk.RM_SUBDIRS_RETRY_TIME is shortened for the same reason (a failing delete_folder
re-lists the folder 11 times).

After the client is gone the orchestrator resumes the tracker if needed, waits until the tracker
process has terminated and lists the temp root: what is left there is the end state.
"""
import json
import os
import shutil
import signal
import subprocess
import sys
import tempfile
import time

CTX0 = 9  # context of the manager's constructor


def proc_gone(pid):
    try:
        with open("/proc/%d/stat" % pid) as f:
            return f.read().rsplit(")", 1)[1].split()[0] == "Z"
    except (FileNotFoundError, ProcessLookupError):
        return True


# ------------------------------------------------------------------------------- client
def client(root, logp, errp, scenario):
    import joblib  # noqa
    import joblib.disk
    import joblib._memmapping_reducer as mr
    from joblib.externals.loky.backend import resource_tracker as rt

    joblib.disk.RM_SUBDIRS_RETRY_TIME = 0.002
    log = open(logp, "a", buffering=1)
    state = {"frozen": False, "n": 0, "actions": [], "rel": []}
    raw_register = rt.register

    def sync():
        if state["frozen"]:
            return True
        state["n"] += 1
        marker = "jvsync-%d" % state["n"]
        raw_register(marker, "jvsynctype")
        t0 = time.time()
        pos, tail = 0, b""
        while True:
            with open(errp, "rb") as f:
                f.seek(pos)
                data = f.read()
            pos += len(data)
            tail = tail[-200:] + data
            if marker.encode() in tail:
                return True
            if time.time() - t0 > 10:
                return False
            time.sleep(0.0005)

    def wrap_send(kind, func):
        def f(name, rtype):
            state["actions"].append([kind, rtype, name])
            if not os.path.isabs(name):
                state["rel"].append(name)
            return func(name, rtype)
        return f

    rt.register = wrap_send("reg", rt.register)
    rt.unregister = wrap_send("unreg", rt.unregister)
    rt.maybe_unlink = wrap_send("unl", rt.maybe_unlink)
    real_delete = mr.delete_folder

    def delete_folder(folder_path, *a, **k):
        if not sync():
            state["actions"].append(["sync-timeout", "", folder_path])
        try:
            r = real_delete(folder_path, *a, **k)
        except OSError:
            state["actions"].append(["delete", "fail", folder_path])
            raise
        state["actions"].append(["delete", "ok", folder_path])
        return r

    # keep pickle.whichmodule(delete_folder, "delete_folder") == "joblib.disk": the atexit finalizer of the
    # manager re-imports the function from that module
    delete_folder.__module__ = real_delete.__module__
    delete_folder.__qualname__ = real_delete.__qualname__
    mr.delete_folder = delete_folder

    spelling = scenario.get("root", "abs")
    dir_b = scenario["_dir_b"]
    if scenario.get("chdir"):
        os.chdir(scenario["_dir_a"])
        rt.ensure_running()            # some earlier use of joblib: the tracker's cwd is A
    os.chdir(dir_b)
    rel = os.path.relpath(root, dir_b)  # 'tmpjl' or 'sub/tmpjl'
    if spelling == "abs":
        arg = root
    elif spelling == "rel":
        arg = rel
    elif spelling == "relsub":
        arg = "./" + rel
    else:
        arg = None
        os.environ["JOBLIB_TEMP_FOLDER"] = rel if spelling == "env" else root
    # manager 1 serves the contexts 1, 2, 9; with "two": a second manager (the executor re-created after an
    # abort has its own) serves the SAME context ids, labelled 11, 12, 19
    managers = {}
    try:
        managers[1] = mr.TemporaryResourcesManager(temp_folder_root=arg, context_id="ctx%d" % CTX0)
        if scenario.get("two"):
            managers[2] = mr.TemporaryResourcesManager(temp_folder_root=arg, context_id="ctx%d" % CTX0)
    except Exception as e:  # noqa
        log.write(json.dumps({"ctor_error": "%s: %s" % (type(e).__name__, e),
                              "tracker": rt._resource_tracker._pid}) + "\n")
        log.flush()
        os.kill(os.getpid(), signal.SIGKILL)
    labels = [1, 2, CTX0] + ([11, 12, 10 + CTX0] if 2 in managers else [])
    paths = {}

    def mgr(C):
        return managers[2 if C >= 10 else 1]

    def folder_of(C):
        cached = mgr(C)._cached_temp_folders.get("ctx%d" % (C % 10))
        if cached is not None:
            paths[C] = os.path.abspath(cached)
        if C not in paths:  # never registered so far: the name the manager would choose
            paths[C] = os.path.join(root, "joblib_memmapping_folder_%d_%s_ctx%d" % (os.getpid(), mgr(C)._id, C % 10))
        return paths[C]

    def file_of(C, f):
        return os.path.join(folder_of(C), "f%d.pkl" % f)

    def disk():
        fo, fi = [], []
        for C in labels:
            d = folder_of(C)
            if os.path.isdir(d):
                fo.append(C)
                for n in sorted(os.listdir(d)):
                    fi.append([C, int(n[1:-4])])
        return {"folders": fo, "files": fi}

    def names(actions):
        out = []
        for kind, x, path in actions:
            lab = None
            for C in labels:
                if path == folder_of(C) and lab is None:
                    lab = [C]
                for f in (0, 1, 2):
                    if path == file_of(C, f) and lab is None:
                        lab = [C, f]
            out.append([kind, x, lab if lab is not None else path])
        return out

    rt.ensure_running()
    log.write(json.dumps({"tracker": rt._resource_tracker._pid, "pid": os.getpid(),
                          "init_actions": names(state["actions"]), "init_rel": state["rel"]}) + "\n")
    state["actions"], state["rel"] = [], []
    for ev in scenario["events"]:
        kind = ev[0]
        raised = None
        try:
            if kind == "new":
                mgr(ev[1]).register_new_context("ctx%d" % (ev[1] % 10))
            elif kind == "mkdir":
                if "ctx%d" % (ev[1] % 10) in mgr(ev[1])._cached_temp_folders:  # resolve_temp_folder_name() raises otherwise
                    os.makedirs(folder_of(ev[1]), exist_ok=True)
            elif kind == "reg":
                rt.register(file_of(ev[1], ev[2]), "file")
            elif kind == "write":
                if os.path.isdir(folder_of(ev[1])):
                    with open(file_of(ev[1], ev[2]), "wb") as f:
                        f.write(b"x" * 64)
            elif kind == "unl":
                rt.maybe_unlink(file_of(ev[1], ev[2]), "file")
            elif kind in ("clean", "cleanall"):
                # the keyword shapes of the real call sites: None = the argument is omitted (its default applies)
                kw = {}
                if kind == "clean":
                    kw["context_id"] = "ctx%d" % (ev[1] % 10)
                if ev[2] is not None:
                    kw["force"] = ev[2]
                if ev[3] is not None:
                    kw["allow_non_empty"] = ev[3]
                (mgr(ev[1]) if kind == "clean" else managers[ev[1]])._clean_temporary_resources(**kw)
            elif kind == "freeze":
                if not state["frozen"]:
                    sync()
                    os.kill(rt._resource_tracker._pid, signal.SIGSTOP)
                    state["frozen"] = True
            elif kind == "thaw":
                if state["frozen"]:
                    os.kill(rt._resource_tracker._pid, signal.SIGCONT)
                    state["frozen"] = False
        except Exception as e:  # noqa: the implementation raised
            raised = "%s: %s" % (type(e).__name__, str(e)[:150])
        ok = sync()
        rec = {"ev": ev, "actions": names(state["actions"]), "disk": disk(), "synced": ok, "frozen": state["frozen"],
               "rel": state["rel"], "raised": raised}
        state["actions"], state["rel"] = [], []
        log.write(json.dumps(rec) + "\n")
        if not ok:
            break
    log.write(json.dumps({"done": True}) + "\n")
    log.flush()
    if scenario.get("end", "kill") == "kill":
        os.kill(os.getpid(), signal.SIGKILL)
    # normal exit: the atexit finalizers of the manager run


# ------------------------------------------------------------------------- orchestrator
def run_scenario(sc, scratch):
    base = tempfile.mkdtemp(prefix="c20mg-", dir=scratch)
    dir_a, dir_b = os.path.join(base, "A"), os.path.join(base, "B")
    os.makedirs(dir_a)
    os.makedirs(dir_b)
    root = os.path.join(dir_b, "sub", "tmpjl") if sc.get("root") == "relsub" else os.path.join(dir_b, "tmpjl")
    sc = dict(sc, _dir_a=dir_a, _dir_b=dir_b)
    logp = os.path.join(base, "log")
    errp = os.path.join(base, "stderr")
    scp = os.path.join(base, "scenario.json")
    with open(scp, "w") as f:
        json.dump(sc, f)
    errf = open(errp, "wb")
    p = subprocess.Popen([sys.executable, os.path.abspath(__file__), "--client", root, logp, errp, scp],
                         stdin=subprocess.DEVNULL, stdout=subprocess.DEVNULL, stderr=errf, cwd=base)
    errf.close()
    out = {"flags": [], "steps": []}
    try:
        rc = p.wait(timeout=40)
    except subprocess.TimeoutExpired:
        p.kill()
        rc = p.wait()
        out["flags"].append("client-timeout")
    out["client_rc"] = rc
    tracker = None
    done = False
    try:
        for ln in open(logp):
            rec = json.loads(ln)
            if "ctor_error" in rec:
                tracker = rec.get("tracker")
                out["ctor_error"] = rec["ctor_error"]
                done = True
            elif "tracker" in rec:
                tracker = rec["tracker"]
                out["init_actions"] = rec["init_actions"]
                out["init_rel"] = rec.get("init_rel", [])
            elif rec.get("done"):
                done = True
            else:
                out["steps"].append(rec)
    except (OSError, ValueError) as e:
        out["flags"].append("log-unreadable:%s" % e)
    if not done:
        out["flags"].append("client-did-not-finish")
    if tracker:
        try:
            os.kill(tracker, signal.SIGCONT)
        except OSError:
            pass
        t0 = time.time()
        while not proc_gone(tracker) and time.time() - t0 < 20:
            time.sleep(0.002)
        if not proc_gone(tracker):
            out["flags"].append("tracker-still-running-after-20s")
            try:
                os.kill(tracker, signal.SIGKILL)
            except OSError:
                pass
    else:
        out["flags"].append("no-tracker-pid")
    left = []
    for d in sorted(os.listdir(root)) if os.path.isdir(root) else []:
        left.append([d.rsplit("_", 1)[-1], sorted(os.listdir(os.path.join(root, d))) if os.path.isdir(os.path.join(root, d)) else None])
    out["left"] = left
    try:
        out["stderr_tail"] = open(errp, "rb").read().decode("utf-8", "replace")[-600:]
    except OSError:
        pass
    shutil.rmtree(base, ignore_errors=True)
    return out


def main():
    if len(sys.argv) > 1 and sys.argv[1] == "--client":
        root, logp, errp, scp = sys.argv[2:6]
        client(root, logp, errp, json.load(open(scp)))
        return
    scratch = sys.argv[1]
    hangs = 0
    for ln in sys.stdin:
        if not ln.strip():
            continue
        sc = json.loads(ln)
        if hangs >= 2:  # early stop: do not wait for the same time-out hundreds of times
            sys.stdout.write(json.dumps({"skipped": "early stop after 2 time-outs in this stream"}) + "\n")
            sys.stdout.flush()
            continue
        try:
            res = run_scenario(sc, scratch)
            if res.get("flags"):
                hangs += 1
        except Exception as e:  # noqa
            import traceback
            res = {"harness_error": "%s: %s" % (type(e).__name__, e), "tb": traceback.format_exc()[-600:]}
        sys.stdout.write(json.dumps(res) + "\n")
        sys.stdout.flush()


if __name__ == "__main__":
    main()
