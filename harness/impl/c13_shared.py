"""Deterministic payload / file construction shared by the C13 and C14 checks (parent side) and
their implementation runners (child side).  Pure stdlib; does not import joblib."""
import gzip
import hashlib
import zlib

WBITS = {"zlib": zlib.MAX_WBITS, "gzip": 31}


def payload(spec):
    """spec = {"gen": "lcg"|"rep"|"text"|"zeros", "n": int, "seed": int}"""
    n = spec["n"]
    g = spec["gen"]
    if g == "zeros":
        return b"\0" * n
    if g == "run":     # one byte value repeated: compresses > 1000:1, one raw block expands to megabytes
        return bytes([spec.get("seed", 0) % 256]) * n
    if g == "period":  # short period (3..40 bytes), position-sensitive inside the period
        k = 3 + spec.get("seed", 0) % 38
        unit = bytes((i * 89 + spec.get("seed", 0) * 7 + 1) % 256 for i in range(k))
        return (unit * (n // k + 1))[:n]
    if g == "rep":  # highly compressible, period 7, still position-sensitive inside a period
        return bytes((i * 37 + spec.get("seed", 0)) % 7 + 65 for i in range(n))
    if g == "text":  # lines of varying length (for readline)
        out = bytearray()
        x = spec.get("seed", 1) * 2654435761 % (1 << 32)
        while len(out) < n:
            x = (1103515245 * x + 12345) % (1 << 31)
            out += b"l%d" % x * (1 + x % 3) + b"\n" * (1 + (x >> 5) % 2)
        return bytes(out[:n])
    # "lcg": incompressible
    x = (spec.get("seed", 1) * 2654435761 + 1) % (1 << 32)
    out = bytearray(n)
    for i in range(n):
        x = (1664525 * x + 1013904223) % (1 << 32)
        out[i] = x >> 24
    return bytes(out)


def compress(data, fmt, level):
    c = zlib.compressobj(level, zlib.DEFLATED, WBITS[fmt], zlib.DEF_MEM_LEVEL, 0)
    return c.compress(data) + c.flush()


def trailer(spec, data, fmt, level):
    """spec = {"kind": "none"|"bytes"|"stream", "n": int}"""
    k = spec["kind"] if spec else "none"
    if k == "none":
        return b""
    if k == "bytes":
        return bytes((i * 131 + 7) % 256 for i in range(spec["n"]))
    if k == "stream":  # a second valid stream
        return compress(b"second stream " + data[:50], fmt, level)
    raise ValueError(k)


def build_file(case):
    """bytes of the file a read case operates on, and the payload"""
    d = payload(case["payload"])
    raw = compress(d, case["fmt"], case["level"]) + trailer(case.get("trailer"), d, case["fmt"], case["level"])
    if case.get("trunc") is not None:
        raw = raw[:case["trunc"]]
    return raw, d


def short_len(pos, asked, seed):
    """length of the (legal) short read a raw stream returns at file position `pos` when asked for `asked` bytes:
    deterministic in the position, so that the same blocks come back after a rewind"""
    h = (pos * 2654435761 + seed * 40503 + 12345) % (1 << 32)
    cap = [1, 7, 100, 4993, asked, asked][h % 6]
    return 1 + (h >> 5) % max(1, min(asked, cap))


def split_blocks(raw, bufsize, short_seed=None):
    """the raw blocks _fp.read(bufsize) hands out: full blocks for a regular file, any non-empty prefixes for a
    raw stream with short reads"""
    if short_seed is None:
        return [raw[i:i + bufsize] for i in range(0, len(raw), bufsize)]
    blocks, p = [], 0
    while p < len(raw):
        k = short_len(p, bufsize, short_seed)
        blocks.append(raw[p:p + k])
        p += len(blocks[-1])
    return blocks


def script_of(raw, fmt, bufsize, short_seed=None):
    """Feed the file in `bufsize` blocks to a fresh decompressobj, the way _fill_buffer does, and
    record what comes out: the script of the Coq model.  Returns
    {"lens": [output length per stream block], "complete": bool, "unused": int, "extra": [raw lens]}
    and the list of output blocks."""
    d = zlib.decompressobj(WBITS[fmt])
    blocks = split_blocks(raw, bufsize, short_seed)
    outs = []
    k = 0
    while k < len(blocks) and not d.eof:
        outs.append(d.decompress(blocks[k]))
        k += 1
    sc = {"lens": [len(o) for o in outs], "complete": bool(d.eof), "unused": len(d.unused_data),
          "extra": [len(b) for b in blocks[k:]] if d.eof else []}
    return sc, outs, blocks


def sha(b):
    return hashlib.sha1(bytes(b)).hexdigest()[:16]


def std_decode(raw, fmt):
    return zlib.decompress(raw) if fmt == "zlib" else gzip.decompress(raw)


# ------------------------------------------------------------------ readinto targets
# kind -> item size in bytes; the operation's n is always the BYTE length of the target
TARGET_KINDS = {"bytearray": 1, "mv": 1, "mvslice": 1, "arrB": 1, "arrH": 2, "arrI": 4, "arrd": 8, "castH": 2,
                "castI": 4, "castd": 8, "ctypes8": 1, "ctypes16": 2, "ro": 1, "romv": 1}


def make_target(kind, n):
    """a buffer of n bytes (n a multiple of the item size) pre-filled with 0xAA, of the given kind"""
    import array
    import ctypes
    isz = TARGET_KINDS[kind]
    assert n % isz == 0
    fill = b"\xaa" * n
    if kind == "bytearray":
        return bytearray(fill)
    if kind == "mv":
        return memoryview(bytearray(fill))
    if kind == "mvslice":   # a window into a larger bytearray
        return memoryview(bytearray(b"\x55\x55" + fill + b"\x55\x55"))[2:2 + n]
    if kind.startswith("arr"):
        return array.array(kind[3], fill)
    if kind.startswith("cast"):
        return memoryview(bytearray(fill)).cast(kind[4])
    if kind == "ctypes8":
        return (ctypes.c_ubyte * n).from_buffer_copy(fill)
    if kind == "ctypes16":
        return (ctypes.c_uint16 * (n // 2)).from_buffer_copy(fill)
    if kind == "ro":
        return fill                      # bytes: not writable
    if kind == "romv":
        return memoryview(fill)          # read-only memoryview
    raise ValueError(kind)


def target_bytes(t):
    return bytes(t)


# ------------------------------------------------------------------ concurrent writers
def cw_chunks(case):
    """chunks[t][k]: the k-th chunk thread t writes; incompressible (every write makes the compressor emit bytes) and
    tagged so that every chunk is recognisable in the decoded stream"""
    out = []
    for t, sizes in enumerate(case["threads"]):
        row = []
        for k, n in enumerate(sizes):
            body = payload({"gen": "lcg", "n": n, "seed": case.get("seed", 0) * 101 + t * 17 + k})
            row.append(b"<T%d:%d>" % (t, k) + body)
        out.append(row)
    return out
