"""Drive the real AutoBatchingMixin (through ThreadingBackend) with generated duration sequences.
stdin: {"steps": [[reported_batch_size_delta, duration], ...]} per line  (delta 0 = report the current size)
stdout: per line {"sizes": [...], "inputs": [[old, speed, ideal], ...]}  -- speed/ideal are computed here with
the very float expressions of the code, only to feed the Coq model; the sizes come from the implementation."""
import json
import sys

from joblib._parallel_backends import LokyBackend


class FakeParallel:
    verbose = 0

    def _print(self, *a, **k):
        pass


for line in sys.stdin:
    line = line.strip()
    if not line:
        continue
    c = json.loads(line)
    b = LokyBackend()
    b.parallel = FakeParallel()
    sizes, inputs = [], []
    try:
        for delta, dur in c["steps"]:
            b.batch_completed(b._effective_batch_size + delta, dur)
            old = b._effective_batch_size
            d = b._smoothed_batch_duration
            if d > 0 and d < b.MIN_IDEAL_BATCH_DURATION:
                sp, ideal = "TooFast", int(old * b.MIN_IDEAL_BATCH_DURATION / d)
            elif d > b.MAX_IDEAL_BATCH_DURATION:
                sp, ideal = "TooSlow", int(old * b.MIN_IDEAL_BATCH_DURATION / d)
            else:
                sp, ideal = "Fine", 0
            inputs.append([old, sp, ideal])
            sizes.append(b.compute_batch_size())
        r = {"sizes": sizes, "inputs": inputs}
    except BaseException as e:  # noqa
        r = {"harness_error": repr(e), "sizes": sizes, "inputs": inputs}
    sys.stdout.write(json.dumps(r) + "\n")
    sys.stdout.flush()
