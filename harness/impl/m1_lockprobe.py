"""Direct probes of the dispatch lock and of the register-before-submit order (C01 mechanism, C09
"never from two threads at once").  Implementation only, no model.

Probe A (lock): the input iterator blocks inside __next__ (the caller thread is then inside
  dispatch_one_batch, holding Parallel._lock).  Meanwhile another thread delivers the completion of
  an already submitted batch.  Expected: that callback makes NO progress (it waits for the lock), the
  iterator is never entered by two threads, and after the release the call returns the right results.
Probe B (register-before-submit): the backend invokes the completion callback synchronously inside
  submit() (same thread; the lock is re-entrant).  Expected: results still come out in submission
  order, each once.
Probe C: same as B but from another thread while the caller is still inside submit(): the callback
  must wait for the lock (no progress), then everything completes in order.

stdin: {"n_jobs":..,"N":..,"pre":..,"block_at":..,"mode":"ordered"|"unordered"} per line
"""
import json
import sys
import threading
import time

from joblib import Parallel, delayed
from joblib.parallel import ParallelBackendBase


def ident(i):
    return i


class Backend(ParallelBackendBase):
    supports_retrieve_callback = True
    supports_return_generator = True
    uses_threads = True
    supports_sharedmem = True

    def __init__(self, n, sync_submit=None, **kw):
        super().__init__(**kw)
        self.n = n
        self.pending = []
        self.sync_submit = sync_submit
        self.in_submit = threading.Event()
        self.submit_release = threading.Event()
        self.block_submit_at = None
        self.nsub = 0
        self.registered_before_submit = []

    def effective_n_jobs(self, n_jobs):
        return self.n

    def configure(self, n_jobs=1, parallel=None, **kw):
        self.parallel = parallel
        return self.n

    def compute_batch_size(self):
        return 1

    def submit(self, func, callback=None):
        k = self.nsub
        self.nsub += 1
        par = self.parallel
        self.registered_before_submit.append(callback in par._jobs or callback in par._jobs_set)
        self.pending.append((func, callback))
        if self.sync_submit == "same" and k % 2 == 0:
            self.pending.pop()
            callback(func())
        if self.block_submit_at == k:
            self.in_submit.set()
            self.submit_release.wait(10)
        return object()

    def retrieve_result_callback(self, out):
        if isinstance(out, BaseException):
            raise out
        return out

    def abort_everything(self, ensure_ready=True):
        pass

    def complete_all(self, stop):
        while not stop.is_set():
            if self.pending:
                func, cb = self.pending.pop(0)
                cb(func())
            else:
                time.sleep(0.001)


class BlockingInput:
    def __init__(self, n, block_at):
        self.n, self.block_at = n, block_at
        self.i = 0
        self.busy = False
        self.reentered = False
        self.blocked = threading.Event()
        self.release = threading.Event()

    def __iter__(self):
        return self

    def __next__(self):
        if self.busy:
            self.reentered = True
        self.busy = True
        try:
            if self.i >= self.n:
                raise StopIteration
            if self.i == self.block_at:
                self.blocked.set()
                self.release.wait(10)
            k = self.i
            self.i += 1
            return delayed(ident)(k)
        finally:
            self.busy = False


def probe_a(c):
    be = Backend(c["n_jobs"])
    it = BlockingInput(c["N"], c["block_at"])
    p = Parallel(n_jobs=c["n_jobs"], backend=be, batch_size="auto", pre_dispatch=c["pre"],
                 return_as="generator" if c["mode"] == "ordered" else "generator_unordered")
    res = {}

    def consume():
        try:
            res["values"] = list(p(it))
        except BaseException as e:  # noqa
            res["raised"] = repr(e)
    t = threading.Thread(target=consume, daemon=True)
    t.start()
    out = {"probe": "A"}
    # complete batches one by one (keeping one in reserve) until some thread blocks inside __next__
    def early():
        while not it.blocked.is_set() and t.is_alive():
            if len(be.pending) > 1:
                func, cb = be.pending.pop(0)
                cb(func())
            else:
                time.sleep(0.001)
    et = threading.Thread(target=early, daemon=True)
    et.start()
    if not it.blocked.wait(5):
        out["skipped"] = "block position not reached"
    elif not be.pending:
        out["skipped"] = "no batch pending when the iterator blocked"
    progressed = None
    if it.blocked.is_set() and be.pending:
        func, cb = be.pending.pop(0)
        before = (p.n_completed_tasks, cb.status, it.i)
        ct = threading.Thread(target=lambda: cb(func()), daemon=True)
        ct.start()
        ct.join(0.4)
        progressed = {"callback_finished_while_caller_in_next": not ct.is_alive(),
                      "n_completed_changed": p.n_completed_tasks != before[0],
                      "status_changed": cb.status != before[1], "iterator_advanced": it.i != before[2]}
    it.release.set()
    stop = threading.Event()
    th = threading.Thread(target=be.complete_all, args=(stop,), daemon=True)
    th.start()
    t.join(20)
    stop.set()
    out.update({"alive": t.is_alive(), "values": res.get("values"), "raised": res.get("raised"),
                "reentered": it.reentered, "progress": progressed,
                "registered_before_submit": all(be.registered_before_submit)})
    return out


def probe_b(c, how):
    be = Backend(c["n_jobs"], sync_submit="same" if how == "same" else None)
    if how == "other":
        be.block_submit_at = 1
    p = Parallel(n_jobs=c["n_jobs"], backend=be, batch_size="auto", pre_dispatch=c["pre"],
                 return_as="generator" if c["mode"] == "ordered" else "generator_unordered")
    res = {}

    def consume():
        try:
            res["values"] = list(p(delayed(ident)(i) for i in range(c["N"])))
        except BaseException as e:  # noqa
            res["raised"] = repr(e)
    t = threading.Thread(target=consume, daemon=True)
    t.start()
    progressed = None
    if how == "other" and be.in_submit.wait(5) and be.pending:
        func, cb = be.pending.pop(0)
        before = (p.n_completed_tasks, cb.status)
        ct = threading.Thread(target=lambda: cb(func()), daemon=True)
        ct.start()
        ct.join(0.4)
        progressed = {"callback_finished_while_caller_in_submit": not ct.is_alive(),
                      "n_completed_changed": p.n_completed_tasks != before[0], "status_changed": cb.status != before[1]}
    be.submit_release.set()
    stop = threading.Event()
    th = threading.Thread(target=be.complete_all, args=(stop,), daemon=True)
    th.start()
    t.join(20)
    stop.set()
    return {"probe": "B-" + how, "alive": t.is_alive(), "values": res.get("values"), "raised": res.get("raised"),
            "progress": progressed, "registered_before_submit": all(be.registered_before_submit)}


for line in sys.stdin:
    line = line.strip()
    if not line:
        continue
    c = json.loads(line)
    try:
        r = {"case": c, "results": [probe_a(c), probe_b(c, "same"), probe_b(c, "other")]}
    except BaseException as e:  # noqa
        import traceback
        r = {"case": c, "harness_error": repr(e), "tb": traceback.format_exc()}
    sys.stdout.write(json.dumps(r) + "\n")
    sys.stdout.flush()
