"""Implementation side of C19; run with the numpy interpreter (PYTHONPATH=<repo> python3-vt).
stdin: one JSON case per line; stdout: one JSON result per line.

modes
  array  : build an array from (dtype, shape, layout, seed), dump it nested in a container at a given
           protocol / compress form / target, record where write_array / read_array / read_mmap put and
           look for the data (file positions, padding byte, padding, chunk sizes asked from _read_bytes,
           offset handed to make_memmap), load it back under the requested mmap_mode and compare
  reduce : build a memmap and a view of it, run the real _reduce_memmap_backed and report its arguments
           and the view's geometry; rebuild it through _strided_from_memmap (in a throw-away subprocess
           when the geometry says the rebuilt array would address bytes outside its buffer)
  loky   : pass arrays / memmap views to loky workers with a given max_nbytes and report what the task saw
"""
import hashlib
import io
import json
import os
import pickle
import random
import shutil
import subprocess
import sys
import tempfile
import warnings

import numpy as np

import joblib
from joblib import numpy_pickle, numpy_pickle_utils
from joblib import _memmapping_reducer as mr

try:
    from numpy.lib.array_utils import byte_bounds
except Exception:  # noqa
    from numpy import byte_bounds

TMP = tempfile.mkdtemp(prefix="verif-c19-")
A = numpy_pickle.NUMPY_ARRAY_ALIGNMENT_BYTES

# ------------------------------------------------------------------ recording
REC = {"w": [], "r": [], "mm": [], "reads": []}
_orig_write = numpy_pickle.NumpyArrayWrapper.write_array
_orig_read_array = numpy_pickle.NumpyArrayWrapper.read_array
_orig_read_mmap = numpy_pickle.NumpyArrayWrapper.read_mmap
_orig_read_bytes = numpy_pickle._read_bytes
_orig_make_memmap = numpy_pickle.make_memmap


def _w(self, array, pickler):
    try:
        pos = pickler.file_handle.tell()
    except Exception:  # noqa
        pos = None
    r = _orig_write(self, array, pickler)
    try:
        end = pickler.file_handle.tell()
    except Exception:  # noqa
        end = None
    REC["w"].append({"pos": pos, "end": end, "order": self.order, "allow_mmap": self.allow_mmap,
                     "align": self.safe_get_numpy_array_alignment_bytes(), "hasobject": bool(array.dtype.hasobject),
                     "nbytes": int(array.nbytes), "itemsize": int(array.itemsize),
                     "f": bool(array.flags.f_contiguous), "c": bool(array.flags.c_contiguous)})
    return r


def _ra(self, unpickler, ensure_native_byte_order):
    REC["r"].append({"kind": "read_array", "pos": unpickler.file_handle.tell(), "reads": []})
    return _orig_read_array(self, unpickler, ensure_native_byte_order)


def _rm(self, unpickler):
    REC["r"].append({"kind": "read_mmap", "pos": unpickler.file_handle.tell()})
    r = _orig_read_mmap(self, unpickler)
    REC["r"][-1]["end"] = unpickler.file_handle.tell()
    return r


def _rb(fp, size, error_template="ran out of data"):
    if REC["r"] and REC["r"][-1]["kind"] == "read_array":
        REC["r"][-1]["reads"].append([fp.tell(), size])
    return _orig_read_bytes(fp, size, error_template)


def _mkmm(filename, **kw):
    if REC["r"] and REC["r"][-1]["kind"] == "read_mmap":
        REC["r"][-1]["offset"] = kw.get("offset")
        REC["r"][-1]["mode"] = kw.get("mode")
        REC["r"][-1]["order"] = kw.get("order")
    return _orig_make_memmap(filename, **kw)


numpy_pickle.NumpyArrayWrapper.write_array = _w
numpy_pickle.NumpyArrayWrapper.read_array = _ra
numpy_pickle.NumpyArrayWrapper.read_mmap = _rm
numpy_pickle._read_bytes = _rb
numpy_pickle.make_memmap = _mkmm


class MyArr(np.ndarray):
    """an ndarray subclass that is not intercepted by NumpyPickler.save (plain pickle path)"""
    pass


def _fields(fs):
    out = []
    for x in fs:
        t = mk_dtype(x[1]) if isinstance(x[1], (list, dict)) else x[1]
        out.append((x[0], t) + ((tuple(x[2]),) if len(x) > 2 else ()))
    return out


def mk_dtype(spec):
    if isinstance(spec, dict):
        return np.dtype(_fields(spec["fields"]), align=spec.get("align", False))
    if isinstance(spec, list):
        return np.dtype(_fields(spec))
    return np.dtype(spec)


def has_holes(dt):
    """does the dtype contain bytes that belong to no field (padding of aligned structs, offsets with gaps)?"""
    if dt.subdtype is not None:
        return has_holes(dt.subdtype[0])
    if not dt.names:
        return False
    covered = 0
    for nm in dt.names:
        fdt = dt.fields[nm][0]
        if has_holes(fdt):
            return True
        covered += fdt.itemsize
    return covered != dt.itemsize


def canon_bytes(x):
    """element bytes.  Hole-free dtypes: the raw bytes, exactly.  Structured dtypes with padding holes: the
    fields repacked (the hole bytes are not element content; numpy copies whatever the source buffer holds)"""
    x = np.asarray(x)
    if x.dtype.names and has_holes(x.dtype):
        from numpy.lib import recfunctions as rfn
        x = rfn.repack_fields(np.ascontiguousarray(x), recurse=True)
    return x.tobytes()


def same_region(body, src, order):
    """the file's data region vs the array written in `order`"""
    if not has_holes(src.dtype):
        return body == src.tobytes(order)
    if len(body) != src.nbytes:
        return False
    flat = np.frombuffer(body, dtype=src.dtype, count=src.size)
    want = np.frombuffer(src.tobytes(order), dtype=src.dtype, count=src.size)
    return canon_bytes(flat) == canon_bytes(want)


def fill(dt, n, rng):
    """n elements of dtype dt with reproducible contents"""
    if dt.hasobject:
        pool = [None, 1, "s", (1, 2), 2.5, b"b", [1]]
        a = np.empty(n, dtype=dt)
        if dt.names:
            for nm in dt.names:
                fdt = dt[nm]
                if fdt.names:                                  # nested struct (with or without object fields)
                    a[nm] = fill(fdt, n, rng)
                elif fdt.subdtype is not None:                 # sub-array field
                    base, shp = fdt.subdtype
                    cnt = int(np.prod(shp))
                    a[nm] = fill(base, n * cnt, rng).reshape((n,) + shp)
                elif fdt.hasobject:
                    col = np.empty(n, dtype=object)
                    for i in range(n):
                        col[i] = rng.choice(pool)
                    a[nm] = col
                else:
                    a[nm] = fill(fdt, n, rng)
        else:
            for i in range(n):
                a[i] = rng.choice(pool)
        return a
    if dt.kind == "U":
        k = max(dt.itemsize // 4, 1)
        return np.array(["".join(rng.choice("abé中\U0001F600z") for _ in range(rng.randrange(0, k + 1))) for _ in range(n)] + [""],
                        dtype=dt)[:n]
    if dt.kind == "b":
        return np.array([rng.random() < 0.5 for _ in range(n)], dtype=dt)
    raw = bytes(rng.randrange(256) for _ in range(min(n * dt.itemsize, 4096)))
    if n * dt.itemsize > len(raw):
        raw = (raw * (n * dt.itemsize // max(len(raw), 1) + 1))[: n * dt.itemsize]
    if dt.itemsize == 0:
        return np.empty(n, dtype=dt)
    a = np.frombuffer(raw, dtype=dt, count=n).copy()
    if dt.names:
        for nm in dt.names:
            if dt[nm].kind == "b" or (dt[nm].subdtype and dt[nm].subdtype[0].kind == "b"):
                a[nm] = a[nm].view(np.uint8) & 1
            if dt[nm].kind == "U":
                a[nm] = fill(dt[nm], n, rng)
    return a


def build(c, rng, workdir):
    dt = mk_dtype(c["dtype"])
    shape = tuple(c["shape"])
    n = int(np.prod(shape, dtype=np.int64)) if shape else 1
    lay = c["layout"]
    if lay == "strided":
        if not shape:
            return fill(dt, 1, rng).reshape(())
        shp2 = (2 * shape[0] + 1,) + shape[1:]
        nn = int(np.prod(shp2, dtype=np.int64))
        return fill(dt, nn, rng).reshape(shp2)[::2][: shape[0]]
    if lay == "zeros":                   # several MiB of zeros: one 8 KiB block of the zlib/gzip file inflates to MiBs
        return np.zeros(shape, dtype=dt)
    base = fill(dt, n, rng).reshape(shape)
    if lay == "C":
        return base
    if lay == "F":
        return np.asfortranarray(base)
    if lay == "T":
        return base.T
    if lay == "neg":
        return base[::-1] if shape else base
    if lay == "broadcast":
        return np.broadcast_to(base, (3,) + shape)
    if lay == "matrix":
        return np.matrix(base.reshape(shape if len(shape) == 2 else (1, n)))
    if lay == "subclass":
        return base.view(MyArr)
    if lay in ("memmap", "memmapF", "memmap_view"):
        p = os.path.join(workdir, "src.mmap")
        off = c.get("mm_offset", 0)
        with open(p, "wb") as f:
            f.write(b"\x00" * (off + max(base.nbytes, 1)))
        if base.nbytes == 0:
            return base
        m = np.memmap(p, dtype=dt, mode="r+", shape=shape, offset=off, order="F" if lay == "memmapF" else "C")
        m[...] = base
        m.flush()
        if lay == "memmap_view" and shape:
            return m[1:] if shape[0] > 1 else m
        return m
    raise ValueError(lay)


def mk_form(f):
    if f is None or isinstance(f, (bool, int, str)):
        return f
    return tuple(f)


def digest(a):
    a = np.asarray(a)
    if a.dtype.hasobject:
        return hashlib.md5(repr(a.tolist()).encode("utf-8", "backslashreplace")).hexdigest()
    return hashlib.md5(canon_bytes(np.ascontiguousarray(a))).hexdigest()


def native(dt):
    return dt.newbyteorder("=")


def compare(a, back, strict_dtype):
    """a: original array, back: loaded one"""
    if type(back) is not type(a) and not (type(a) is np.memmap and type(back) is np.ndarray) \
            and not (isinstance(back, np.memmap) and type(a) in (np.ndarray, np.matrix)):
        return "type %s -> %s" % (type(a).__name__, type(back).__name__)
    if back.shape != a.shape:
        return "shape %s -> %s" % (a.shape, back.shape)
    if a.dtype.hasobject:
        # pickled by numpy: the byte order of non-object fields is normalised; elements are compared by value
        if native(back.dtype) != native(a.dtype):
            return "dtype %s -> %s" % (a.dtype, back.dtype)
        if repr(a.tolist()) != repr(back.tolist()):
            return "object elements differ"
    elif strict_dtype or a.dtype == native(a.dtype):
        if back.dtype != a.dtype:
            return "dtype %s -> %s" % (a.dtype, back.dtype)
        if a.dtype.hasobject:
            if repr(a.tolist()) != repr(back.tolist()):          # repr: nan == nan, no identity effects
                return "object elements differ"
        elif canon_bytes(a) != canon_bytes(back):
            return "element bytes differ"
    else:
        if native(back.dtype) != native(a.dtype):
            return "dtype %s -> %s (beyond byte order)" % (a.dtype, back.dtype)
        if canon_bytes(np.asarray(back).astype(a.dtype)) != canon_bytes(a):
            return "element values differ after byte order normalisation"
    if a.ndim > 1 and a.size > 1 and not a.dtype.hasobject:
        want_f = bool(a.flags.f_contiguous and not a.flags.c_contiguous)
        got_f = bool(back.flags.f_contiguous and not back.flags.c_contiguous)
        if want_f != got_f:
            return "memory order changed (F-contiguous %s -> %s)" % (want_f, got_f)
    return None


def run_array(c):
    rng = random.Random(c["seed"])
    wd = tempfile.mkdtemp(dir=TMP)
    for k in REC:
        REC[k] = []
    out = {}
    try:
        a = build(c, rng, wd)
        out["geom"] = {"dtype": a.dtype.str if not a.dtype.names else str(a.dtype), "itemsize": int(a.itemsize),
                       "shape": list(a.shape), "c": bool(a.flags.c_contiguous), "f": bool(a.flags.f_contiguous),
                       "nbytes": int(a.nbytes), "type": type(a).__name__, "hasobject": bool(a.dtype.hasobject)}
        filler = c.get("filler", 0)
        obj = ["x" * filler, a, {"again": a, "n": 7}] if c.get("nested", True) else a
        tk = c["target"]
        path = os.path.join(wd, c.get("name", "arr.pkl"))
        form = mk_form(c.get("form", 0))
        try:
            if tk == "path":
                joblib.dump(obj, path, compress=form, protocol=c.get("proto"))
            elif tk == "raw":
                with open(path, "wb") as f:
                    joblib.dump(obj, f, compress=form, protocol=c.get("proto"))
            elif tk in ("zlibfile", "gzipfile"):
                # joblib's own file object handed DIRECTLY to dump as the target (NumpyPickler.buffered is true,
                # allow_mmap false); compress=0: the file object does the compression
                from joblib import compressor as jc
                cls = jc.BinaryZlibFile if tk == "zlibfile" else jc.BinaryGzipFile
                fz = cls(path, "wb", compresslevel=3)
                try:
                    joblib.dump(obj, fz, compress=0, protocol=c.get("proto"))
                    out["target_closed_by_dump"] = fz.closed
                finally:
                    fz.close()
            else:
                bio = io.BytesIO()
                joblib.dump(obj, bio, compress=form, protocol=c.get("proto"))
        except Exception as e:  # noqa
            out["dump_raise"] = type(e).__name__ + ": " + str(e)[:120]
            return out
        out["writes"] = REC["w"]
        data = bio.getvalue() if tk == "bytesio" else open(path, "rb").read()
        out["file_len"] = len(data)
        # parse the layout at the recorded positions (uncompressed files only)
        compressed = numpy_pickle_utils._detect_compressor(io.BytesIO(data[:16])) != "not-compressed"
        out["compressed"] = compressed
        if not compressed:
            lay = []
            src = np.asarray(a)
            for w in REC["w"]:
                if w["hasobject"] and w["pos"] is not None:
                    out.setdefault("object_payload_heads", []).append(data[w["pos"]: w["pos"] + 2].hex())
                if w["hasobject"] or w["pos"] is None or w["align"] is None:
                    lay.append(None)
                    continue
                pos = w["pos"]
                b = data[pos]
                padding = data[pos + 1: pos + 1 + b]
                start = pos + 1 + b
                body = data[start: start + w["nbytes"]]
                lay.append({"pos": pos, "pad_byte": b, "padding_all_ff": padding == b"\xff" * b,
                            "data_start": start, "end": w["end"],
                            "data_ok": same_region(body, src, "F" if w["order"] == "F" else "C"),
                            "head": data[pos: pos + 1 + b + 4].hex()})
            out["layout"] = lay
        # load
        mm = c.get("mmap_mode")
        enb = c.get("ensure_native", "auto")
        try:
            with warnings.catch_warnings(record=True) as ws:
                warnings.simplefilter("always")
                if tk == "bytesio":
                    bio.seek(0)
                    back = joblib.load(bio, mmap_mode=mm, ensure_native_byte_order=enb)
                elif c.get("load_via") == "fileobj":
                    with open(path, "rb") as f:
                        back = joblib.load(f, mmap_mode=mm, ensure_native_byte_order=enb)
                elif c.get("load_via") == "jfile" and tk in ("zlibfile", "gzipfile"):
                    from joblib import compressor as jc
                    fz = (jc.BinaryZlibFile if tk == "zlibfile" else jc.BinaryGzipFile)(path, "rb")
                    try:
                        back = joblib.load(fz, mmap_mode=mm, ensure_native_byte_order=enb)
                    finally:
                        fz.close()
                else:
                    back = joblib.load(path, mmap_mode=mm, ensure_native_byte_order=enb)
            out["warnings"] = sorted(set(type(w.message).__name__ for w in ws))
        except Exception as e:  # noqa
            out["load_raise"] = type(e).__name__ + ": " + str(e)[:160]
            return out
        out["reads"] = REC["r"]
        if c.get("nested", True):
            if not (isinstance(back, list) and len(back) == 3 and back[0] == "x" * filler and back[2]["n"] == 7):
                out["diff"] = "container damaged"
                return out
            b1, b2 = back[1], back[2]["again"]
            out["alias_kept"] = b1 is b2
        else:
            b1 = b2 = back
        # arrays that numpy pickles itself (subclasses joblib does not intercept, object arrays) are normalised to
        # the native byte order by numpy's own __reduce__: values are compared, not the byte order
        by_numpy = type(a).__name__ == "MyArr" or a.dtype.hasobject
        strict = ((enb is False) or (mm is not None)) and not by_numpy
        if not isinstance(b1, np.ndarray) or not isinstance(b2, np.ndarray):
            out["diff"] = "loaded object is a %s, not an array" % type(b1).__name__
            return out
        d = compare(a, b1, strict) or compare(a, b2, strict)
        out["diff"] = d
        out["loaded_type"] = type(b1).__name__
        if mm is not None:
            out["mm"] = {"is_memmap": isinstance(b1, np.memmap), "aligned": (b1.ctypes.data % A == 0) if b1.size else True,
                         "offset": int(getattr(b1, "offset", -1)), "mode": getattr(b1, "mode", None),
                         "writeable": bool(b1.flags.writeable)}
            del b1, b2, back
        return out
    finally:
        import gc
        gc.collect()
        shutil.rmtree(wd, ignore_errors=True)


# ------------------------------------------------------------------ memmap reducer
def apply_view(m, ops):
    a = m
    for op in ops:
        if op[0] == "slice":
            a = a[tuple(slice(*s) if isinstance(s, list) else s for s in op[1])]
        elif op[0] == "T":
            a = a.T
        elif op[0] == "perm":                     # axes permuted: gap-free in memory but neither C- nor F-contiguous
            a = a.transpose(op[1]) if a.ndim == len(op[1]) else a
        elif op[0] == "field":
            a = a[op[1]]
        elif op[0] == "asarray":
            a = np.asarray(a)
        elif op[0] == "newaxis":
            a = a[np.newaxis]
    return a


REBUILD = r"""
import sys, json, pickle, numpy as np
sys.path.insert(0, %r)
from joblib._memmapping_reducer import _strided_from_memmap
args = pickle.loads(bytes.fromhex(sys.argv[1]))
r = _strided_from_memmap(*args)
print(json.dumps(np.asarray(r).tolist()))
"""


def run_reduce(c):
    wd = tempfile.mkdtemp(dir=TMP)
    try:
        dt = mk_dtype(c["dtype"])
        shape = tuple(c["shape"])
        p = os.path.join(wd, "m.bin")
        off = c.get("mm_offset", 0)
        n = int(np.prod(shape))
        with open(p, "wb") as f:
            f.write(b"\x07" * (off + n * dt.itemsize + c.get("tail", 0)))
        m = np.memmap(p, dtype=dt, mode="r+", shape=shape, offset=off, order=c.get("order", "C"))
        flat = np.arange(n)
        if dt.names:
            for nm in dt.names:
                m[nm] = (flat * 3 + 1).reshape(shape, order=c.get("order", "C")).astype(dt[nm])
        else:
            m[...] = (flat * 3 + 1).reshape(shape, order=c.get("order", "C")).astype(dt)
        m.flush()
        a = apply_view(m, c["ops"])
        backing = mr._get_backing_memmap(a)
        out = {"has_backing": backing is not None}
        if backing is None:
            return out
        f, args = mr._reduce_memmap_backed(a, backing)
        fname, adt, mode, offset, order, ashape, strides, total, unlink = args
        a_start, a_end = byte_bounds(a)
        m_start = byte_bounds(backing)[0]
        out.update({
            "args": {"offset": int(offset), "order": order, "shape": [int(x) for x in ashape],
                     "strides": None if strides is None else [int(x) for x in strides],
                     "total": None if total is None else int(total), "mode": mode},
            "view": {"ptr": int(a.__array_interface__["data"][0] - m_start), "shape": [int(x) for x in a.shape],
                     "strides": [int(x) for x in a.strides], "itemsize": int(a.itemsize),
                     "c": bool(a.flags.c_contiguous), "f": bool(a.flags.f_contiguous), "size": int(a.size)},
            "backing": {"offset": int(backing.offset), "f": bool(backing.flags.f_contiguous),
                        "file_len": os.path.getsize(p)},
            "bounds": [int(a_start - m_start), int(a_end - m_start)],
            "expected": np.asarray(a).tolist(),
        })
        # rebuild in a throw-away interpreter (the arithmetic may address bytes outside the buffer)
        if c.get("rebuild", True):
            try:
                pr = subprocess.run([sys.executable, "-c", REBUILD % os.environ.get("PYTHONPATH", "").split(os.pathsep)[0],
                                     pickle.dumps(args).hex()], stdout=subprocess.PIPE, stderr=subprocess.PIPE,
                                    text=True, timeout=60)
                if pr.returncode != 0:
                    out["rebuild"] = {"crash": pr.returncode, "err": pr.stderr[-200:]}
                else:
                    out["rebuild"] = {"values": json.loads(pr.stdout)}
            except subprocess.TimeoutExpired:
                out["rebuild"] = {"crash": "timeout"}
        return out
    finally:
        shutil.rmtree(wd, ignore_errors=True)


# ------------------------------------------------------------------ loky workers
def _task(x):
    base = x
    chain = []
    while base is not None and len(chain) < 6:
        chain.append(type(base).__name__)
        base = getattr(base, "base", None)
    return {"digest": digest(x), "dtype": str(x.dtype), "shape": list(x.shape), "chain": chain,
            "memmap": any(t == "memmap" for t in chain), "f": bool(x.flags.f_contiguous), "c": bool(x.flags.c_contiguous)}


def run_loky(c):
    from joblib import Parallel, delayed
    wd = tempfile.mkdtemp(dir=TMP)
    try:
        rng = random.Random(c["seed"])
        arrays = []
        for spec in c["arrays"]:
            if spec.get("reduce"):
                dt = mk_dtype(spec["dtype"])
                shape = tuple(spec["shape"])
                p = os.path.join(wd, "m%d.bin" % len(arrays))
                m = np.memmap(p, dtype=dt, mode="w+", shape=shape, order=spec.get("order", "C"))
                m[...] = np.arange(int(np.prod(shape))).reshape(shape).astype(dt)
                m.flush()
                arrays.append(apply_view(m, spec["ops"]))
            else:
                arrays.append(build(spec, rng, wd))
        want = [{"digest": digest(x), "dtype": str(x.dtype), "shape": list(x.shape), "nbytes": int(x.nbytes)} for x in arrays]
        seq = [_task(x) for x in arrays]
        try:
            got = Parallel(n_jobs=2, max_nbytes=c["max_nbytes"], backend="loky", timeout=120)(delayed(_task)(x) for x in arrays)
        except Exception as e:  # noqa
            return {"want": want, "parallel_raise": "%s: %s" % (type(e).__name__, str(e)[:160])}
        return {"want": want, "got": got, "seq": seq}
    finally:
        shutil.rmtree(wd, ignore_errors=True)


def _task_mode(x, root):
    d = _task(x)
    n = 0
    for _dp, _dn, fn in os.walk(root):
        n += len(fn)
    d["temp_files"] = n
    return d


def run_loky_mode(c):
    """automatic memmapping with an explicit mmap_mode (None = "disable memmapping"), given as an argument or through
    parallel_config, on loky / multiprocessing, managed or not; the call has a timeout so that a hang is an outcome"""
    from joblib import Parallel, delayed, parallel_config
    import contextlib
    wd = tempfile.mkdtemp(dir=TMP)
    root = os.path.join(wd, "tf")
    os.makedirs(root)
    try:
        rng = random.Random(c["seed"])
        arrays = [build(spec, rng, wd) for spec in c["arrays"]]
        want = [{"digest": digest(x), "dtype": str(x.dtype), "shape": list(x.shape), "nbytes": int(x.nbytes)} for x in arrays]
        kw = {"n_jobs": 2, "max_nbytes": c["max_nbytes"], "backend": c["backend"], "timeout": c.get("timeout", 40),
              "temp_folder": root}
        ctxm = contextlib.nullcontext()
        if c["mode_given"] == "argument":
            kw["mmap_mode"] = c["mmap_mode"]
        elif c["mode_given"] == "config":
            ctxm = parallel_config(mmap_mode=c["mmap_mode"])
        rounds = []
        try:
            with ctxm:
                if c.get("managed"):
                    with Parallel(**kw) as p:
                        for _ in range(2):
                            rounds.append(p(delayed(_task_mode)(x, root) for x in arrays))
                else:
                    p = Parallel(**kw)
                    for _ in range(2):
                        rounds.append(p(delayed(_task_mode)(x, root) for x in arrays))
        except BaseException as e:  # noqa  (TimeoutError, BrokenProcessPool, ...)
            return {"want": want, "parallel_raise": "%s: %s" % (type(e).__name__, str(e)[:160]), "rounds_done": len(rounds)}
        return {"want": want, "rounds": rounds}
    finally:
        shutil.rmtree(wd, ignore_errors=True)


def _task_seq(x, k):
    m = mr._get_backing_memmap(x)
    d = {"digest": digest(x), "first": repr(x.flat[0]), "memmap": m is not None, "mode": getattr(m, "mode", None),
         "writeable": bool(x.flags.writeable), "k": k}
    if x.flags.writeable:
        x.flat[0] = 99          # an in-place write by the task: must never reach the caller's array
    return d


def run_loky_seq(c):
    """a SEQUENCE of Parallel calls in one process, each with its own (mmap_mode, max_nbytes): every call must get the
    reducers of ITS settings"""
    from joblib import Parallel, delayed
    dt = mk_dtype(c["dtype"])
    shape = tuple(c["shape"])
    x = (np.arange(int(np.prod(shape))).reshape(shape) % 50).astype(dt)
    orig = x.copy()
    steps = []
    try:
        for st in c["steps"]:
            kw = {"n_jobs": 2, "backend": c.get("backend", "loky"), "max_nbytes": st["max_nbytes"], "timeout": 60}
            if st["mmap_mode"] != "default":
                kw["mmap_mode"] = st["mmap_mode"]
            got = Parallel(**kw)(delayed(_task_seq)(x, k) for k in range(st.get("tasks", 4)))
            steps.append({"got": got, "caller_array_intact": bool(np.array_equal(x, orig)), "nbytes": int(x.nbytes),
                          "want_digest": digest(orig), "want_first": repr(orig.flat[0])})
    except BaseException as e:  # noqa
        return {"steps": steps, "parallel_raise": "%s: %s" % (type(e).__name__, str(e)[:160])}
    return {"steps": steps}


def run_reuse_race(c):
    """deterministic witness of finding F54: ONE unmanaged Parallel object, ONE array, repeated calls; the resource
    tracker is made to lag (SIGSTOP) so that the unlink of the previous call's temporary file is still pending when the
    next call looks for its file: the file is found by name and REUSED although the array was changed in place"""
    import signal
    from joblib import Parallel, delayed
    from joblib.externals.loky.backend.resource_tracker import _resource_tracker
    p = Parallel(n_jobs=2, max_nbytes=0, timeout=90)
    x = np.zeros(c.get("n", 5000))
    out = {"calls": []}
    out["calls"].append({"want": 0.0, "got": [g["first"] for g in p(delayed(_summary)(x) for _ in range(4))]})
    _resource_tracker.ensure_running()
    pid = _resource_tracker._pid
    os.kill(pid, signal.SIGSTOP)
    try:
        for value in (3.0, 7.0):
            x[:] = value
            try:
                got = [g["first"] for g in p(delayed(_summary)(x) for _ in range(4))]
                out["calls"].append({"want": value, "got": got})
            except BaseException as e:  # noqa
                out["calls"].append({"want": value, "raise": "%s: %s" % (type(e).__name__, str(e)[:120]),
                                     "cause": repr(getattr(e, "__cause__", None))[-400:]})
                break
    finally:
        os.kill(pid, signal.SIGCONT)
    return out


# ------------------------------------------------------------------ load() dispatch matrix
class OtherReader:
    """a readable, seekable, peekable object that is neither a raw file nor a BytesIO"""

    def __init__(self, data):
        self._f = io.BufferedReader(io.BytesIO(data))

    def __getattr__(self, n):
        if n == "raw" or n == "name":
            raise AttributeError(n)
        return getattr(self._f, n)


def classify_warning(w):
    msg = str(w.message)
    if "In memory persistence is not compatible" in msg:
        return "bytesio"
    if "is not compatible with compressed file" in msg:
        return "compressed"
    if "is not a raw file" in msg:
        return "notraw"
    return type(w.message).__name__ + ":" + msg[:60]


def run_loadmatrix(c):
    """every (source kind x mmap_mode x ensure_native_byte_order) for one compress form and one payload"""
    wd = tempfile.mkdtemp(dir=TMP)
    try:
        kind = c["payload"]
        if kind == "array":
            obj = np.arange(6, dtype=">i4").reshape(2, 3)
        elif kind == "object":
            obj = np.array([1, "a", None], dtype=object)
        else:
            obj = {"k": [1, 2.5, "x"]}
        path = os.path.join(wd, "f.bin")
        joblib.dump(obj, path, compress=mk_form(c["form"]))
        data = open(path, "rb").read()
        res = []
        for sk in ("path", "pathlib", "rawfile", "bytesio", "other"):
            for mm in (None, "r", "r+", "c", "w+"):
                for na in ("auto", True, False):
                    shutil.copyfile(path, path + ".work")
                    import pathlib
                    opened = None
                    if sk == "path":
                        src = path + ".work"
                    elif sk == "pathlib":
                        src = pathlib.Path(path + ".work")
                    elif sk == "rawfile":
                        src = opened = open(path + ".work", "rb")
                    elif sk == "bytesio":
                        src = io.BytesIO(data)
                    else:
                        src = OtherReader(data)
                    r = {"src": sk, "mmap": mm, "native": na}
                    try:
                        with warnings.catch_warnings(record=True) as ws:
                            warnings.simplefilter("always")
                            back = joblib.load(src, mmap_mode=mm, ensure_native_byte_order=na)
                        r["warn"] = sorted(set(classify_warning(w) for w in ws))
                        if kind == "array":
                            r["memmap"] = isinstance(back, np.memmap)
                            r["native_applied"] = back.dtype.str == "<i4"
                            r["ok"] = back.tolist() == obj.tolist() and back.shape == obj.shape
                        elif kind == "object":
                            r["memmap"] = isinstance(back, np.memmap)
                            r["ok"] = back.tolist() == obj.tolist()
                        else:
                            r["ok"] = back == obj
                        del back
                    except Exception as e:  # noqa
                        r["raise"] = type(e).__name__
                    finally:
                        if opened is not None:
                            opened.close()
                    res.append(r)
        return {"res": res}
    finally:
        import gc
        gc.collect()
        shutil.rmtree(wd, ignore_errors=True)


# ------------------------------------------------------------------ which reduction an array takes
def run_route(c):
    wd = tempfile.mkdtemp(dir=TMP)
    try:
        rng = random.Random(c["seed"])
        if c["array"].get("reduce"):
            spec = c["array"]
            dt = mk_dtype(spec["dtype"])
            shape = tuple(spec["shape"])
            m = np.memmap(os.path.join(wd, "m.bin"), dtype=dt, mode="w+", shape=shape, order=spec.get("order", "C"))
            a = apply_view(m, spec["ops"])
        else:
            a = build(c["array"], rng, wd)
        folder = os.path.join(wd, "pool")
        red = mr.ArrayMemmapForwardReducer(c["max_nbytes"], lambda: folder, c.get("mmap_mode", "r"), False, prewarm=False)
        names = {"_strided_from_memmap": "reduce_backed", "load_temporary_memmap": "dump_temp", "loads": "pickle"}
        out = {"nbytes": int(a.nbytes), "hasobject": bool(a.dtype.hasobject),
               "has_backing": mr._get_backing_memmap(a) is not None}
        out["dtype_kind"] = ord(a.dtype.kind)
        try:
            f = red(a)
        except Exception as e:  # noqa
            out["forward_raise"] = "reducing: %s: %s" % (type(e).__name__, str(e)[:120])
            return out
        out["forward"] = names.get(getattr(f[0], "__name__", "?"), getattr(f[0], "__name__", "?"))
        try:
            back = f[0](*f[1])           # what the worker does with the reduction
        except Exception as e:  # noqa
            out["forward_raise"] = "rebuilding in the worker's way (%s): %s: %s" % (out["forward"], type(e).__name__, str(e)[:120])
            return out
        # a pickled array is normalised to the native byte order by numpy itself: values are compared
        out["forward_ok"] = compare(a, back, out["forward"] != "pickle") is None
        out["forward_memmap"] = mr._get_backing_memmap(back) is not None
        # the way back: a joblib temporary memmap is pickled, a user memmap is re-mapped
        b = mr.reduce_array_memmap_backward(back)
        out["backward"] = names.get(getattr(b[0], "__name__", "?"), getattr(b[0], "__name__", "?"))
        out["backward_is_joblib_temp"] = out["forward"] == "dump_temp"
        del back
        return out
    finally:
        import gc
        gc.collect()
        mr.JOBLIB_MMAPS.clear()
        shutil.rmtree(wd, ignore_errors=True)


def _summary(x):
    return {"first": repr(x.flat[0]) if x.size else None, "last": repr(x.flat[-1]) if x.size else None,
            "digest": digest(x), "shape": list(x.shape), "dtype": str(x.dtype),
            "memmap": mr._get_backing_memmap(x) is not None}


def run_loky_loop(c):
    """SEVERAL calls on ONE managed Parallel object (its temporary folder outlives a call); every call gets a FRESH
    large array of the same shape and dtype with other contents, the previous one having been dropped and collected"""
    import gc
    from joblib import Parallel, delayed
    dt = mk_dtype(c["dtype"])
    shape = tuple(c["shape"])
    rows, addr_reused, seen = [], 0, set()
    if c.get("unmanaged"):
        # ONE Parallel object called several times OUTSIDE a with block, ONE array object mutated in place between
        # the calls (same id, same temporary file name), several tasks per worker per call
        try:
            parallel = Parallel(n_jobs=2, max_nbytes=c["max_nbytes"], backend=c.get("backend", "loky"), timeout=120)
            x = np.zeros(shape, dtype=dt)
            if c.get("order") == "F":
                x = np.asfortranarray(x)
            for it in range(c["iterations"]):
                x[...] = (np.arange(int(np.prod(shape))).reshape(shape) % 7 + 7 * it).astype(dt) if c["fill"] == "arange" \
                    else np.full(shape, 7 * it).astype(dt)
                want = {"digest": digest(x), "first": repr(x.flat[0]), "last": repr(x.flat[-1])}
                got = parallel(delayed(_summary)(x) for _ in range(c.get("tasks", 6)))
                rows.append({"it": it, "want": want, "got": got})
                del got
                gc.collect()
        except Exception as e:  # noqa
            return {"rows": rows, "parallel_raise": "%s: %s" % (type(e).__name__, str(e)[:160]),
                    "cause": repr(getattr(e, "__cause__", None))[-600:]}
        return {"rows": rows, "addresses_reused": 0}
    try:
        with Parallel(n_jobs=2, max_nbytes=c["max_nbytes"], backend=c.get("backend", "loky"), timeout=120) as parallel:
            for it in range(c["iterations"]):
                if c["fill"] == "full":
                    x = np.full(shape, it + 1).astype(dt)
                else:
                    x = (np.arange(int(np.prod(shape))).reshape(shape) * (it + 1) + it).astype(dt)
                if c.get("order") == "F":
                    x = np.asfortranarray(x)
                addr_reused += id(x) in seen
                seen.add(id(x))
                want = {"digest": digest(x), "first": repr(x.flat[0]), "last": repr(x.flat[-1])}
                got = parallel(delayed(_summary)(x) for _ in range(c.get("tasks", 2)))
                rows.append({"it": it, "want": want, "got": got})
                del x, got
                gc.collect()
    except Exception as e:  # noqa
        return {"rows": rows, "parallel_raise": "%s: %s" % (type(e).__name__, str(e)[:160])}
    return {"rows": rows, "addresses_reused": addr_reused}


def main():
    try:
        for line in sys.stdin:
            line = line.strip()
            if not line:
                continue
            c = json.loads(line)
            try:
                r = {"array": run_array, "reduce": run_reduce, "loky": run_loky, "loadmatrix": run_loadmatrix,
                     "route": run_route, "loky_loop": run_loky_loop, "loky_mode": run_loky_mode, "loky_seq": run_loky_seq, "reuse_race": run_reuse_race}[c["mode"]](c)
            except BaseException as e:  # harness-level failure is reported, not hidden
                import traceback
                r = {"harness_error": repr(e), "tb": traceback.format_exc()[-800:]}
            sys.stdout.write(json.dumps(r, default=str) + "\n")
            sys.stdout.flush()
    finally:
        shutil.rmtree(TMP, ignore_errors=True)


if __name__ == "__main__":
    main()
