"""Unit-level driver for MemorizedFunc._check_previous_func_code (slow path) -- C12 stage "codecheck".

stdin: one JSON case per line; stdout: one JSON result per line.
case = {"kind": "def"|"lambda"|"sourceless"|"doctest", "pad": n,
        "stored": null | {"hdr": null|"trunc"|"cur"|"other"|"twin"|<int>, "body": "same"|"other"|"ws"|"twin"|"garbage"},
        "twin": bool}          # the module also holds an OLDER same-named function (name collision layout)
The function under test is the LAST g of the module.  "twin" text/line refer to the older g in the same file.
"""
import json
import os
import shutil
import sys
import tempfile
import warnings

import joblib.memory as jm
from joblib import Memory
from joblib.func_inspect import get_func_code


def fn_text(tag, lam=False):
    if lam:
        return "g = lambda x: (%r, x)\n" % tag
    return "def g(x):\n    y = (%r,\n         x)\n    return y\n" % tag


def run(case):
    tmp = tempfile.mkdtemp(prefix="verif-cc-")
    try:
        kind = case["kind"]
        lam = kind == "lambda"
        pad = "".join("# pad %d\n" % i for i in range(case.get("pad", 0)))
        twin_text = fn_text("twin", lam)
        cur_text = fn_text("cur", lam)
        src = pad + ((twin_text + "\n\n") if case.get("twin") else "") + cur_text
        twin_line = case.get("pad", 0) + 1
        path = os.path.join(tmp, "ccmod.py")
        if kind == "sourceless":
            fname = "<string>"
        elif kind == "doctest":
            fname = "<doctest ccmod.rst[3]>"
        else:
            fname = path
            with open(path, "w") as fh:
                fh.write(src)
        ns = {"__name__": "ccmod"}
        exec(compile(src, fname, "exec"), ns)
        g = ns["g"]
        code, source_file, first_line = get_func_code(g)
        mem = Memory(os.path.join(tmp, "cache"), verbose=0)
        mf = mem.cache(g)
        func_dir = os.path.join(mem.store_backend.location, mf.func_id)
        os.makedirs(func_dir, exist_ok=True)
        st = case["stored"]
        stored_text = None
        if st is not None:
            body = {"same": code, "other": code.replace("cur", "old") if "cur" in code else code + "0",
                    "ws": code.replace("    ", "\t").replace("\n", " \n", 1) if kind in ("def", "lambda")
                    else code + " ", "twin": twin_text, "garbage": "\x00\x01 not python"}[st["body"]]
            h = st["hdr"]
            line = {"cur": first_line, "other": first_line + 7, "twin": twin_line}.get(h, h)
            if h is None:
                stored_text = body
            elif h == "trunc":
                stored_text = "# first line:" + "\n" + body
            else:
                stored_text = "# first line: %d\n%s" % (line, body)
            with open(os.path.join(func_dir, "func_code.py"), "wb") as fh:
                fh.write(stored_text.encode("utf-8"))
        entry = os.path.join(func_dir, "0123456789abcdef0123456789abcdef")
        os.makedirs(entry)
        with open(os.path.join(entry, "output.pkl"), "wb") as fh:
            fh.write(b"x")
        assert g not in jm._FUNCTION_HASHES
        with warnings.catch_warnings(record=True) as w:
            warnings.simplefilter("always")
            r = mf._check_previous_func_code(stacklevel=2)
        warns = []
        for x in w:
            m = str(x.message)
            if issubclass(x.category, jm.JobLibCollisionWarning):
                warns.append("cannot" if m.startswith("Cannot detect") else
                             ("possible" if m.startswith("Possible name collisions") else "other:" + m[:40]))
        after_text = None
        fc = os.path.join(func_dir, "func_code.py")
        if os.path.exists(fc):
            after_text = open(fc, "rb").read().decode("utf-8")
        new_code, new_line = jm.extract_first_line(after_text) if after_text is not None else (None, None)
        with warnings.catch_warnings():
            warnings.simplefilter("ignore")
            r2 = mf._check_previous_func_code(stacklevel=2)
        old_code = jm.extract_first_line(stored_text)[0] if stored_text is not None else None
        return {"answer": bool(r), "warnings": warns, "entry_kept": os.path.exists(os.path.join(entry, "output.pkl")),
                "after_is_current": new_code == code, "after_line": new_line, "second": bool(r2),
                "in_table": g in jm._FUNCTION_HASHES,
                # the inputs of the decision procedure, as observed
                "cur_line": first_line, "has_source_file": source_file is not None,
                "file_exists": bool(source_file) and os.path.exists(source_file),
                "is_doctest": bool(source_file) and source_file.startswith("<doctest "),
                "is_lambda": lam,
                # independent facts for the oracle
                "stored_equals_current": (old_code == code) if stored_text is not None else None,
                "stored_line": (jm.extract_first_line(stored_text)[1] if stored_text is not None else None)}
    finally:
        shutil.rmtree(tmp, ignore_errors=True)


for line in sys.stdin:
    line = line.strip()
    if not line:
        continue
    c = json.loads(line)
    try:
        res = run(c)
    except BaseException as e:  # noqa
        import traceback
        res = {"harness_error": repr(e) + traceback.format_exc()[-500:]}
    sys.stdout.write(json.dumps(res) + "\n")
    sys.stdout.flush()
