"""Implementation side of C15 (real nested Parallel runs).   usage: c15_nest.py <logdir> '<json tree>'

tree : {"backend": null|"loky"|"threading"|"multiprocessing"|"sequential", "n_jobs": n, "ntasks": m, "child": tree|null,
        "prefer": null|"processes"|"threads", "require": null|"sharedmem"}
Alternatively  {"seq": [[n_jobs, ntasks], ...], "pin": bool}  : a REUSE sequence -- the calls Parallel(n_jobs=n) are made one
after the other in THIS process on the default loky backend, so that the reusable executor is resized between them
(pin=true wraps them in parallel_config('loky', inner_max_num_threads=1) so that the worker environment, hence the executor,
is the same whatever n_jobs is); call paths are "q0", "q1", ...; ntasks = 0 means `with Parallel(n_jobs=n): pass` (the executor
is configured but nothing is submitted); a third element "fail" / "kill" makes task 0 of that call raise / kill its own worker
Every task of a call runs the same child call.  All processes append events to <logdir>/events.jsonl (O_APPEND, one short line
per event).  A task, once started, waits until min(expected workers, ntasks) tasks of ITS call have started (so the
concurrency the backend grants is really reached: deterministic barrier, generous timeout, no sleeping for luck), holds a
short grace period so that surplus workers would show up, runs the child call, and logs its end.

events:  {"e":"call","path":p,"kind":class,"level":l,"eff":k,"pid":..,"tid":..,"raise":name?}
         {"e":"S"|"E"|"T","call":p,"task":i,"pid":..,"tid":..,"main":bool,"daemon":bool}
"""
import json
import multiprocessing
import os
import sys
import threading
import time
import warnings

warnings.simplefilter("ignore")


def log(logdir, obj):
    fd = os.open(os.path.join(logdir, "events.jsonl"), os.O_WRONLY | os.O_APPEND | os.O_CREAT, 0o644)
    try:
        os.write(fd, (json.dumps(obj) + "\n").encode())
    finally:
        os.close(fd)


def count_started(logdir, call):
    n = 0
    try:
        with open(os.path.join(logdir, "events.jsonl")) as f:
            for line in f:
                if '"e": "S"' in line and ('"call": "%s"' % call) in line:
                    n += 1
    except FileNotFoundError:
        pass
    return n


def task(logdir, call, i, need, child):
    import joblib  # noqa
    me = {"call": call, "task": i, "pid": os.getpid(), "tid": threading.get_ident(),
          "main": threading.current_thread() is threading.main_thread(),
          "daemon": multiprocessing.current_process().daemon}
    log(logdir, dict(me, e="S"))
    deadline = time.time() + 30
    while count_started(logdir, call) < need:
        if time.time() > deadline:
            log(logdir, dict(me, e="T"))
            break
        time.sleep(0.005)
    time.sleep(0.05)  # grace: a surplus worker would have logged its start by now
    if child is not None:
        run_node(logdir, child, "%s.%d" % (call, i))
    log(logdir, dict(me, e="E"))
    return i


def task_bad(logdir, call, i, need, how):
    """task 0 of an abnormal call fails ("fail": raises) or kills its own worker process ("kill"); the others are ordinary"""
    if i == 0:
        time.sleep(0.05)
        if how == "kill":
            import signal
            os.kill(os.getpid(), signal.SIGKILL)
        raise KeyError("task failure requested by the scenario")
    return task(logdir, call, i, need, None)


def run_node(logdir, tree, path):
    from joblib import Parallel, delayed
    kw = {} if tree["n_jobs"] is None else {"n_jobs": tree["n_jobs"]}
    if tree["backend"] is not None:
        kw["backend"] = tree["backend"]
    if tree.get("prefer") is not None:
        kw["prefer"] = tree["prefer"]
    if tree.get("require") is not None:
        kw["require"] = tree["require"]
    info = {"e": "call", "path": path, "pid": os.getpid(), "tid": threading.get_ident()}
    try:
        with warnings.catch_warnings():
            warnings.simplefilter("ignore")
            with Parallel(**kw) as p:
                eff = p._effective_n_jobs()
                info.update(kind=type(p._backend).__name__, level=p._backend.nesting_level, eff=eff)
                log(logdir, info)
                need = min(eff, tree["ntasks"])
                p(delayed(task)(logdir, path, i, need, tree["child"]) for i in range(tree["ntasks"]))
    except Exception as e:  # ValueError for n_jobs=0; anything else is reported, not hidden
        log(logdir, dict(info, **{"raise": type(e).__name__, "msg": str(e)[:100]}))


def run_seq(logdir, spec):
    import contextlib
    from joblib import Parallel, delayed, parallel_config
    from joblib.externals.loky import reusable_executor
    cm = parallel_config("loky", inner_max_num_threads=1) if spec.get("pin") else contextlib.nullcontext()
    with cm:
        for k, item in enumerate(spec["seq"]):
            n, m = item[0], item[1]
            how = item[2] if len(item) > 2 else None
            path = "q%d" % k
            p = Parallel(n_jobs=n)
            eff = p._effective_n_jobs()
            before = id(reusable_executor._executor) if reusable_executor._executor is not None else None
            log(logdir, {"e": "call", "path": path, "pid": os.getpid(), "tid": threading.get_ident(),
                         "kind": type(p._backend).__name__, "level": p._backend.nesting_level, "eff": eff, "n_jobs": n})
            if how in ("fail", "kill"):
                # an abnormal call: a task raises / a worker dies; the error reaches the caller and the executor is left
                # shut down / broken, so the NEXT call gets a replacement executor
                try:
                    p(delayed(task_bad)(logdir, path, i, 1, how) for i in range(m))
                    outcome = "no-exception"
                except BaseException as e:  # noqa
                    outcome = type(e).__name__
                log(logdir, {"e": "after", "path": path, "executor_reused": False, "exec": None, "max_workers": None, "alive": None,
                             "abnormal": how, "raised": outcome})
                continue
            if m == 0:
                # configure only: the executor is fetched (and resized) but no task is submitted, so its workers are not spawned
                with p:
                    pass
            else:
                p(delayed(task)(logdir, path, i, min(eff, m), None) for i in range(m))
            ex = reusable_executor._executor
            after = id(ex) if ex is not None else None
            log(logdir, {"e": "after", "path": path, "executor_reused": before is not None and before == after,
                         "exec": after, "max_workers": None if ex is None else ex._max_workers,
                         "alive": None if ex is None else sum(1 for pr in list(ex._processes.values()) if pr.is_alive())})


if __name__ == "__main__":
    arg = json.loads(sys.argv[2])
    if "seq" in arg:
        run_seq(sys.argv[1], arg)
    else:
        run_node(sys.argv[1], arg, "r")
    print("done")
