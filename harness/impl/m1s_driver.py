"""Scripted driver for joblib.Parallel with a backend that does NOT retrieve results in its completion
callback (supports_retrieve_callback = False, the default of ParallelBackendBase) -- implementation side
of Model/ParallelSync.v.

Scheduling points (public backend API + the poll sleep), all deterministic:
  * caller inside _start:           backend.compute_batch_size()          -> event ["sdispatch", b]
  * caller inside get_result:       backend.retrieve_result(job, timeout) -> event ["sresult", outcome]
  * caller in _retrieve's poll:     time.sleep(0.01) of joblib.parallel (the module's `time` global is
                                    replaced by a proxy: no edit of joblib) -> released after every event
  * completion-callback thread:     backend.batch_completed()             -> event ["scb", tracker, b]
stdin : one JSON case per line {"id","seed","calls":[["scall",n_jobs,pre,N,ifail,tfail,timeout],..], "mode"?, "events"?}
stdout: one JSON result per line
"""
import json
import os
import random
import sys
import threading
import time as _time
import traceback

sys.path.insert(0, os.path.dirname(os.path.abspath(__file__)))
import m1_driver as D  # noqa: E402  (Gate, InstrumentedInput, task, failure classes)

import os as _os_cov, sys as _sys_cov
if _os_cov.environ.get("VERIF_COV_OUT"):
    _sys_cov.path.insert(0, _os_cov.path.dirname(_os_cov.path.abspath(__file__)))
    import cov_hook  # noqa: F401  (diagnostic line coverage, off by default)
import joblib.parallel as JP  # noqa: E402
from joblib import Parallel  # noqa: E402
from joblib.parallel import ParallelBackendBase  # noqa: E402

GATE = D.GATE
WAIT_STEP = D.WAIT_STEP
CALLER = {"ident": None}


class TimeProxy:
    """stands for the `time` module inside joblib.parallel: the caller's poll sleep is a scheduling point"""

    def __getattr__(self, name):
        return getattr(_time, name)

    def sleep(self, d):
        if threading.get_ident() == CALLER["ident"]:
            GATE.park("sleep")
        else:
            _time.sleep(d)


JP.time = TimeProxy()


class SyncBackend(ParallelBackendBase):
    supports_retrieve_callback = False
    supports_timeout = True
    uses_threads = True
    supports_sharedmem = True

    def __init__(self, n, **kw):
        super().__init__(**kw)
        self.n = n
        self.batches = []
        self.tl = threading.local()
        self.aborts = 0

    def effective_n_jobs(self, n_jobs):
        return self.n

    def configure(self, n_jobs=1, parallel=None, **kw):
        self.parallel = parallel
        return self.n

    def compute_batch_size(self):
        if threading.get_ident() == CALLER["ident"]:
            return GATE.park("cbs")
        return getattr(self.tl, "b", 1)

    def batch_completed(self, batch_size, duration):
        if getattr(self.tl, "is_cb", False):
            self.tl.b = GATE.park("mid")

    def submit(self, func, callback=None):
        job = {"func": func, "cb": callback, "items": [a[1] for _, a, _ in func.items],
               "call_no": func.items[0][1][0] if func.items else None, "started": False, "idx": len(self.batches)}
        self.batches.append(job)
        return job

    def retrieve_result(self, out, timeout=None):
        if out is None:
            # tracker of an input failure: there is no job (the base class would fail on out.get())
            raise AttributeError("'NoneType' object has no attribute 'get'")
        tok = GATE.park(("ret", out["idx"], timeout))
        if tok == "ok":
            return out["func"]()
        if tok == "timeout":
            raise TimeoutError()
        raise D.ExtFail(tok[1])

    def terminate(self):
        self.terminates = getattr(self, "terminates", 0) + 1

    def start_call(self):
        self.start_calls = getattr(self, "start_calls", 0) + 1

    def stop_call(self):
        self.stop_calls = getattr(self, "stop_calls", 0) + 1

    def abort_everything(self, ensure_ready=True):
        self.aborts += 1
        self.last_ensure_ready = ensure_ready


class Driver:
    def __init__(self, case):
        self.case = case
        self.rng = random.Random(case.get("seed", 0))
        self.events, self.obs, self.snaps, self.anomalies = [], [], [], []
        self.backend = None
        self.par = None
        self.caller = None
        self.caller_res = None
        self.call_no = 0
        self.inputs = []
        self.trk_of_batch = []
        self.next_trk = 0
        self.iter_raises_seen = 0
        self.collected = True

    # ------------------------------------------------------------ caller thread
    def _call(self, it):
        CALLER["ident"] = threading.get_ident()
        try:
            out = self.par(it)
            self.caller_res = ["returned", [v[1] for v in out], sorted(set(v[0] for v in out))]
        except BaseException as e:  # noqa
            self.caller_res = D.Driver._exc_obs(e)
        finally:
            CALLER["ident"] = None
            with GATE.cv:
                GATE.cv.notify_all()

    def _caller_state(self):
        """('cbs'|'ret'|'sleep'|'done'|'idle', info)"""
        if self.caller is None:
            return "idle", None
        with GATE.cv:
            k = GATE.parked.get(self.caller.ident)
            if self.caller.ident in GATE.tokens:
                k = "running"
        if k is None:
            return ("done", None) if self.caller_res is not None else ("running", None)
        if isinstance(k, tuple):
            return "ret", k
        return k, None

    def _settle(self):
        """wait until the caller is parked or finished"""
        if self.caller is None:
            return "idle"
        r = GATE.wait_parked_or(self.caller.ident, lambda: self.caller_res is not None, WAIT_STEP)
        if r == "timeout":
            self.anomalies.append("caller reached no scheduling point within %.0f s" % WAIT_STEP)
        return self._caller_state()[0]

    def _kick(self):
        """after an event: a caller parked in its poll sleep goes round its loop once"""
        st, _ = self._caller_state()
        if st == "sleep":
            GATE.release(self.caller.ident, None)
            self._wait_token_taken()
        return self._settle()

    def _wait_token_taken(self):
        end = _time.time() + WAIT_STEP
        while _time.time() < end:
            with GATE.cv:
                if self.caller.ident not in GATE.tokens:
                    return
            _time.sleep(0.0005)

    # ------------------------------------------------------------ bookkeeping
    def _sync_new_trackers(self):
        if self.backend is None:
            return
        cur = self.inputs[-1] if self.inputs else None
        while len(self.trk_of_batch) < len(self.backend.batches):
            self.trk_of_batch.append(self.next_trk)
            self.next_trk += 1
        if cur is not None and cur.raised > self.iter_raises_seen:
            self.iter_raises_seen = cur.raised
            self.next_trk += 1

    def _snap(self):
        p = self.par
        cur = self.inputs[-1] if self.inputs else None
        self._sync_new_trackers()
        st, info = self._caller_state()
        bs = self.backend.batches if self.backend else []
        return {
            "taken": cur.i if cur else 0,
            "n_disp": getattr(p, "n_dispatched_tasks", 0) if p else 0,
            "n_comp": getattr(p, "n_completed_tasks", 0) if p else 0,
            "njobs": len(getattr(p, "_jobs", ())) if p else 0,
            "iterating": bool(getattr(p, "_iterating", False)) if p else False,
            "aborting": bool(getattr(p, "_aborting", False)) if p else False,
            "nready": p._ready_batches.qsize() if p is not None and hasattr(p, "_ready_batches") else 0,
            "running": bool(getattr(p, "_running", False)) if p else False,
            "exception": bool(getattr(p, "_exception", False)) if p else False,
            "blocked": 1 if st == "ret" else 0,
            "blocked_on": self.trk_of_batch[info[1]] if st == "ret" else None,
            "caller": st,
            "submitted": [b["items"] for b in bs if b["call_no"] == self.call_no],
            "trk_ids": [self.trk_of_batch[i] for i, b in enumerate(bs) if b["call_no"] == self.call_no],
            "reentered": bool(cur.reentered) if cur else False,
            "call_no": self.call_no,
            "aborts": self.backend.aborts if self.backend else 0,
            "ensure_ready": getattr(self.backend, "last_ensure_ready", None) if self.backend else None,
            "terminates": getattr(self.backend, "terminates", 0) if self.backend else 0,
            "start_calls": getattr(self.backend, "start_calls", 0) if self.backend else 0,
            "stop_calls": getattr(self.backend, "stop_calls", 0) if self.backend else 0,
            "managed": bool(self.case.get("managed")),
        }

    def _record(self, ev):
        obs = []
        if self.caller_res is not None and not self.collected:
            obs.append(self.caller_res)
            self.collected = True
        self.events.append(ev)
        self.obs.append(obs)
        self.snaps.append(self._snap())

    # ------------------------------------------------------------ events
    def ev_call(self, ev):
        _, n_jobs, pre, N, ifail, tfail, timeout = ev
        if self.par is None:
            self.backend = SyncBackend(n_jobs)
            self.par = Parallel(n_jobs=n_jobs, backend=self.backend, batch_size="auto", pre_dispatch=pre,
                                timeout=timeout, return_as="list")
            if self.case.get("managed"):
                self.par.__enter__()
        else:
            self.par.pre_dispatch = pre
            self.par.timeout = timeout
        self.call_no += 1
        it = D.InstrumentedInput(self.call_no, N, ifail, tfail)
        self.inputs.append(it)
        self.iter_raises_seen = 0
        self.caller_res = None
        self.collected = False
        self.caller = threading.Thread(target=self._call, args=(it,), daemon=True)
        self.caller.start()
        self._settle()
        self._record(ev)

    def ev_call2(self, ev):
        res = []

        def go():
            try:
                self.par(iter([]))
                res.append(["returned", [], []])
            except BaseException as e:  # noqa
                res.append(D.Driver._exc_obs(e))
        t = threading.Thread(target=go, daemon=True)
        t.start()
        t.join(WAIT_STEP)
        if t.is_alive() or not res:
            self.anomalies.append("second call on a running Parallel neither raised nor returned")
            res.append(["hang"])
        self.events.append(ev)
        self.obs.append(res)
        self.snaps.append(self._snap())

    def ev_dispatch(self, ev):
        st, _ = self._caller_state()
        if st != "cbs":
            self.anomalies.append("replay: sdispatch but the caller is at %s" % st)
            self._record(ev)
            return
        GATE.release(self.caller.ident, ev[1])
        self._wait_token_taken()
        self._settle()
        self._record(ev)

    def ev_cb(self, ev):
        _, tid, bsz = ev
        bi = self.trk_of_batch.index(tid)
        b = self.backend.batches[bi]
        b["started"] = True
        state = {"done": False}

        def run():
            self.backend.tl.is_cb = True
            self.backend.tl.b = 1
            try:
                b["cb"](None)
            except BaseException as e:  # noqa
                self.anomalies.append("callback raised %r" % (e,))
            state["done"] = True
            with GATE.cv:
                GATE.cv.notify_all()
        t = threading.Thread(target=run, daemon=True)
        t.start()
        r = GATE.wait_parked_or(t.ident, lambda: state["done"], WAIT_STEP)
        if r == "parked":
            GATE.release(t.ident, bsz)
            r2 = GATE.wait_parked_or(-1, lambda: state["done"], WAIT_STEP)
            if r2 == "timeout":
                self.anomalies.append("callback thread stuck in its locked section")
        elif r == "timeout":
            self.anomalies.append("callback thread stuck before batch_completed")
        self._kick()
        self._record(ev)

    def ev_result(self, ev):
        st, info = self._caller_state()
        if st != "ret":
            self.anomalies.append("replay: sresult but the caller is at %s" % st)
            self._record(ev)
            return
        want = ev[1]
        bi = info[1]
        items = self.backend.batches[bi]["items"]
        cur = self.inputs[-1]
        actual = want
        if want is None:
            failing = [i for i in items if i in cur.tfail]
            actual = ["task", failing[0]] if failing else None
            tok = "ok"
        elif want == "timeout":
            tok = "timeout"
        elif want[0] == "task":
            tok = "ok"
        else:
            tok = ("ext", want[1])
        GATE.release(self.caller.ident, tok)
        self._wait_token_taken()
        self._settle()
        self._record(["sresult", actual])

    # ------------------------------------------------------------ generation
    def enabled(self, calls_left):
        self._sync_new_trackers()
        st, _ = self._caller_state()
        evs = []
        if st == "cbs":
            evs.append("sdispatch")
        if st == "ret":
            evs.append("sresult")
        infl = [self.trk_of_batch[i] for i, b in enumerate(self.backend.batches) if not b["started"]] if self.backend else []
        if infl:
            evs.append("scb")
        if st in ("done", "idle") and calls_left:
            evs.append("scall")
        return evs, infl, st

    def generate(self):
        calls = list(self.case["calls"])
        bsizes = self.case.get("bsizes", [1, 1, 2, 3])
        p_ext = self.case.get("p_extfail", 0.02)
        p_tmo = self.case.get("p_timeout", 0.02)
        p_call2 = self.case.get("p_call2", 0.02)
        hold_cb = self.case.get("hold_callbacks", 0.0)     # probability of starving callbacks while results flow
        while len(self.events) < self.case.get("max_events", 160):
            evs, infl, st = self.enabled(bool(calls))
            if not evs:
                if st not in ("done", "idle"):
                    self.anomalies.append("the caller waits (%s) although no batch is in flight and nothing can be dispatched: hang" % st)
                break
            weights = {"sdispatch": 4, "sresult": 3, "scb": 3, "scall": 5}
            if "sresult" in evs and "scb" in evs and self.rng.random() < hold_cb:
                evs = [e for e in evs if e != "scb"]
            k = self.rng.choices(evs, [weights[e] for e in evs])[0]
            if k == "sdispatch":
                self.ev_dispatch(["sdispatch", self.rng.choice(bsizes)])
            elif k == "scb":
                tid = self.rng.choice(infl) if self.rng.random() < 0.5 else infl[0]
                self.ev_cb(["scb", tid, self.rng.choice(bsizes)])
            elif k == "sresult":
                if self.par._running and self.rng.random() < p_call2:
                    self.ev_call2(["scall2"])
                r = self.rng.random()
                timeout_set = self.par.timeout is not None
                if r < p_ext:
                    self.ev_result(["sresult", ["ext", 1000 + len(self.events)]])
                elif timeout_set and r < p_ext + p_tmo * 10:
                    self.ev_result(["sresult", "timeout"])
                else:
                    self.ev_result(["sresult", None])
            elif k == "scall":
                self.ev_call(calls.pop(0))
        self.finish()

    def replay_events(self):
        for ev in self.case["events"]:
            k = ev[0]
            try:
                if k == "scall":
                    self.ev_call(ev)
                elif k == "scall2":
                    self.ev_call2(ev)
                elif k == "sdispatch":
                    self.ev_dispatch(ev)
                elif k == "scb":
                    self.ev_cb(ev)
                elif k == "sresult":
                    self.ev_result(ev)
            except Exception as e:  # noqa
                self.anomalies.append("replay: event %r not executable: %r" % (ev, e))
                break
        self.finish()

    def finish(self):
        # let every parked thread go (not part of the compared trace)
        for _ in range(200):
            with GATE.cv:
                parked = dict(GATE.parked)
            if not parked:
                break
            for ident, kind in parked.items():
                GATE.release(ident, "ok" if isinstance(kind, tuple) else 1)
            _time.sleep(0.005)
            if self.caller is None or self.caller_res is not None:
                break

    def result(self):
        execs = {}
        for cn, i in D.EXEC_LOG:
            execs.setdefault(cn, []).append(i)
        return {"id": self.case.get("id"), "events": self.events, "obs": self.obs, "snaps": self.snaps,
                "anomalies": self.anomalies, "exec_log": execs,
                "reentered": any(x.reentered for x in self.inputs)}


def main():
    for line in sys.stdin:
        line = line.strip()
        if not line:
            continue
        case = json.loads(line)
        del D.EXEC_LOG[:]
        d = Driver(case)
        try:
            if case.get("mode") == "replay":
                d.replay_events()
            else:
                d.generate()
            r = d.result()
        except BaseException as e:  # noqa
            r = {"id": case.get("id"), "harness_error": repr(e), "tb": traceback.format_exc()}
        sys.stdout.write(json.dumps(r) + "\n")
        sys.stdout.flush()
    os._exit(0)


if __name__ == "__main__":
    main()
