"""Worker-side code of the C10 fault injections (imported by the loky workers through PYTHONPATH).

A fault is driven from inside the task or from an object travelling with it, so the instant is
deterministic: argument unpickling (`Bomb` rebuilt in the worker), task start, mid-task, result
pickling (`ResultBomb.__reduce__` runs in the worker when the result is pickled), in the middle of
sending the result (the worker's result pipe writer is replaced by one that writes the header and half
of the payload, then kills the process), right after the whole result was sent.
The parent process is never killed: every killer checks os.getpid() against C10_PARENT_PID.
"""
import os
import signal
import struct
import sys
import time

PARENT = int(os.environ.get("C10_PARENT_PID", "0"))


def signum(how):
    """'SIGKILL', 'SIGUSR1', ... or 'SIGRT+k' = SIGRTMIN+k (k >= 1: real-time signals WITHOUT a name in
    signal.Signals, e.g. 35 on Linux) or a plain number"""
    if how.startswith("SIGRT+"):
        return signal.SIGRTMIN + int(how[6:])
    if how.isdigit():
        return int(how)
    return int(getattr(signal, how))


def exit_status(how):
    """'exit' -> 7, 'exit:k' -> k, anything else -> None"""
    if how == "exit":
        return 7
    if how.startswith("exit:"):
        return int(how[5:])
    return None


def arm_idle_exit():
    """(warm-up call) start once per worker a thread that makes the worker os._exit(k) -- a death with an exit
    STATUS, 0 included, instead of a signal -- as soon as the harness creates the file exit_<pid> containing k:
    this is how a worker "exits while idle / while the next call starts" """
    if os.getpid() == PARENT or getattr(arm_idle_exit, "armed", False):
        return
    arm_idle_exit.armed = True
    import threading
    path = os.path.join(SYNC, "exit_%d" % os.getpid())

    def watch():
        while True:
            try:
                k = int(open(path).read())
            except (OSError, ValueError):
                time.sleep(0.005)
                continue
            os._exit(k)
    threading.Thread(target=watch, daemon=True).start()


def die(how):
    if os.getpid() == PARENT:
        return
    if exit_status(how) is not None:
        os._exit(exit_status(how))
    if how == "SIGKILL":
        os.kill(os.getpid(), signal.SIGKILL)
    elif how not in ("SIGSEGV", "exit", "SIGTERM"):
        try:
            # the check may have been started with some signals ignored (nohup: SIGHUP; a background job of a shell
            # without job control: SIGINT, SIGQUIT) and workers inherit that: restore the default action first
            signal.signal(signum(how), signal.SIG_DFL)
        except (ValueError, OSError):
            pass
        os.kill(os.getpid(), signum(how))      # default action of every signal used here: terminate
        time.sleep(30)
    elif how == "SIGSEGV":
        import faulthandler
        faulthandler._sigsegv()
    elif how == "SIGTERM":
        try:
            signal.signal(signal.SIGTERM, signal.SIG_DFL)
        except (ValueError, OSError):
            pass
        os.kill(os.getpid(), signal.SIGTERM)
        time.sleep(30)
    raise RuntimeError("unknown way to die: %r" % (how,))


def _rebuild_bomb(how, payload):
    die(how)               # runs while the worker unpickles the call item
    return Bomb(None, payload)


class Bomb:
    """argument that kills the process which UNPICKLES it (when how is not None)"""

    def __init__(self, how, payload=0):
        self.how = how
        self.payload = payload

    def __reduce__(self):
        return (_rebuild_bomb, (self.how, self.payload)) if self.how else (Bomb, (None, self.payload))


class Unloadable:
    """object whose unpickling RAISES in the worker (where="worker": the call item fails to
    un-serialize) or in the parent (where="parent": the result fails to un-serialize)"""

    def __init__(self, where):
        self.where = where

    def __reduce__(self):
        return (_raise_on_load, (self.where,))


def _raise_on_load(where):
    if (os.getpid() == PARENT) == (where == "parent"):
        raise ValueError("C10: this object cannot be unpickled here")
    return Unloadable(where)


class ResultBomb:
    """result that kills the process which PICKLES it"""

    def __init__(self, how, value):
        self.how = how
        self.value = value

    def __reduce__(self):
        die(self.how)
        return (ResultBomb, (None, self.value))


class KillOnPickle:
    """argument pickled in the PARENT (queue feeder thread of the next call): kills recorded workers"""

    def __init__(self, pids, sig, value):
        self.pids = pids
        self.sig = sig
        self.value = value

    def __reduce__(self):
        if os.getpid() == PARENT:
            for p in self.pids:
                if exit_status(self.sig) is not None:      # the armed worker thread does os._exit(k)
                    tmp = os.path.join(SYNC, "exit_%d.tmp" % p)
                    with open(tmp, "w") as f:
                        f.write(str(exit_status(self.sig)))
                    os.rename(tmp, os.path.join(SYNC, "exit_%d" % p))
                    continue
                try:
                    os.kill(p, signum(self.sig))
                except ProcessLookupError:
                    pass
        return (int, (self.value,))


class _HalfWriter:
    def __init__(self, real, full, how="SIGKILL"):
        self.real = real
        self.full = full
        self.how = how

    def __getattr__(self, n):
        return getattr(self.real, n)

    def send_bytes(self, buf):
        if self.full:
            self.real.send_bytes(buf)        # whole message written, then death
        else:
            n = len(buf)
            os.write(self.real.fileno(), struct.pack("!i", n) + bytes(buf[: n // 2]))
        if self.full:
            die(self.how)                    # after-send: any kind of death, exit status 0 included
        os.kill(os.getpid(), signal.SIGKILL)


def _arm_result_writer(full, how="SIGKILL"):
    f = sys._getframe()
    while f is not None and f.f_code.co_name != "_process_worker":
        f = f.f_back
    rq = f.f_locals["result_queue"]
    rq._writer = _HalfWriter(rq._writer, full, how)


SYNC = os.environ.get("C10_SYNC_DIR", ".")


def _pid_dead(pid):
    try:
        with open("/proc/%d/stat" % pid) as f:
            return f.read().rsplit(")", 1)[1].split()[0] in ("Z", "X")
    except OSError:
        return True


def _slow_load(value):
    """runs in the PARENT's executor manager thread while it un-pickles this result (result_reader.recv()):
    tells the victim that the manager is busy now, and stays busy until the victim is dead"""
    if os.getpid() == PARENT:
        open(os.path.join(SYNC, "busy"), "w").close()
        t = time.time()
        while time.time() - t < 8:
            try:
                pid = int(open(os.path.join(SYNC, "dead")).read())
                if _pid_dead(pid):
                    break
            except (OSError, ValueError):
                pass
            time.sleep(0.005)
        time.sleep(0.05)
    return value


class SlowToLoad:
    """result whose un-pickling keeps the manager thread busy until the victim worker has died"""

    def __init__(self, value):
        self.value = value

    def __reduce__(self):
        return (_slow_load, (self.value,))


def _die_when_manager_busy(how):
    t = time.time()
    while time.time() - t < 8 and not os.path.exists(os.path.join(SYNC, "busy")):
        time.sleep(0.005)
    tmp = os.path.join(SYNC, "dead.tmp")
    with open(tmp, "w") as f:
        f.write(str(os.getpid()))
    os.rename(tmp, os.path.join(SYNC, "dead"))
    die(how)


def expected(i):
    return i * i + 1


def _nested_square(x):
    return x * x


def run_nested():
    """the worker starts loky workers OF ITS OWN (nested Parallel) and records their pids: if it is killed
    afterwards they are orphans which must not keep anything of the dead worker alive (its sentinel pipe)"""
    if os.getpid() == PARENT:
        return
    from joblib import Parallel, delayed
    from joblib.externals.loky import reusable_executor
    r = Parallel(n_jobs=2, backend="loky")(delayed(_nested_square)(x) for x in range(4))
    assert r == [0, 1, 4, 9], r
    ex = reusable_executor._executor
    pids = sorted(ex._processes) if ex is not None else []
    tmp = os.path.join(SYNC, "nested_%d.tmp" % os.getpid())
    with open(tmp, "w") as f:
        f.write(" ".join(map(str, pids)))
    os.rename(tmp, os.path.join(SYNC, "nested_%d" % os.getpid()))


def task(i, fault, how, arg, sleep, arm=False, nested=False):
    """fault: None | 'task_start' | 'mid_task' | 'result_pickle' | 'mid_send' | 'after_send'
    ('arg_unpickle' acts through `arg`, a Bomb)."""
    if nested:
        run_nested()
    if arm:
        arm_idle_exit()
    if fault == "stubborn":
        # sibling of the victim: ignores the polite signals and runs far longer than any watchdog; only SIGKILL
        # (what kill_workers must use) gets rid of it
        signal.signal(signal.SIGTERM, signal.SIG_IGN)
        signal.signal(signal.SIGINT, signal.SIG_IGN)
        tmp = os.path.join(SYNC, "stub_%d.tmp" % i)
        with open(tmp, "w") as f:
            f.write(str(os.getpid()))
        os.rename(tmp, os.path.join(SYNC, "stub_%d" % i))
        time.sleep(600)
    if fault == "die_announced":
        tmp = os.path.join(SYNC, "victim.tmp")
        with open(tmp, "w") as f:
            f.write(str(os.getpid()))
        os.rename(tmp, os.path.join(SYNC, "victim"))
        die(how)
    if fault == "wait_stubborn":
        # the victim dies once every sibling has installed its handlers
        t = time.time()
        while time.time() - t < 10 and len([x for x in os.listdir(SYNC) if x.startswith("stub_") and not x.endswith(".tmp")]) < int(arg.payload):
            time.sleep(0.01)
        time.sleep(0.1)
        die(how)
    if fault == "task_start":
        die(how)
    if fault == "die_when_mgr_busy":
        _die_when_manager_busy(how)
    if fault == "slow_result":
        return SlowToLoad((expected(i), os.getpid()))
    if fault == "mid_task":
        time.sleep(sleep / 2.0)      # dies half-way: the other tasks of the call are still running
        die(how)
    if sleep:
        time.sleep(sleep)
    if fault == "mid_send":
        _arm_result_writer(False)
    if fault == "after_send":
        _arm_result_writer(True, how)
    v = (expected(i), os.getpid())
    if fault == "result_pickle":
        return ResultBomb(how, v)
    if fault == "result_garbage":
        return Unloadable("parent")   # pickles fine in the worker, raises when the parent unpickles it
    return v
