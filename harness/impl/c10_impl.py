"""Implementation side of C10: runs ONE fault-injection scenario against the real loky backend.

usage: c10_impl.py <scenario.json> <out.jsonl> <dump.txt>
One JSON line per finished step is appended to <out.jsonl> (so that a hang leaves the prefix);
a per-call watchdog (faulthandler.dump_traceback_later(exit=True)) writes all thread stacks to
<dump.txt> and terminates the process when a call does not return within scenario["watchdog"] seconds.

scenario = {"n_jobs", "n_tasks", "managed", "kind", "how", "victims", "sleep", "gen", "watchdog"}
kinds: arg_unpickle task_start mid_task result_pickle mid_send after_send   (fault inside call 1, by task index)
       arg_unloadable result_garbage                                        (un-serialisation failures)
       idle_settled idle_unsettled startup_gen startup_reduce               (victims = worker indices)
       none
"""
import faulthandler
import json
import os
import signal
import sys
import threading
import time

# the check may run with some signals ignored (under nohup: SIGHUP; as a background job of a shell without job control:
# SIGINT and SIGQUIT); ignored signals are inherited by the workers, which would then survive their "kill": every signal a
# scenario can use gets its default action back before any worker is started
for _name in ("SIGHUP", "SIGQUIT", "SIGTERM", "SIGUSR1", "SIGUSR2", "SIGABRT", "SIGBUS", "SIGFPE", "SIGILL", "SIGALRM"):
    try:
        if signal.getsignal(getattr(signal, _name)) == signal.SIG_IGN:
            signal.signal(getattr(signal, _name), signal.SIG_DFL)
    except (ValueError, OSError, AttributeError):
        pass
os.environ["C10_PARENT_PID"] = str(os.getpid())
os.environ["C10_SYNC_DIR"] = os.getcwd()
sys.path.insert(0, os.path.dirname(os.path.abspath(__file__)))
import c10_tasks as T  # noqa: E402
from joblib import Parallel, delayed  # noqa: E402
from joblib.externals.loky import process_executor, reusable_executor  # noqa: E402

sc = json.load(open(sys.argv[1]))
out = open(sys.argv[2], "a")
dump = open(sys.argv[3], "w")
W = sc.get("watchdog", 60)
N, NT = sc["n_jobs"], sc["n_tasks"]
KIND, HOW = sc["kind"], sc.get("how", "SIGKILL")
IN_TASK = ("dispatching", "stubborn", "respawn", "mgr_busy", "arg_unpickle", "task_start", "mid_task", "result_pickle", "mid_send", "after_send",
           "arg_unloadable", "result_garbage")


def emit(obj):
    out.write(json.dumps(obj) + "\n")
    out.flush()
    os.fsync(out.fileno())


def exec_state():
    e = reusable_executor._executor
    if e is None:
        return {"executor_id": None, "pids": [], "broken": None}
    return {"executor_id": e.executor_id, "pids": sorted(e._processes.keys()),
            "broken": type(e._flags.broken).__name__ if e._flags.broken is not None else None,
            "shutdown": bool(e._flags.shutdown)}


def dead(pid):
    try:
        with open("/proc/%d/stat" % pid) as f:
            return f.read().rsplit(")", 1)[1].split()[0] in ("Z", "X")
    except OSError:
        return True


def kill_pids(pids):
    if T.exit_status(HOW) is not None:
        # death with an exit status: the thread armed in the worker during the warm-up call does os._exit(k)
        for p in pids:
            tmp = "exit_%d.tmp" % p
            with open(tmp, "w") as f:
                f.write(str(T.exit_status(HOW)))
            os.rename(tmp, "exit_%d" % p)
        pids_sig = []
    else:
        pids_sig = pids
    for p in pids_sig:
        try:
            os.kill(p, T.signum(HOW))
        except ProcessLookupError:
            pass
    t = time.time()
    while time.time() - t < 10 and not all(dead(p) for p in pids):
        time.sleep(0.005)


BETWEEN_KINDS = ("idle_settled", "idle_unsettled", "startup_gen", "startup_reduce", "submit_window")


def n_tasks_of(call_no):
    # the submit-window instant needs a call with a single submit
    if call_no == 1 and sc.get("n_tasks1"):
        return sc["n_tasks1"]
    return 1 if (call_no == 1 and KIND == "submit_window") else NT


HOOK = {"armed": False, "victims": [], "saw_broken_in_submit": None}
_orig_work_item = process_executor._WorkItem


def _hooked_work_item(*a, **k):
    """ProcessPoolExecutor.submit builds its _WorkItem after the broken/shutdown check and before it
    records the item (all under shutdown_lock): kill idle workers exactly there and give the manager thread
    time to react while this submit is still in flight"""
    if HOOK["armed"]:
        HOOK["armed"] = False
        e = reusable_executor._executor
        kill_pids(HOOK["victims"])
        t = time.time()
        while time.time() - t < sc.get("hook_wait", 1.5) and e._flags.broken is None:
            time.sleep(0.001)
        HOOK["saw_broken_in_submit"] = e._flags.broken is not None
    return _orig_work_item(*a, **k)


def make_tasks(call_no, victim_pids):
    fault_here = call_no == 1 and KIND in IN_TASK
    items = []
    for i in range(n_tasks_of(call_no)):
        fault, arg = None, T.Bomb(None, bytes(sc["big"]) if sc.get("big") else i)
        if fault_here and i in sc["victims"]:
            if KIND == "arg_unpickle":
                arg = T.Bomb(HOW, i)
            elif KIND == "arg_unloadable":
                arg = T.Unloadable("worker")
            elif KIND == "mgr_busy":
                fault = "die_when_mgr_busy"
            elif KIND == "respawn":
                fault = "mid_task"
            elif KIND == "stubborn":
                fault, arg = "wait_stubborn", T.Bomb(None, NT - len(sc["victims"]))
            elif KIND == "dispatching":
                fault = "die_announced"
            else:
                fault = KIND
        elif fault_here and KIND == "stubborn":
            fault = "stubborn"
        if fault_here and KIND == "mgr_busy" and i == sc.get("slow", 0):
            fault = "slow_result"
        if call_no == 1 and KIND == "startup_reduce" and i == 0:
            arg = T.KillOnPickle(victim_pids, HOW, i)
        arm = call_no == 0 and T.exit_status(HOW) is not None and KIND in BETWEEN_KINDS
        nested = bool(sc.get("nested")) and ((call_no == 1 and fault_here and i in sc["victims"])
                                             or (call_no == 0 and KIND in BETWEEN_KINDS))
        items.append(delayed(T.task)(i, fault, HOW, arg, sc.get("sleep", 0.0), arm, nested))
    if call_no == 1 and KIND == "dispatching":
        def slow_gen():
            # the caller is still DISPATCHING (inside dispatch_one_batch, Parallel._lock held) when the victim dies
            # and while the manager thread fails the futures
            # dispatch_one_batch pulls batch_size * n_jobs items from the input before it submits any of them
            for it in items[:N]:
                yield it
            t = time.time()
            while time.time() - t < 20:
                try:
                    if dead(int(open("victim").read())):
                        break
                except (OSError, ValueError):
                    pass
                time.sleep(0.01)
            time.sleep(1.0)
            for it in items[N:]:
                time.sleep(0.02)
                yield it
        return slow_gen()
    if call_no == 1 and KIND == "startup_gen":
        def gen():
            kill_pids(victim_pids)          # the first next(): configure() is done, nothing submitted yet
            for it in items:
                yield it
        return gen()
    return items


LAST = {}


def one_call(par, call_no, victim_pids):
    faulthandler.cancel_dump_traceback_later()
    faulthandler.dump_traceback_later(W, exit=True, file=dump)
    t0 = time.time()
    rec = {"call": call_no, "before": exec_state()}
    emit({"starting": call_no})
    try:
        r = par(make_tasks(call_no, victim_pids))
        if sc.get("gen"):
            r = list(r)
        r = [x.value if isinstance(x, T.ResultBomb) else x for x in r]
        vals = [x[0] if isinstance(x, tuple) else repr(x) for x in r]
        exp = [T.expected(i) for i in range(n_tasks_of(call_no))]
        rec["outcome"] = "ok" if vals == exp else "wrong"
        if vals != exp:
            rec["got"] = vals[:50]
        rec["pids"] = sorted(set(x[1] for x in r if isinstance(x, tuple)))
        LAST["pids"] = rec["pids"]
    except BaseException as e:  # noqa
        rec["outcome"] = "raise"
        rec["exc"] = type(e).__name__
        rec["mro"] = [c.__name__ for c in type(e).__mro__]
        rec["msg"] = str(e)[:160]
    faulthandler.cancel_dump_traceback_later()
    rec["secs"] = round(time.time() - t0, 3)
    rec["after"] = exec_state()
    emit(rec)


def mgr_alive(e):
    t = e._executor_manager_thread
    return t is not None and t.is_alive()


PROBE = {"cb_under_lock": 0, "callbacks": 0, "installed": False}


class _OwnerLock:
    """shutdown_lock wrapped so that the owning thread is known"""

    def __init__(self, real):
        self.real = real
        self.owner = None

    def acquire(self, *a, **k):
        r = self.real.acquire(*a, **k)
        if r:
            self.owner = threading.get_ident()
        return r

    def release(self):
        self.owner = None
        self.real.release()

    def __enter__(self):
        self.acquire()
        return self

    def __exit__(self, *a):
        self.release()

    def locked(self):
        return self.real.locked()


def install_lock_probe():
    """lock order of M10c: the done-callbacks (which take Parallel._lock) must never run in a thread that holds the
    executor's shutdown_lock (a dispatching caller holds Parallel._lock and takes shutdown_lock in submit)"""
    import joblib.parallel as jp
    e = reusable_executor._executor
    proxy = _OwnerLock(e._shutdown_lock)
    e._shutdown_lock = proxy
    e._flags.shutdown_lock = proxy
    if e._executor_manager_thread is not None:
        e._executor_manager_thread.shutdown_lock = proxy
    e._call_queue.shutdown_lock = proxy
    if not PROBE["installed"]:
        orig = jp.BatchCompletionCallBack.__call__

        def probed(self, *a, **k):
            PROBE["callbacks"] += 1
            ex = reusable_executor._executor
            lk = getattr(ex, "_shutdown_lock", None) if ex is not None else None
            for cand in (proxy, lk):
                if isinstance(cand, _OwnerLock) and cand.owner == threading.get_ident():
                    PROBE["cb_under_lock"] += 1
                    break
            return orig(self, *a, **k)
        jp.BatchCompletionCallBack.__call__ = probed
        PROBE["installed"] = True


def nested_report():
    """pids of the nested loky workers started by (dead) workers, and which of them are still alive"""
    owners, alive = {}, []
    for x in os.listdir("."):
        if x.startswith("nested_") and not x.endswith(".tmp"):
            pids = [int(p) for p in open(x).read().split()]
            owners[x[7:]] = pids
            alive += [p for p in pids if not dead(p)]
    return {"nested_owners": owners, "nested_alive": alive}


def scenario(par):
    one_call(par, 0, [])
    if sc.get("nested") and KIND in BETWEEN_KINDS:
        # victims must be workers that really started nested workers
        have = [int(x[7:]) for x in os.listdir(".") if x.startswith("nested_") and not x.endswith(".tmp")]
        LAST["pids"] = [p for p in LAST.get("pids", []) if p in have] or LAST.get("pids")
    if sc.get("probe"):
        install_lock_probe()
    st = exec_state()
    if (T.exit_status(HOW) is not None or sc.get("nested")) and KIND in BETWEEN_KINDS and LAST.get("pids"):
        st = dict(st, pids=[p for p in st["pids"] if p in LAST["pids"]] or st["pids"])
    victim_pids = []
    if KIND in ("idle_settled", "idle_unsettled", "startup_gen", "startup_reduce", "submit_window"):
        victim_pids = [st["pids"][j % len(st["pids"])] for j in sc["victims"]] if st["pids"] else []
    emit({"victim_pids": victim_pids, "exec": st})
    if KIND in ("idle_settled", "idle_unsettled"):
        kill_pids(victim_pids)
        noticed = False
        if KIND == "idle_settled":
            t = time.time()
            e = reusable_executor._executor
            while time.time() - t < 10:
                if e._flags.broken is not None and not mgr_alive(e):
                    noticed = True
                    break
                time.sleep(0.005)
        emit({"noticed": noticed})
    if KIND == "respawn":
        # every worker exits cleanly, exactly as on idle time-out (None sentinel -> put(pid) -> manager pops it);
        # the next submit has to respawn the workers while the manager thread is asleep in wait()
        e = reusable_executor._executor
        for _ in range(len(e._processes)):
            e._call_queue.put(None)
        t = time.time()
        while e._processes and time.time() - t < 10:
            time.sleep(0.01)
        time.sleep(0.3)
        emit({"retired_left": len(e._processes)})
    if KIND == "submit_window":
        HOOK["victims"] = victim_pids
        HOOK["armed"] = True
        process_executor._WorkItem = _hooked_work_item
    one_call(par, 1, victim_pids)
    if sc.get("probe"):
        emit({"probe": {k: PROBE[k] for k in ("cb_under_lock", "callbacks")}})
    if KIND == "stubborn":
        pids = []
        for x in os.listdir("."):
            if x.startswith("stub_") and not x.endswith(".tmp"):
                pids.append(int(open(x).read()))
        t = time.time()
        while time.time() - t < 5 and not all(dead(p) for p in pids):
            time.sleep(0.01)
        emit({"stubborn_alive": [p for p in pids if not dead(p)], "stubborn_seen": len(pids)})
    if KIND == "submit_window":
        process_executor._WorkItem = _orig_work_item
        emit({"saw_broken_in_submit": HOOK["saw_broken_in_submit"], "hook_fired": not HOOK["armed"]})
    one_call(par, 2, [])
    one_call(par, 3, [])


# how the PARENT treats SIGCHLD: the exit status of a dead worker may be impossible to collect
if sc.get("sigchld") == "ign":
    signal.signal(signal.SIGCHLD, signal.SIG_IGN)        # children are auto-reaped, Process.exitcode stays None
elif sc.get("sigchld") == "reaper":
    import threading

    def _reaper():
        while True:
            try:
                os.waitpid(-1, 0)                          # another thread steals the exit statuses
            except ChildProcessError:
                time.sleep(0.01)
    threading.Thread(target=_reaper, daemon=True).start()

kw = dict(n_jobs=N)
if sc.get("pre_dispatch"):
    kw["pre_dispatch"] = sc["pre_dispatch"]
if KIND in ("stubborn", "dispatching"):
    kw["batch_size"] = 1      # the victim must be submitted on its own, before the input generator starts waiting
if KIND == "mgr_busy":
    kw["batch_size"] = 1      # the slow result and the victim must travel in different batches
if sc.get("gen"):
    kw["return_as"] = "generator"
if sc["managed"]:
    with Parallel(**kw) as par:
        scenario(par)
else:
    scenario(Parallel(**kw))
if sc.get("nested"):
    emit(nested_report())
emit({"done": True})
out.close()
os._exit(0)
