"""Stall-injection probe for joblib.Parallel (supports M1; a test, never a proof).

Model M1 treats every region run under Parallel._lock as atomic (layer A).  This probe looks below that
granularity on the REAL threading backend: one thread role (the caller/consumer, or the backend's
callback/worker threads) is stalled for a few tens of milliseconds each time it is about to execute one
chosen source line of the dispatch / completion / retrieval code of joblib/parallel.py, while all other
threads run freely.  A stall only slows a thread down, so on a correct tree every scenario must still give
exactly the sequential results (or the injected failure) and terminate; a window that the lock is supposed
to close (a publication split over two statements, an unlocked read of the job queue) shows up as a wrong
result, an internal error or a hang.

usage:  m1_stall.py --points          -> one JSON list of [function, line] stall points
        m1_stall.py  < cases.jsonl    -> one JSON result per case
case: {"at": [co_qualname, line], "role": "cb"|"main", "hits": [k, ...] (which visits stall), "delay": s,
       "n_jobs", "pre", "return_as", "N", "tfail": int|null, "ifail": int|null, "reuse": bool}
"""
import json
import os
import sys
import threading
import time

import os as _os_cov, sys as _sys_cov
if _os_cov.environ.get("VERIF_COV_OUT"):
    _sys_cov.path.insert(0, _os_cov.path.dirname(_os_cov.path.abspath(__file__)))
    import cov_hook  # noqa: F401  (diagnostic line coverage, off by default)
import joblib.parallel as JP
from joblib import Parallel, delayed

TOOL = 4
MON = sys.monitoring

FUNCS = [
    (JP.BatchCompletionCallBack, ["__init__", "register_job", "get_result", "_return_or_raise", "get_status", "__call__",
                                  "_dispatch_new", "_retrieve_result", "_register_outcome"]),
    (JP.Parallel, ["_dispatch", "_register_new_job", "dispatch_next", "dispatch_one_batch", "_abort", "_start",
                   "_get_outputs", "_wait_retrieval", "_retrieve", "_raise_error_fast", "_reset_run_tracking",
                   "_terminate_and_reset", "__call__"]),
]


def codes():
    out = []
    for cls, names in FUNCS:
        for n in names:
            f = getattr(cls, n, None)
            if f is not None and hasattr(f, "__code__"):
                out.append(f.__code__)
    return out


def points():
    pts = []
    for code in codes():
        lines = sorted({l for (_, _, l) in code.co_lines() if l is not None and l > code.co_firstlineno})
        pts.extend([code.co_qualname, l] for l in lines)
    return pts


class TaskFail(Exception):
    pass


class IterFail(Exception):
    pass


class SubmitFail(Exception):
    pass


def task(i, fails):
    time.sleep(0.0005 * (i % 3))
    if fails:
        raise TaskFail(i)
    return i


def gen_input(N, tfail, ifail):
    for i in range(N):
        if ifail is not None and i == ifail:
            raise IterFail(i)
        yield delayed(task)(i, i == tfail)
    if ifail is not None and ifail >= N:
        raise IterFail(N)


_TL = threading.local()


class CFBackend(JP.ParallelBackendBase):
    """A third-party style backend on concurrent.futures: the completion callback of a batch runs in the worker
    thread that finished it, so callbacks of different batches run CONCURRENTLY (the stock backends funnel them
    through one thread)."""
    supports_retrieve_callback = True
    supports_return_generator = True
    uses_threads = True
    supports_sharedmem = True

    def configure(self, n_jobs=1, parallel=None, **kw):
        from concurrent.futures import ThreadPoolExecutor
        self.parallel = parallel
        self._n = n_jobs
        self._pool = ThreadPoolExecutor(n_jobs)
        return n_jobs

    def effective_n_jobs(self, n_jobs):
        return max(1, n_jobs or 1)

    def submit(self, func, callback=None):
        k = getattr(self, "submit_fail_at", None)
        if k is not None and threading.get_ident() == STATE["main"] and not getattr(_TL, "in_cb", False):
            # a backend failure at dispatch by the caller itself (e.g. a broken executor refusing work) -- not inside
            # a completion callback, which concurrent.futures runs synchronously in the submitting thread when the
            # future is already done: an exception there is swallowed by the executor (see design.d/M1.md)
            self.n_submits = getattr(self, "n_submits", 0) + 1
            if self.n_submits == k:
                self.refused = True
                raise SubmitFail(k)
        fut = self._pool.submit(func)
        if callback is not None:
            def cb(f, callback=callback):
                _TL.in_cb = True
                try:
                    callback(f)
                finally:
                    _TL.in_cb = False
            fut.add_done_callback(cb)
        return fut

    def retrieve_result_callback(self, out):
        return out.result()

    def terminate(self):
        pool, self._pool = getattr(self, "_pool", None), None
        if pool is not None:
            pool.shutdown(wait=False)

    def abort_everything(self, ensure_ready=True):
        self.terminate()
        if ensure_ready:
            self.configure(n_jobs=self._n, parallel=self.parallel)


class _Immediate:
    def __init__(self, func):
        try:
            self.value, self.error = func(), None
        except BaseException as e:  # noqa
            self.value, self.error = None, e

    def get(self, timeout=None):
        if self.error is not None:
            raise self.error
        return self.value


class ImmediateBackend(JP.ParallelBackendBase):
    """A third-party style backend written against the documented base class (supports_retrieve_callback = False): the
    batch runs inside submit() and its completion callback fires there too, before submit() returns (what the old
    ImmediateResult-based backends and futures that are already done do)."""
    supports_retrieve_callback = False
    uses_threads = True
    supports_sharedmem = True

    def configure(self, n_jobs=1, parallel=None, **kw):
        self.parallel = parallel
        return max(2, n_jobs)

    def effective_n_jobs(self, n_jobs):
        return max(2, n_jobs or 2)

    def submit(self, func, callback=None):
        out = _Immediate(func)
        if callback is not None:
            callback(out)
        return out


STATE = {"at": None, "role": None, "hits": (), "delay": 0.03, "count": 0, "main": None, "stalls": 0}


def on_line(code, line):
    st = STATE
    if st["at"] is None or line != st["at"][1] or code.co_qualname != st["at"][0]:
        return
    me = threading.get_ident()
    is_main = me == st["main"]
    if (st["role"] == "main") != is_main:
        return
    st["count"] += 1
    if st["count"] in st["hits"]:
        st["stalls"] += 1
        time.sleep(st["delay"])


def run_late_iter(c):
    """the output generator is closed (or a task fails) while a completion callback is inside the input iterator, which
    then raises; the backend (concurrent.futures style) cannot join its callback threads.  The next call on the same
    object must return exactly its own results."""
    import warnings
    gate, entered, release = threading.Event(), threading.Event(), threading.Event()
    STATE.update(at=None, main=threading.get_ident())

    ran_late = []

    def held(i, fails):
        # tasks after the first wait until the consumer has its first value: the callback that reaches the slow
        # end of the input then finds nobody waiting for the dispatch lock
        if i == 99:
            ran_late.append(i)
        if i >= 1:
            release.wait(5)
        return task(i, fails)

    def inputs():
        # slices are n_jobs * batch_size = 2 items long: the caller takes 0, 1; the callback of task 0 takes 2, 3 (no
        # blocking yet); later callbacks first use the look-ahead queue, then one of them asks for item 4
        for i in range(4):
            yield delayed(held)(i, c.get("how") == "taskfail" and i == 1)
        entered.set()
        gate.wait(5)
        if c.get("how") == "late_item":
            # the input is merely slow: it hands out one more item after the call has been closed
            yield delayed(held)(99, False)
            return
        raise IterFail(4)
    p = Parallel(n_jobs=2, backend=CFBackend(), pre_dispatch=2, batch_size=1, return_as=c["return_as"])
    out = {"first": None, "calls": []}
    g = p(inputs())
    try:
        out["first"] = next(g)
        release.set()
        out["entered"] = entered.wait(5)
        with warnings.catch_warnings():
            warnings.simplefilter("ignore")
            if c.get("how") == "taskfail":
                try:
                    list(g)
                except BaseException as e:  # noqa
                    out["first_raised"] = type(e).__name__
            else:
                g.close()
    except BaseException as e:  # noqa
        out["first_raised"] = type(e).__name__
    gate.set()
    time.sleep(0.4)
    call = {"values": None, "raised": None}
    try:
        call["values"] = list(p(delayed(task)(i, False) for i in range(4)))
    except BaseException as e:  # noqa
        call["raised"] = [type(e).__name__, [a if isinstance(a, (int, str)) else repr(a) for a in e.args]]
    out["calls"].append(call)
    out["ran_after_close"] = list(ran_late)
    return out


def run_exit_block(c):
    """a `with Parallel(..., return_as=generator...)` block is left while its output generator is only partly consumed and
    tasks are still running on a backend that cannot recall them (concurrent.futures style); the completions that arrive
    AFTER the block was left must not take further items from the input; afterwards the object is usable again."""
    import warnings
    release = threading.Event()
    taken = []
    STATE.update(at=None, main=threading.get_ident())

    def held(i):
        if i >= 1:
            release.wait(5)
        return i

    def inputs():
        for i in range(40):
            taken.append(i)
            yield delayed(held)(i)
    out = {"calls": []}
    with warnings.catch_warnings():
        warnings.simplefilter("ignore")
        with Parallel(n_jobs=2, backend=CFBackend(), pre_dispatch=c.get("pre", 2), batch_size=1, return_as=c["return_as"]) as p:
            g = p(inputs())
            out["first"] = next(g)
            # the callback of task 0 may still be dispatching: let it finish (every other task is held)
            n = -1
            while n != len(taken):
                n = len(taken)
                time.sleep(0.15)
            out["taken_at_exit"] = len(taken)
        release.set()
        time.sleep(0.5)
        out["taken_late"] = len(taken)
        # what the abandoned generator does afterwards is recorded, not judged (and must not stop the probe)
        def rest():
            try:
                out["rest"] = list(g)
            except BaseException as e:  # noqa
                out["rest_raised"] = type(e).__name__
        tr = threading.Thread(target=rest, daemon=True)
        tr.start()
        tr.join(3)
        out["rest_hangs"] = tr.is_alive()
        out["taken_end"] = len(taken)
    call = {"values": None, "raised": None}
    try:
        call["values"] = list(Parallel(n_jobs=2, backend=CFBackend(), return_as="list")(delayed(task)(i, False) for i in range(4)))
    except BaseException as e:  # noqa
        call["raised"] = [type(e).__name__, [a if isinstance(a, (int, str)) else repr(a) for a in e.args]]
    out["calls"].append(call)
    return out


def run_case(c):
    if c.get("kind") in ("late_iter", "exit_block"):
        res = {}
        fn = run_late_iter if c["kind"] == "late_iter" else run_exit_block
        t = threading.Thread(target=lambda: res.update(fn(c)), daemon=True)
        t.start()
        t.join(c.get("watchdog", 30))
        if t.is_alive():
            res["hang"] = True
        res.setdefault("calls", [])
        res.update(stalls=0, visits=0)
        return res
    res = {"calls": [], "stalls": 0, "visits": 0}

    def body():
        STATE.update(at=tuple(c["at"]) if c.get("at") else None, role=c.get("role", "cb"), hits=tuple(c.get("hits", [1, 2, 3])), delay=c.get("delay", 0.03),
                     count=0, stalls=0, main=threading.get_ident())
        backend = CFBackend() if c.get("backend") == "cf" else (ImmediateBackend() if c.get("backend") == "immediate" else "threading")
        if c.get("submit_fail_at") is not None:
            backend.submit_fail_at = c["submit_fail_at"]
        p = Parallel(n_jobs=c["n_jobs"], backend=backend, pre_dispatch=c["pre"], return_as=c["return_as"],
                     batch_size=c.get("batch_size", "auto"), timeout=c.get("timeout"))
        for k in range(2 if c.get("reuse") else 1):
            tf = c.get("tfail") if k == 0 else None
            jf = c.get("ifail") if k == 0 else None
            out = {"values": None, "raised": None}
            if k > 0 and c.get("submit_fail_at") is not None:
                backend.submit_fail_at = None
            try:
                r = p(gen_input(c["N"], tf, jf))
                out["values"] = list(r)
            except BaseException as e:  # noqa
                out["raised"] = [type(e).__name__, [a if isinstance(a, (int, str)) else repr(a) for a in e.args]]
            res["calls"].append(out)
            res["refused"] = bool(getattr(backend, "refused", False))
        STATE["at"] = None
    t = threading.Thread(target=body, daemon=True)
    t.start()
    t.join(c.get("watchdog", 30))
    res["stalls"], res["visits"] = STATE["stalls"], STATE["count"]
    if t.is_alive():
        res["hang"] = True
        # where every thread is stuck (diagnostic only)
        import traceback
        stacks = {}
        for ident, fr in sys._current_frames().items():
            if ident == threading.get_ident():
                continue
            stacks[str(ident) + ("(caller)" if ident == STATE["main"] else "")] = [
                "%s:%d %s" % (os.path.basename(f.filename), f.lineno, f.name) for f in traceback.extract_stack(fr)[-7:]]
        res["stacks"] = stacks
    return res


def main():
    if "--points" in sys.argv:
        print(json.dumps(points()))
        return
    MON.use_tool_id(TOOL, "verif-stall")
    MON.register_callback(TOOL, MON.events.LINE, on_line)
    for code in codes():
        MON.set_local_events(TOOL, code, MON.events.LINE)
    for line in sys.stdin:
        line = line.strip()
        if not line:
            continue
        c = json.loads(line)
        try:
            r = run_case(c)
        except BaseException as e:  # noqa
            import traceback
            r = {"harness_error": repr(e), "tb": traceback.format_exc()}
        sys.stdout.write(json.dumps(r) + "\n")
        sys.stdout.flush()
        if r.get("hang"):
            os._exit(0)      # the stuck thread cannot be recovered: the harness restarts after this case
    os._exit(0)


if __name__ == "__main__":
    main()
