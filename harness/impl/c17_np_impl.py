"""Implementation side of C17, numpy stream (interpreter: python3-vt, PYTHONPATH = repo): where mmap_mode is USED.
stdin: one JSON case per line; stdout: one JSON result per line.

{"backend":"multiprocessing"|"loky","arg":mode|null,"ctx":mode|null}: an array above max_nbytes is sent to the workers of
    Parallel(n_jobs=2, backend=..., max_nbytes=10[, mmap_mode=arg]) [inside parallel_config(mmap_mode=ctx)]; every task reports
    what it really received: class, memmap mode, writability.  "arg": "<unset>" means the argument is not passed.
"""
import json
import sys
import warnings

warnings.simplefilter("ignore")


def look(a):
    return [type(a).__name__, getattr(a, "mode", None), bool(a.flags.writeable), int(a[3])]


def main():
    out = sys.stdout
    sys.stdout = sys.stderr
    import contextlib
    import numpy as np
    from joblib import Parallel, delayed, parallel_config
    a = np.arange(4000, dtype=np.int64)
    for line in sys.stdin:
        line = line.strip()
        if not line:
            continue
        c = json.loads(line)
        try:
            kw = {} if c["arg"] == "<unset>" else {"mmap_mode": c["arg"]}
            cm = parallel_config(mmap_mode=c["ctx"]) if c["ctx"] != "<unset>" else contextlib.nullcontext()
            with cm:
                p = Parallel(n_jobs=2, backend=c["backend"], max_nbytes=10, **kw)
                res = p(delayed(look)(a) for _ in range(3))
            r = {"resolved": p._backend_kwargs["mmap_mode"], "received": res}
        except BaseException as e:  # noqa
            r = {"harness_error": repr(e)[:300]}
        out.write(json.dumps(r) + "\n")
        out.flush()


if __name__ == "__main__":
    main()
