"""Evaluates pre_dispatch expressions with joblib._utils.eval_expr and with Python's own eval (the reference).
stdin: one JSON list of expression strings; stdout: one JSON list of [real, reference] with value encodings
["i", int] | ["I", bit length, md5 of hex] (huge int) | ["f", float.hex] | ["e", exception class name]."""
import json
import sys

from joblib._utils import eval_expr


def enc(f, s):
    try:
        v = f(s)
    except BaseException as e:  # noqa
        return ["e", type(e).__name__]
    if isinstance(v, bool) or not isinstance(v, (int, float)):
        return ["o", repr(v)[:60]]
    if isinstance(v, int):
        if v.bit_length() > 4000:
            # a huge integer (8 ** 8 ** 4 ...): compared by size and digest; str() of it would exceed Python's digit limit
            import hashlib
            return ["I", str(v.bit_length()), hashlib.md5(hex(v).encode()).hexdigest()]
        return ["i", str(v)]
    return ["f", v.hex()]


exprs = json.loads(sys.stdin.read())
print(json.dumps([[enc(eval_expr, s), enc(lambda t: eval(t, {"__builtins__": {}}), s)] for s in exprs]))
