"""Implementation side of C17.  stdin: one JSON case per line; stdout: one JSON result per line.

case   : {"threads": [prog, ...], "schedule": [tid, ...]}
prog   : ["skip"] | ["seq", p, q] | ["with", mgr, spec, body] | ["with", mgr, spec, body, "gen"] | ["obs", q] | ["raise"] | ["try", p]
         (the "gen" form runs the block inside a generator that is closed after the body: the block is left through GeneratorExit)
mgr    : "config" | "backend"                       (parallel_config / parallel_backend)
spec   : dict, keys absent = argument left at its default:
         backend  : ["inst", kind, level|null, by_name] | ["invalid"]
         inner    : int (inner_max_num_threads) ;  params : true (an extra **backend_params entry)
         n_jobs   : [v]   (wrapped: [null] is n_jobs=None)
         verbose, temp, mmap, prefer, require : int codes ; maxnb : ["none"] | ["int", z] | ["str", mant, unit_char]
q      : ["parallel", args]  (args like spec)  | ["active", prefer|null, require|null] | ["config"]

Threads are real threading.Thread objects; before every action that touches the configuration
(constructing a manager, leaving a block, an observation) a thread waits for its turn in "schedule",
so the interleaving is the scripted one (no sleeps).

result : {"traces": [[obs_result, ...] per thread], "blocks": [[block_record, ...] per thread],
          "obs_ctx": [[[innermost-first list of the specs enclosing each observation] ...] per thread],
          "final": [config snapshot per thread], "main_after": snapshot of the main thread}
"""
import json
import sys
import threading
import warnings

warnings.simplefilter("ignore")
OUT = sys.stdout
sys.stdout = sys.stderr  # joblib prints a notice when it replaces a backend under verbose >= 10

import joblib.parallel as jp  # noqa: E402
from joblib import Parallel, parallel_backend, parallel_config  # noqa: E402
from joblib._parallel_backends import (  # noqa: E402
    LokyBackend, MultiprocessingBackend, ParallelBackendBase, SequentialBackend, ThreadingBackend)


class CustShm(ParallelBackendBase):
    supports_sharedmem = True
    uses_threads = True

    def effective_n_jobs(self, n_jobs):
        return n_jobs

    def submit(self, func, callback=None):
        raise RuntimeError("not used")


class CustProc(ParallelBackendBase):
    supports_sharedmem = False
    uses_threads = False
    default_n_jobs = -1      # as the dask backend: "all workers" unless told otherwise

    def effective_n_jobs(self, n_jobs):
        return n_jobs

    def submit(self, func, callback=None):
        raise RuntimeError("not used")


KINDS = {"seq": SequentialBackend, "thr": ThreadingBackend, "loky": LokyBackend, "mp": MultiprocessingBackend,
         "cshm": CustShm, "cproc": CustProc}
NAMES = {"seq": "sequential", "thr": "threading", "loky": "loky", "mp": "multiprocessing"}
MMAP = {0: None, 1: "r", 2: "r+", 3: "w+", 4: "c"}
PREFER = {0: None, 1: "threads", 2: "processes", 3: "bogus"}
REQUIRE = {0: None, 1: "sharedmem", 2: "bogus"}
ARGNAME = {"temp": "temp_folder", "maxnb": "max_nbytes", "mmap": "mmap_mode"}


def temp_val(c):
    return None if c == 0 else "/tmp/verif-c17-%d" % c


def enc(table, v):
    for k, x in table.items():
        if x == v:
            return k
    return ["unknown", repr(v)]


def enc_temp(v):
    if v is None:
        return 0
    if isinstance(v, str) and v.startswith("/tmp/verif-c17-"):
        return int(v[len("/tmp/verif-c17-"):])
    return ["unknown", repr(v)]


def kind_of(b):
    for k, cls in KINDS.items():
        if type(b) is cls:
            return k
    return "unknown:" + type(b).__name__


def mk_backend(b):
    if b[0] == "invalid":
        return "no-such-backend"
    _, kind, level, by_name = b
    if by_name and level is None and kind in NAMES:
        return NAMES[kind]
    return KINDS[kind](nesting_level=level)


def mk_kwargs(spec):
    kw = {}
    for k, v in spec.items():
        if k == "backend":
            kw["backend"] = mk_backend(v)
        elif k == "n_jobs":
            kw["n_jobs"] = v[0]
        elif k == "verbose":
            kw["verbose"] = v
        elif k == "temp":
            kw["temp_folder"] = temp_val(v)
        elif k == "mmap":
            kw["mmap_mode"] = MMAP[v]
        elif k == "prefer":
            kw["prefer"] = PREFER[v]
        elif k == "require":
            kw["require"] = REQUIRE[v]
        elif k == "inner":
            kw["inner_max_num_threads"] = v
        elif k == "params":
            kw["verif_backend_param"] = 1      # an extra **backend_params entry
        elif k == "maxnb":
            kw["max_nbytes"] = None if v[0] == "none" else (v[1] if v[0] == "int" else "%d%s" % (v[1], v[2]))
        else:
            raise KeyError(k)
    return kw


def enc_maxnb(v):
    if v is None:
        return ["none"]
    if isinstance(v, int):
        return ["int", v]
    if isinstance(v, str):
        try:
            return ["str", int(v[:-1]), v[-1]]
        except ValueError:
            pass
    return ["unknown", repr(v)]


def snapshot():
    cfg = getattr(jp._backend, "config", jp.default_parallel_config)
    out = {}
    for k, v in cfg.items():
        if isinstance(v, jp._Sentinel):
            if v is not jp.default_parallel_config[k]:
                out[k] = ["foreign-sentinel"]
            continue
        if k == "backend":
            out["backend"] = [kind_of(v), v.nesting_level]
        elif k == "n_jobs":
            out["n_jobs"] = [v]
        elif k == "verbose":
            out["verbose"] = v
        elif k == "temp_folder":
            out["temp"] = enc_temp(v)
        elif k == "mmap_mode":
            out["mmap"] = enc(MMAP, v)
        elif k == "prefer":
            out["prefer"] = enc(PREFER, v)
        elif k == "require":
            out["require"] = enc(REQUIRE, v)
        elif k == "max_nbytes":
            out["maxnb"] = enc_maxnb(v)
        else:
            out[k] = ["unknown-key"]
    return out


def observe(q):
    try:
        if q[0] == "parallel":
            p = Parallel(**mk_kwargs(q[1]))
            kw = dict(p._backend_kwargs)
            kw.pop("context", None)
            extra = sorted(set(kw) - {"max_nbytes", "temp_folder", "mmap_mode", "prefer", "require", "verbose"})
            r = {"ok": [kind_of(p._backend), p._backend.nesting_level, p.n_jobs, p.verbose,
                        kw.get("max_nbytes", "missing"), enc_temp(kw.get("temp_folder", "missing")),
                        enc(MMAP, kw.get("mmap_mode", "missing")), enc(PREFER, kw.get("prefer", "missing")),
                        enc(REQUIRE, kw.get("require", "missing")), kw.get("verbose", "missing")]}
            if extra:
                r["extra_kwargs"] = extra
            return r
        if q[0] == "active":
            kw = {}
            if q[1] is not None:
                kw["prefer"] = PREFER[q[1]]
            if q[2] is not None:
                kw["require"] = REQUIRE[q[2]]
            b, n = jp.get_active_backend(**kw)
            return {"ok": [kind_of(b), b.nesting_level, n]}
        if q[0] == "config":
            return {"config": snapshot()}
    except Exception as e:  # noqa
        return {"raise": type(e).__name__}
    raise KeyError(q[0])


class Sched:
    def __init__(self, schedule, n):
        self.schedule = list(schedule)
        self.i = 0
        self.done = [False] * n
        self.cv = threading.Condition()

    def _skip(self):
        while self.i < len(self.schedule) and self.done[self.schedule[self.i]]:
            self.i += 1

    def turn(self, tid):
        with self.cv:
            self._skip()
            ok = self.cv.wait_for(lambda: self.i >= len(self.schedule) or self.schedule[self.i] == tid, timeout=60)
            if not ok:
                raise RuntimeError("scheduler stuck")
            if self.i < len(self.schedule):
                self.i += 1
                self._skip()
            self.cv.notify_all()

    def finish(self, tid):
        with self.cv:
            self.done[tid] = True
            self._skip()
            self.cv.notify_all()


class ProgExc(Exception):
    pass


class Runner:
    def __init__(self, tid, sched):
        self.tid = tid
        self.sched = sched
        self.trace = []
        self.blocks = []
        self.obs_ctx = []
        self.stack = []

    def run(self, p):
        k = p[0]
        if k == "skip":
            return
        if k == "seq":
            self.run(p[1])
            self.run(p[2])
            return
        if k == "raise":
            raise ProgExc()
        if k == "try":
            try:
                self.run(p[1])
            except Exception:
                pass
            return
        if k == "obs":
            self.sched.turn(self.tid)
            r = observe(p[1])
            self.trace.append(r)
            self.obs_ctx.append([list(s) for s in self.stack])
            if "raise" in r:
                # re-raise as the program would see it
                raise ValueError("observed call raised " + r["raise"])
            return
        if k == "with":
            mgr, spec, body = p[1], p[2], p[3]
            cls = parallel_config if mgr == "config" else parallel_backend
            kw = mk_kwargs(spec)
            if mgr == "backend":
                args = [kw.pop("backend")]
            else:
                args = []
            rec = {"mgr": mgr, "spec": spec, "pre": None, "in": None, "post": None, "exit": None,
                   "depth": len(self.stack)}
            self.sched.turn(self.tid)
            rec["pre"] = snapshot()
            try:
                cm = cls(*args, **kw)
            except Exception as e:  # noqa
                rec["exit"] = "construct-raised:" + type(e).__name__
                rec["post"] = snapshot()
                self.blocks.append(rec)
                raise
            def block():
                with cm:
                    rec["in"] = snapshot()
                    self.stack.insert(0, (mgr, spec))
                    try:
                        self.run(body)
                        rec["exit"] = "normal"
                        if len(p) > 4:
                            rec["exit"] = "generator-close"
                            yield 1          # the generator is closed here: GeneratorExit leaves the with block
                    except GeneratorExit:
                        raise
                    except BaseException:
                        rec["exit"] = "exception"
                        raise
                    finally:
                        self.stack.pop(0)
                        self.sched.turn(self.tid)
            try:
                it = block()
                for _ in it:
                    it.close()
                    break
            finally:
                rec["post"] = snapshot()
                self.blocks.append(rec)
            return
        raise KeyError(k)


def run_case(c):
    # "default_backend": the class registered as DEFAULT_BACKEND for the duration of the case
    # (what register_parallel_backend(name, factory, make_default=True) does)
    dk = c.get("default_backend")
    if dk is None:
        return run_case_(c)
    saved = jp.DEFAULT_BACKEND
    jp.register_parallel_backend(NAMES[dk], KINDS[dk], make_default=True)
    try:
        return run_case_(c)
    finally:
        jp.DEFAULT_BACKEND = saved


def run_case_(c):
    n = len(c["threads"])
    sched = Sched(c.get("schedule", []), n)
    runners = [Runner(t, sched) for t in range(n)]
    finals = [None] * n
    errors = [None] * n

    def body(t):
        try:
            try:
                runners[t].run(c["threads"][t])
            except (ProgExc, ValueError, AssertionError):
                pass
            finals[t] = snapshot()
        except BaseException as e:  # harness-level
            errors[t] = repr(e)
        finally:
            sched.finish(t)
    ths = [threading.Thread(target=body, args=(t,)) for t in range(n)]
    for th in ths:
        th.start()
    for th in ths:
        th.join(120)
    if any(th.is_alive() for th in ths):
        return {"harness_error": "thread did not finish"}
    if any(errors):
        return {"harness_error": str(errors)}
    return {"traces": [r.trace for r in runners], "blocks": [r.blocks for r in runners],
            "obs_ctx": [r.obs_ctx for r in runners], "final": finals, "main_after": snapshot()}


for line in sys.stdin:
    line = line.strip()
    if not line:
        continue
    c = json.loads(line)
    try:
        r = run_case(c)
    except BaseException as e:
        r = {"harness_error": repr(e)}
    OUT.write(json.dumps(r) + "\n")
    OUT.flush()
