#!/usr/bin/env python3
"""Evaluate seeded defects (mutants) against the checks.

usage: seeded_eval.py <src_dir> <PID> <k> [--keep]     e.g.  seeded_eval.py /tmp/mut/out/C05 C05 1
  <src_dir> holds patch_<k>.diff, demo_<k>.py, meta_<k>.json produced by an independent agent.

Steps (all in a scratch worktree outside /repo and /verif, removed afterwards):
  1. the patch applies to a clean checkout of /repo's HEAD;
  2. the demonstration exits 0 on the unchanged tree and non-zero on the changed one;
  3. the repository's own test-suite still passes with the change (modules given, or the full suite);
  4. `VERIF_REPO=<changed tree> ./check <PID>` is run; the VIOLATION lines are recorded.
Writes /verif/seeded/<PID>-<k>/{patch.diff, demo.py, meta.json} when --keep is given and 1-3 hold.
"""
import json
import os
import shutil
import subprocess
import sys
import time

ROOT = os.path.dirname(os.path.dirname(os.path.abspath(__file__)))
PY = "/venv/bin/python"


def sh(cmd, cwd=None, env=None, timeout=3600):
    p = subprocess.run(cmd, cwd=cwd, env=env, stdout=subprocess.PIPE, stderr=subprocess.STDOUT, text=True,
                       timeout=timeout)
    return p.returncode, p.stdout


def main():
    src, pid, k = sys.argv[1], sys.argv[2], sys.argv[3]
    keep = "--keep" in sys.argv
    tests = None
    for a in sys.argv[4:]:
        if a.startswith("--tests="):
            tests = a[len("--tests="):].split(",")
    patch = os.path.join(src, "patch_%s.diff" % k)
    demo = os.path.join(src, "demo_%s.py" % k)
    meta = json.load(open(os.path.join(src, "meta_%s.json" % k))) if os.path.exists(os.path.join(src, "meta_%s.json" % k)) else {}
    wt = "/tmp/seedwt-%s-%s" % (pid, k)
    sh(["git", "-C", "/repo", "worktree", "remove", "--force", wt])
    rc, out = sh(["git", "-C", "/repo", "worktree", "add", "--detach", wt, "HEAD"])
    res = {"property": pid, "k": k, "summary": meta.get("summary"), "needs": meta.get("needs")}
    try:
        rc, out = sh(["git", "apply", patch], cwd=wt)
        res["applies"] = rc == 0
        if rc != 0:
            res["apply_error"] = out[-500:]
            print(json.dumps(res))
            return
        env = dict(os.environ, PYTHONPATH=wt, PYTHONDONTWRITEBYTECODE="1")
        env0 = dict(os.environ, PYTHONPATH="/repo", PYTHONDONTWRITEBYTECODE="1")
        demo_py = PY
        head = open(demo).read(4000)
        if "numpy" in head or "import np" in head:
            demo_py = "python3-vt"
        try:
            rc1, out1 = sh([demo_py, demo, wt], cwd="/tmp", env=env, timeout=900)
        except subprocess.TimeoutExpired:
            rc1, out1 = 124, "demo timed out (hang)"
        try:
            rc0, out0 = sh([demo_py, demo, "/repo"], cwd="/tmp", env=env0, timeout=900)
        except subprocess.TimeoutExpired:
            rc0, out0 = 124, "demo timed out (hang)"
        res["demo_changed_rc"] = rc1
        res["demo_unchanged_rc"] = rc0
        res["demo_changed_out"] = out1[-600:]
        # tests
        if tests is None:
            tests = []
        tcmd = [PY, "-m", "pytest", "-q", "-p", "no:cacheprovider", "--timeout=900", "-x"] + \
               (["joblib/test/" + t for t in tests] if tests else [])
        t0 = time.time()
        rct, outt = sh(tcmd, cwd=wt, env=dict(os.environ, PYTHONDONTWRITEBYTECODE="1"), timeout=3000)
        res["tests_rc"] = rct
        res["tests_cmd"] = " ".join(tcmd)
        res["tests_tail"] = [l for l in outt.splitlines() if "passed" in l or "failed" in l or "error" in l.lower()][-3:]
        res["tests_s"] = round(time.time() - t0)
        # the check
        t0 = time.time()
        envc = dict(os.environ, VERIF_REPO=wt)
        rcc, outc = sh([os.path.join(ROOT, "check"), pid, "--tier", "quick"], cwd=ROOT, env=envc, timeout=3000)
        res["check_rc"] = rcc
        res["check_lines"] = [l for l in outc.splitlines() if l.startswith("VIOLATION") or "tier=" in l][-6:]
        res["check_s"] = round(time.time() - t0)
        viol = [l for l in outc.splitlines() if l.startswith("VIOLATION")]
        if viol:
            rp = viol[0].split("replay=")[1].split()[0]
            try:
                res["first_violation"] = json.load(open(rp))["what"][:400]
            except Exception:
                pass
        res["caught"] = rcc != 0 and bool(viol)
        res["valid"] = res["applies"] and rc0 == 0 and rc1 != 0 and rct == 0
        if keep and res["valid"]:
            d = os.path.join(ROOT, "seeded", "%s-%s" % (pid, k))
            os.makedirs(d, exist_ok=True)
            shutil.copy(patch, os.path.join(d, "patch.diff"))
            shutil.copy(demo, os.path.join(d, "demo.py"))
            json.dump({"property": pid, "summary": meta.get("summary"), "needs": meta.get("needs"),
                       "origin": "independent sub-agent given only the property text and a scratch worktree",
                       "confirmed": {"patch_applies": True, "demo_unchanged_rc": rc0, "demo_changed_rc": rc1,
                                     "tests_cmd": res["tests_cmd"], "tests_rc": rct, "tests_tail": res["tests_tail"]},
                       "check": {"cmd": "VERIF_REPO=<changed tree> ./check %s --tier quick" % pid, "rc": rcc,
                                 "caught": res["caught"], "lines": res["check_lines"],
                                 "first_violation": res.get("first_violation")}},
                      open(os.path.join(d, "meta.json"), "w"), indent=1)
        print(json.dumps(res))
    finally:
        sh(["git", "-C", "/repo", "worktree", "remove", "--force", wt])
        shutil.rmtree(wt, ignore_errors=True)


if __name__ == "__main__":
    main()
