#!/usr/bin/env python3
"""Development tool (not a check, never stands in for a theorem): operator-level mutants of the functions of
joblib/parallel.py that model M1 covers, to look for blind spots of ./check C01 C04 C09 C16.

usage: mutate_m1.py <n_mutants> <seed> [--out /tmp/mut_m1.jsonl]
For every sampled mutant (in a scratch worktree outside /repo and /verif, removed at the end):
  1. the four quick checks run with VERIF_REPO=<scratch>; the first one that reports a VIOLATION ends the mutant;
  2. a mutant that no check reports is run against joblib's own test_parallel.py: killed there = not a candidate;
  3. survivors of both are printed for inspection (equivalent mutants or gaps).
"""
import ast
import copy
import json
import os
import random
import subprocess
import sys
import time

ROOT = os.path.dirname(os.path.dirname(os.path.abspath(__file__)))
TARGETS = {
    "BatchCompletionCallBack": ["__init__", "get_result", "_return_or_raise", "get_status", "__call__", "_dispatch_new",
                                "_retrieve_result", "_register_outcome"],
    "Parallel": ["_dispatch", "_register_new_job", "dispatch_next", "dispatch_one_batch", "_abort", "_start", "_get_outputs",
                 "_wait_retrieval", "_retrieve", "_raise_error_fast", "_reset_run_tracking", "_terminate_and_reset",
                 "_get_sequential_output", "_is_completed", "__enter__", "__exit__"],
}


class Site:
    def __init__(self, kind, func, lineno, apply, desc):
        self.kind, self.func, self.lineno, self.apply, self.desc = kind, func, lineno, apply, desc


def find_sites(tree):
    sites = []
    for cls in [n for n in tree.body if isinstance(n, ast.ClassDef) and n.name in TARGETS]:
        for fn in [n for n in cls.body if isinstance(n, ast.FunctionDef) and n.name in TARGETS[cls.name]]:
            qn = cls.name + "." + fn.name
            for node in ast.walk(fn):
                if isinstance(node, ast.Compare) and len(node.ops) == 1:
                    op = node.ops[0]
                    swaps = {ast.Lt: ast.LtE, ast.LtE: ast.Lt, ast.Gt: ast.GtE, ast.GtE: ast.Gt, ast.Eq: ast.NotEq,
                             ast.NotEq: ast.Eq, ast.Is: ast.IsNot, ast.IsNot: ast.Is, ast.In: ast.NotIn, ast.NotIn: ast.In}
                    if type(op) in swaps:
                        def ap(n=node, new=swaps[type(op)]):
                            n.ops = [new()]
                        sites.append(Site("cmp", qn, node.lineno, ap, "%s -> %s" % (type(op).__name__, swaps[type(op)].__name__)))
                if isinstance(node, ast.BoolOp):
                    def ap(n=node):
                        n.op = ast.Or() if isinstance(n.op, ast.And) else ast.And()
                    sites.append(Site("boolop", qn, node.lineno, ap, "and <-> or"))
                if isinstance(node, ast.UnaryOp) and isinstance(node.op, ast.Not):
                    def ap(n=node):
                        n.op = ast.UAdd()      # `not x` -> `+x` is not boolean-safe; replace the operand instead
                    # implemented below as constant-true replacement of the test; skipped here
                if isinstance(node, ast.Constant) and isinstance(node.value, bool):
                    def ap(n=node):
                        n.value = not n.value
                    sites.append(Site("bool", qn, node.lineno, ap, "%s -> %s" % (node.value, not node.value)))
                if isinstance(node, ast.Constant) and type(node.value) is int and 0 <= node.value <= 10:
                    def ap(n=node):
                        n.value = n.value + 1
                    sites.append(Site("int", qn, node.lineno, ap, "%d -> %d" % (node.value, node.value + 1)))
                if isinstance(node, ast.If):
                    def ap(n=node):
                        n.test = ast.UnaryOp(op=ast.Not(), operand=n.test)
                    sites.append(Site("negif", qn, node.lineno, ap, "if c -> if not c"))
                for field in ("body", "orelse", "finalbody"):
                    stmts = getattr(node, field, None)
                    if isinstance(stmts, list) and stmts and isinstance(stmts[0], ast.stmt):
                        for i, st in enumerate(stmts):
                            if isinstance(st, (ast.Assign, ast.AugAssign)) or (isinstance(st, ast.Expr) and isinstance(st.value, ast.Call)):
                                if isinstance(st, ast.Expr) and isinstance(st.value, ast.Constant):
                                    continue
                                def ap(lst=stmts, k=i):
                                    lst[k] = ast.Pass()
                                sites.append(Site("del", qn, st.lineno, ap, "delete statement: " + ast.unparse(st)[:60]))
                            if i + 1 < len(stmts) and all(isinstance(x, (ast.Assign, ast.AugAssign, ast.Expr)) for x in stmts[i:i + 2]) \
                                    and not any(isinstance(x, ast.Expr) and isinstance(x.value, ast.Constant) for x in stmts[i:i + 2]):
                                def ap(lst=stmts, k=i):
                                    lst[k], lst[k + 1] = lst[k + 1], lst[k]
                                sites.append(Site("swap", qn, st.lineno, ap, "swap with next statement: " + ast.unparse(st)[:40]))
    return sites


def sh(cmd, **kw):
    p = subprocess.run(cmd, stdout=subprocess.PIPE, stderr=subprocess.STDOUT, text=True, **kw)
    return p.returncode, p.stdout


def main():
    n, seed = int(sys.argv[1]), int(sys.argv[2])
    out = "/tmp/mut_m1.jsonl"
    if "--out" in sys.argv:
        out = sys.argv[sys.argv.index("--out") + 1]
    rng = random.Random(seed)
    wt = "/tmp/mutm1-%d" % seed
    sh(["git", "-C", "/repo", "worktree", "remove", "--force", wt])
    sh(["git", "-C", "/repo", "worktree", "add", "--detach", wt, "HEAD"])
    path = os.path.join(wt, "joblib", "parallel.py")
    src = open(path).read()
    base = ast.parse(src)
    nsites = len(find_sites(base))
    picks = rng.sample(range(nsites), min(n, nsites))
    try:
        for idx in picks:
            tree = copy.deepcopy(base)
            sites = find_sites(tree)
            s = sites[idx]
            s.apply()
            ast.fix_missing_locations(tree)
            try:
                code = ast.unparse(tree)
                compile(code, path, "exec")
            except Exception as e:  # noqa
                continue
            open(path, "w").write(code)
            rec = {"site": idx, "kind": s.kind, "func": s.func, "line": s.lineno, "desc": s.desc, "caught_by": None}
            t0 = time.time()
            for prop in ("C04", "C16", "C09", "C01"):
                rc, o = sh([os.path.join(ROOT, "check"), prop, "--tier", "quick"], cwd=ROOT,
                           env=dict(os.environ, VERIF_REPO=wt), timeout=3000)
                v = [l for l in o.splitlines() if l.startswith("VIOLATION")]
                if rc != 0 and v:
                    rec["caught_by"] = prop
                    try:
                        rec["what"] = json.load(open(v[0].split("replay=")[1].split()[0]))["what"][:160]
                    except Exception:
                        pass
                    break
            rec["check_s"] = round(time.time() - t0)
            if rec["caught_by"] is None:
                try:
                    rc, o = sh(["/venv/bin/python", "-m", "pytest", "-q", "-x", "-p", "no:cacheprovider", "--timeout=600",
                                "joblib/test/test_parallel.py"], cwd=wt, env=dict(os.environ, PYTHONDONTWRITEBYTECODE="1"), timeout=2400)
                except subprocess.TimeoutExpired:
                    rc = 124
                rec["tests_rc"] = rc
            with open(out, "a") as f:
                f.write(json.dumps(rec) + "\n")
            print(json.dumps(rec), flush=True)
    finally:
        open(path, "w").write(src)
        sh(["git", "-C", "/repo", "worktree", "remove", "--force", wt])


if __name__ == "__main__":
    main()
