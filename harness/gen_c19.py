"""Regenerate coq/Gen/C19_Padding.v from joblib/numpy_pickle.py (NumpyArrayWrapper).

The integer arithmetic of the inline-array header is TRANSLATED (harness/translate.py, fail-closed)
from the live source; everything around it (pickle.dump of object arrays, nditer, np.memmap) is not in
the translator's fragment, so the statements to translate are selected by AST pattern:

  write_array : inside `if numpy_array_alignment_bytes is not None:` the assignments
                current_pos = <handle>.tell(); pos_after_padding_byte = ...; padding_length = ...
                -> writer_padding (A pos) = padding_length
                and the guard of the padding write  `if padding_length != 0:`
                -> writer_writes_padding (padding_length)
  read_array  : the guard `if padding_length != 0:` of the skip           -> reader_skips (padding_length)
                max_read_count / read_count / read_size                   -> max_read_count, read_count, read_size
  read_mmap   : offset = current_pos ; offset += padding_length + 1       -> mmap_offset (pos padding_length)
                the argument of the final seek  offset + marray.nbytes    -> mmap_end (offset nbytes)

If a pattern is not found or a statement leaves the fragment, TranslateError is raised (the check then
falls back to the hand model tie and says so).
"""
import ast
import os
import sys

sys.path.insert(0, os.path.dirname(os.path.abspath(__file__)))
import common  # noqa: E402
import translate  # noqa: E402
from translate import TranslateError  # noqa: E402

HEADER = """(* REGENERATED on every run by harness/gen_c19.py from
   joblib/numpy_pickle.py (NumpyArrayWrapper.write_array / read_array / read_mmap).  Do not edit. *)
From Coq Require Import ZArith List Bool.
Require Import JV.Base.PyPrelude.
Import ListNotations.
Open Scope Z_scope.

"""


def _find_if(body, pred):
    for s in body:
        if isinstance(s, ast.If) and pred(ast.unparse(s.test)):
            return s
        for sub in ("body", "orelse"):
            inner = getattr(s, sub, None)
            if isinstance(inner, list) and inner and isinstance(inner[0], ast.stmt):
                r = _find_if(inner, pred)
                if r is not None:
                    return r
    return None


def _assign(body, name):
    for s in body:
        if isinstance(s, ast.Assign) and len(s.targets) == 1 and isinstance(s.targets[0], ast.Name) \
                and s.targets[0].id == name:
            return s
    raise TranslateError("assignment to %s not found" % name)


def _definition(name, params, ret, body):
    ps = " ".join("(%s : %s)" % p for p in params)
    return "Definition %s %s : result %s :=\n  %s.\n\n" % (name, ps, ret, body)


def build(repo=None):
    repo = repo or common.REPO
    path = os.path.join(repo, "joblib", "numpy_pickle.py")
    out = []
    # ------------------------------------------------------------ write_array
    node, _ = translate.find_function(path, "NumpyArrayWrapper.write_array")
    guard = _find_if(node.body, lambda t: t == "numpy_array_alignment_bytes is not None")
    if guard is None:
        raise TranslateError("write_array: alignment guard not found")
    stmts = [_assign(guard.body, "current_pos"), _assign(guard.body, "pos_after_padding_byte"),
             _assign(guard.body, "padding_length")]
    # the three assignments must be the first three statements of the guarded block, in this order
    if [ast.unparse(s) for s in guard.body[:3]] != [ast.unparse(s) for s in stmts]:
        raise TranslateError("write_array: unexpected statements before padding_length")
    tr = translate.Tr({"subst": {"pickler.file_handle.tell()": ("pos", "Z")}})
    env = {"numpy_array_alignment_bytes": ("A", "Z")}
    code = tr.block(stmts, env, lambda e: (lambda c: c[0] if c[2] else "Ok (%s)" % c[0])(
        tr.expr(ast.Name(id="padding_length", ctx=ast.Load()), e)))
    out.append(_definition("writer_padding", [("A", "Z"), ("pos", "Z")], "Z", code.replace("\n", "\n  ")))
    # buffersize = max(16 * 1024 ** 2 // array.itemsize, 1)
    bs = _assign(node.body, "buffersize")
    trb = translate.Tr({"subst": {"array.itemsize": ("itemsize", "Z"), "1024 ** 2": ("(1048576)", "Z")}})
    codeb = trb.block([bs], {}, lambda e: (lambda c: c[0] if c[2] else "Ok (%s)" % c[0])(
        trb.expr(ast.Name(id="buffersize", ctx=ast.Load()), e)))
    out.append(_definition("writer_buffersize", [("itemsize", "Z")], "Z", codeb.replace("\n", "\n  ")))
    # what is written after the padding-length byte: the statements following the assignments
    rest = guard.body[3:]
    texts = [ast.unparse(s) for s in rest]
    want = ["padding_length_byte = int.to_bytes(padding_length, length=1, byteorder='little')",
            "pickler.file_handle.write(padding_length_byte)"]
    if texts[:2] != want or len(rest) != 3 or not isinstance(rest[2], ast.If):
        raise TranslateError("write_array: unexpected padding write sequence: %r" % texts)
    wif = rest[2]
    wtexts = [ast.unparse(s) for s in wif.body]
    if wtexts != ["padding = b'\\xff' * padding_length", "pickler.file_handle.write(padding)"] or wif.orelse:
        raise TranslateError("write_array: unexpected padding body: %r" % wtexts)
    c, t, r = tr.truth(tr.expr(wif.test, {"padding_length": ("padding_length", "Z")}), wif.test)
    out.append(_definition("writer_writes_padding", [("padding_length", "Z")], "bool", c if r else "Ok (%s)" % c))
    # ------------------------------------------------------------ read_array
    node, _ = translate.find_function(path, "NumpyArrayWrapper.read_array")
    guard = _find_if(node.body, lambda t: t == "numpy_array_alignment_bytes is not None")
    if guard is None:
        raise TranslateError("read_array: alignment guard not found")
    texts = [ast.unparse(s) for s in guard.body]
    if texts[:2] != ["padding_byte = unpickler.file_handle.read(1)",
                     "padding_length = int.from_bytes(padding_byte, byteorder='little')"] \
            or len(guard.body) != 3 or not isinstance(guard.body[2], ast.If):
        raise TranslateError("read_array: unexpected header read sequence: %r" % texts)
    rif = guard.body[2]
    if [ast.unparse(s) for s in rif.body] != ["unpickler.file_handle.read(padding_length)"] or rif.orelse:
        raise TranslateError("read_array: unexpected skip body")
    tr = translate.Tr({})
    c, t, r = tr.truth(tr.expr(rif.test, {"padding_length": ("padding_length", "Z")}), rif.test)
    out.append(_definition("reader_skips", [("padding_length", "Z")], "bool", c if r else "Ok (%s)" % c))
    # chunked read loop
    else_blocks = [s for s in ast.walk(node) if isinstance(s, ast.If) and ast.unparse(s.test) == "self.dtype.hasobject"]
    if len(else_blocks) != 1:
        raise TranslateError("read_array: hasobject branch not found")
    body = else_blocks[0].orelse
    tr = translate.Tr({"subst": {"self.dtype.itemsize": ("itemsize", "Z"), "BUFFER_SIZE": ("buffer_size", "Z")}})
    mrc = _assign(body, "max_read_count")
    code = tr.block([mrc], {}, lambda e: (lambda c: c[0] if c[2] else "Ok (%s)" % c[0])(
        tr.expr(ast.Name(id="max_read_count", ctx=ast.Load()), e)))
    out.append(_definition("max_read_count", [("buffer_size", "Z"), ("itemsize", "Z")], "Z", code.replace("\n", "\n  ")))
    loops = [s for s in body if isinstance(s, ast.For)]
    if len(loops) != 1 or ast.unparse(loops[0].iter) != "range(0, count, max_read_count)" \
            or ast.unparse(loops[0].target) != "i":
        raise TranslateError("read_array: chunk loop header changed")
    lb = loops[0].body
    rc = _assign(lb, "read_count")
    rs = _assign(lb, "read_size")
    if ast.unparse(rs.value) != "int(read_count * self.dtype.itemsize)":
        raise TranslateError("read_array: read_size changed: " + ast.unparse(rs.value))
    rs2 = ast.Assign(targets=rs.targets, value=rs.value.args[0], lineno=rs.lineno)   # int(x) is the identity on ints
    want_tail = ["data = _read_bytes(unpickler.file_handle, read_size, 'array data')",
                 "array[i:i + read_count] = unpickler.np.frombuffer(data, dtype=self.dtype, count=read_count)",
                 "del data"]
    if [ast.unparse(s) for s in lb] != [ast.unparse(rc), ast.unparse(rs)] + want_tail:
        raise TranslateError("read_array: chunk loop body changed: %r" % [ast.unparse(s) for s in lb])
    env = {"max_read_count": ("mrc", "Z"), "count": ("count", "Z"), "i": ("i", "Z")}
    code = tr.block([rc, rs2], env, lambda e: "Ok (%s, %s)" % (e["read_count"][0], e["read_size"][0]))
    out.append(_definition("chunk_step", [("mrc", "Z"), ("itemsize", "Z"), ("count", "Z"), ("i", "Z")], "(Z * Z)",
                           code.replace("\n", "\n  ")))
    # ------------------------------------------------------------ read_mmap
    node, _ = translate.find_function(path, "NumpyArrayWrapper.read_mmap")
    guard = _find_if(node.body, lambda t: t == "numpy_array_alignment_bytes is not None")
    if guard is None:
        raise TranslateError("read_mmap: alignment guard not found")
    texts = [ast.unparse(s) for s in guard.body]
    if texts[:2] != ["padding_byte = unpickler.file_handle.read(1)",
                     "padding_length = int.from_bytes(padding_byte, byteorder='little')"] or len(guard.body) != 3:
        raise TranslateError("read_mmap: unexpected header read sequence: %r" % texts)
    pre = [_assign(node.body, "current_pos"), _assign(node.body, "offset")]
    tr = translate.Tr({"subst": {"unpickler.file_handle.tell()": ("pos", "Z")}})
    env = {"padding_length": ("padding_length", "Z")}
    code = tr.block(pre + [guard.body[2]], env, lambda e: "Ok (%s)" % e["offset"][0])
    out.append(_definition("mmap_offset", [("pos", "Z"), ("padding_length", "Z")], "Z", code.replace("\n", "\n  ")))
    seeks = [s for s in node.body if isinstance(s, ast.Expr) and isinstance(s.value, ast.Call)
             and ast.unparse(s.value.func) == "unpickler.file_handle.seek"]
    if len(seeks) != 1 or len(seeks[0].value.args) != 1:
        raise TranslateError("read_mmap: final seek not found")
    tr = translate.Tr({"subst": {"marray.nbytes": ("nbytes", "Z")}})
    c, t, r = tr.expr(seeks[0].value.args[0], {"offset": ("offset", "Z")})
    out.append(_definition("mmap_end", [("offset", "Z"), ("nbytes", "Z")], "Z", c if r else "Ok (%s)" % c))
    # make_memmap must receive offset=offset
    calls = [n for n in ast.walk(node) if isinstance(n, ast.Call) and ast.unparse(n.func) == "make_memmap"]
    if len(calls) != 1 or {k.arg: ast.unparse(k.value) for k in calls[0].keywords}.get("offset") != "offset":
        raise TranslateError("read_mmap: make_memmap is not called with offset=offset")
    # ------------------------------------------------------------ _memmapping_reducer.py
    rpath = os.path.join(repo, "joblib", "_memmapping_reducer.py")
    node, _ = translate.find_function(rpath, "_reduce_memmap_backed")
    body = node.body
    texts = [ast.unparse(s) for s in body]
    for need in ("a_start, a_end = byte_bounds(a)", "m_start = byte_bounds(m)[0]", "offset = a_start - m_start"):
        if need not in texts:
            raise TranslateError("_reduce_memmap_backed: statement %r not found" % need)
    start = texts.index("offset = a_start - m_start")
    rets = [i for i, st in enumerate(body) if isinstance(st, ast.Return)]
    if len(rets) != 1 or rets[0] != len(body) - 1:
        raise TranslateError("_reduce_memmap_backed: unexpected return structure")
    want_ret = ("(_strided_from_memmap, (m.filename, a.dtype, m.mode, offset, order, a.shape, strides, "
                "total_buffer_len, False))")
    if ast.unparse(body[-1].value) != want_ret:
        raise TranslateError("_reduce_memmap_backed: the returned tuple changed: " + ast.unparse(body[-1].value))
    subst = {"m.offset": ("m_offset", "Z"), "m.flags['F_CONTIGUOUS']": ("m_f", "bool"),
             "a.flags['F_CONTIGUOUS']": ("a_f", "bool"), "a.flags['C_CONTIGUOUS']": ("a_c", "bool"),
             "'F'": ("(1)", "Z"), "'C'": ("(0)", "Z"),          # order: 1 = 'F', 0 = 'C'
             "a.strides": ("(1)", "Z"),                          # strides: Some 1 = a.strides is sent, None = not sent
             "a.itemsize": ("itemsize", "Z")}
    tr = translate.Tr({"subst": subst})
    env = {"a_start": ("a_start", "Z"), "a_end": ("a_end", "Z"), "m_start": ("m_start", "Z")}

    def kret(e):
        ts = [e[n][1] for n in ("offset", "order", "strides", "total_buffer_len")]
        if ts != ["Z", "Z", "optZ", "optZ"]:
            raise TranslateError("_reduce_memmap_backed: unexpected result types %s" % ts)
        return "Ok (%s, %s, %s, %s)" % tuple(e[n][0] for n in ("offset", "order", "strides", "total_buffer_len"))
    code = tr.block(body[start:-1], env, kret)
    out.append(_definition("reduce_args", [("a_start", "Z"), ("a_end", "Z"), ("m_start", "Z"), ("m_offset", "Z"),
                                           ("itemsize", "Z"), ("m_f", "bool"), ("a_f", "bool"), ("a_c", "bool")],
                           "(Z * Z * option Z * option Z)", code.replace("\n", "\n  ")))
    # _strided_from_memmap: how the arguments are used (pattern check only, nothing to compute)
    node, _ = translate.find_function(rpath, "_strided_from_memmap")
    calls = [n for n in ast.walk(node) if isinstance(n, ast.Call) and ast.unparse(n.func) == "make_memmap"]
    kws = sorted(tuple(sorted((k.arg, ast.unparse(k.value)) for k in c.keywords if k.arg in ("shape", "offset", "order", "mode", "dtype")))
                 for c in calls)
    want = sorted([(("dtype", "dtype"), ("mode", "mode"), ("offset", "offset"), ("order", "order"), ("shape", "shape")),
                   (("dtype", "dtype"), ("mode", "mode"), ("offset", "offset"), ("order", "order"), ("shape", "total_buffer_len"))])
    if kws != want:
        raise TranslateError("_strided_from_memmap: make_memmap is called differently: %r" % (kws,))
    ifs = [n for n in node.body if isinstance(n, ast.If)]
    if [ast.unparse(i.test) for i in ifs] != ["mode == 'w+'", "strides is None"]:
        raise TranslateError("_strided_from_memmap: unexpected branch structure")
    strided = [n for n in ast.walk(node) if isinstance(n, ast.Call) and ast.unparse(n.func) == "as_strided"]
    if len(strided) != 1 or ast.unparse(strided[0]) != "as_strided(base, shape=shape, strides=strides)":
        raise TranslateError("_strided_from_memmap: as_strided is called differently")
    # ArrayMemmapForwardReducer.__call__: the auto-memmapping threshold test
    node, _ = translate.find_function(rpath, "ArrayMemmapForwardReducer.__call__")
    first = [n for n in node.body if isinstance(n, ast.If)]
    if len(first) != 2 or ast.unparse(first[0].test) != "m is not None and isinstance(m, np.memmap)" \
            or ast.unparse(first[0].body[-1]) != "return _reduce_memmap_backed(a, m)":
        raise TranslateError("ArrayMemmapForwardReducer.__call__: unexpected structure")

    class Ren(ast.NodeTransformer):
        def visit_Attribute(self, n):
            if ast.unparse(n) == "self._max_nbytes":
                return ast.copy_location(ast.Name(id="max_nbytes", ctx=ast.Load()), n)
            if ast.unparse(n) == "self._mmap_mode":
                return ast.copy_location(ast.Name(id="mmap_mode", ctx=ast.Load()), n)
            return self.generic_visit(n)
    test = Ren().visit(first[1].test)
    ast.fix_missing_locations(test)
    # the eligibility predicate is regenerated whatever attribute of the dtype it consults: hasobject (object fields at
    # any depth) and kind (the character code; ord("O") = 79) are both parameters of the model
    tr = translate.Tr({"subst": {"a.dtype.hasobject": ("hasobject", "bool"), "a.nbytes": ("nbytes", "Z"),
                                 "a.dtype.kind": ("dtype_kind", "Z"), "'O'": ("(79)", "Z"), "'V'": ("(86)", "Z")}})
    # mmap_mode: None ("disable memmapping") or Some code of the mode string
    c, t, r = tr.truth(tr.expr(test, {"max_nbytes": ("max_nbytes", "optZ"), "mmap_mode": ("mmap_mode", "optZ")}), test)
    out.append(_definition("forward_memmaps", [("hasobject", "bool"), ("dtype_kind", "Z"), ("max_nbytes", "option Z"),
                                               ("mmap_mode", "option Z"), ("nbytes", "Z")], "bool",
                           c if r else "Ok (%s)" % c))
    rets = [ast.unparse(n.value.elts[0]) for n in ast.walk(first[1]) if isinstance(n, ast.Return) and isinstance(n.value, ast.Tuple)]
    if rets != ["load_temporary_memmap", "loads"]:
        raise TranslateError("ArrayMemmapForwardReducer.__call__: unexpected returns %r" % rets)
    # reduce_array_memmap_backward
    node, _ = translate.find_function(rpath, "reduce_array_memmap_backward")
    ifs = [n for n in node.body if isinstance(n, ast.If)]
    if len(ifs) != 1 or ast.unparse(ifs[0].test) != "isinstance(m, np.memmap) and m.filename not in JOBLIB_MMAPS" \
            or ast.unparse(ifs[0].body[-1]) != "return _reduce_memmap_backed(a, m)":
        raise TranslateError("reduce_array_memmap_backward: unexpected structure")
    return HEADER + "".join(out)


def numpy_facts():
    """facts about the numpy the implementation side runs with (interpreter common.PYNP)"""
    import subprocess
    p = subprocess.run([common.PYNP, "-c", "import numpy as np; print(int(hasattr(np.ndarray, '__array_prepare__')), np.__version__)"],
                       stdout=subprocess.PIPE, stderr=subprocess.PIPE, text=True, timeout=120)
    if p.returncode != 0:
        raise RuntimeError("cannot query numpy: " + p.stderr[-500:])
    flag, ver = p.stdout.split()
    return {"has_array_prepare": flag == "1", "version": ver}


def generate(repo=None):
    text = build(repo)
    nf = numpy_facts()
    text += ("(* numpy %s used by the implementation side: hasattr(numpy.ndarray, '__array_prepare__') *)\n"
             "Definition numpy_has_array_prepare : bool := %s.\n" % (nf["version"], "true" if nf["has_array_prepare"] else "false"))
    path = os.path.join(common.COQ, "Gen", "C19_Padding.v")
    changed = common.write_if_changed(path, text)
    return path, changed


if __name__ == "__main__":
    p, ch = generate()
    print(p, ch)
    print(open(p).read())
