"""Regenerate coq/Gen/T_config_param.v from /repo/joblib/parallel.py (_get_config_param).

Reading of the source that the table below states:
  * `default_parallel_config[key]` is the key's `_Sentinel`; a value "is the sentinel" iff it is
    `None` on the Coq side (`option V`), any other value v is `Some v`;
  * `context_config[key]` is the parameter `ctxv : option V`;
  * `<sentinel>.default_value` is the parameter `dflt : V` (accepted only on a path where the
    expression is known to be the sentinel).
The type tag "optZ"/"Z" of the translator is only a tag here: the generated definition is
polymorphic in the value type V.
"""
import os, sys
sys.path.insert(0, os.path.dirname(os.path.abspath(__file__)))
import common
import translate_c17 as translate

CFG = {
    "params": [("V", "Type"), ("param", "option V"), ("ctxv", "option V"), ("dflt", "V")],
    "env": {"param": ("param", "optZ"), "context_config[key]": ("ctxv", "optZ")},
    "sentinel": "default_parallel_config[key]",
    "sentinel_default": ("dflt", "Z"),
    "subst": {},
    "skip": [],
    "ret": "V",
}

HEADER = """(* REGENERATED on every run by harness/gen_c17.py from
   joblib/parallel.py  (_get_config_param).  Do not edit.
   param / ctxv : None = the key's _Sentinel, Some v = any other value;  dflt = the sentinel's default_value. *)
From Coq Require Import ZArith List Bool.
Require Import JV.Base.PyPrelude.
Import ListNotations.
Open Scope Z_scope.

"""


def generate(repo=None):
    repo = repo or common.REPO
    path = os.path.join(repo, "joblib", "parallel.py")
    code, skipped = translate.translate_function(path, "_get_config_param", "get_config_param", CFG)
    text = HEADER + code + "Arguments get_config_param {V} param ctxv dflt.\n"
    out = os.path.join(common.COQ, "Gen", "T_config_param.v")
    changed = common.write_if_changed(out, text)
    return out, changed, skipped


if __name__ == "__main__":
    print(generate())
    print(open(os.path.join(common.COQ, "Gen", "T_config_param.v")).read())
