"""Regenerate coq/Gen/T_config_param.v from /repo/joblib/parallel.py (_get_config_param).

Reading of the source that the table below states:
  * `default_parallel_config[key]` is the key's `_Sentinel`; a value "is the sentinel" iff it is
    `None` on the Coq side (`option V`), any other value v is `Some v`;
  * `context_config[key]` is the parameter `ctxv : option V`;
  * `<sentinel>.default_value` is the parameter `dflt : V` (accepted only on a path where the
    expression is known to be the sentinel).
The type tag "optZ"/"Z" of the translator is only a tag here: the generated definition is
polymorphic in the value type V.
"""
import os, sys
sys.path.insert(0, os.path.dirname(os.path.abspath(__file__)))
import common
import translate_c17 as translate

CFG = {
    "params": [("V", "Type"), ("param", "option V"), ("ctxv", "option V"), ("dflt", "V")],
    "env": {"param": ("param", "optZ"), "context_config[key]": ("ctxv", "optZ")},
    "sentinel": "default_parallel_config[key]",
    "sentinel_default": ("dflt", "Z"),
    "subst": {},
    "skip": [],
    "ret": "V",
}

HEADER = """(* REGENERATED on every run by harness/gen_c17.py from
   joblib/parallel.py  (_get_config_param).  Do not edit.
   param / ctxv : None = the key's _Sentinel, Some v = any other value;  dflt = the sentinel's default_value. *)
From Coq Require Import ZArith List Bool.
Require Import JV.Base.PyPrelude.
Import ListNotations.
Open Scope Z_scope.

"""


# ---------------------------------------------------------------------------- _get_active_backend
# Reading of the source stated by this table:
#   * `getattr(_backend, "config", default_parallel_config)` is the parameter backend_config : config (the thread's dict);
#   * hints are integer codes: prefer 0 = None, 1 = 'threads', 2 = 'processes'; require 0 = None, 1 = 'sharedmem';
#     membership in VALID_BACKEND_HINTS / VALID_BACKEND_CONSTRAINTS is valid_prefer / valid_require;
#   * a backend object is its class and nesting_level (cbk); uses_threads / supports_sharedmem are class attributes;
#     BACKENDS[DEFAULT_BACKEND] is the parameter dk (the registered default class), DEFAULT_THREAD_BACKEND = threading,
#     DEFAULT_PROCESS_BACKEND = loky;
#   * dict.copy() of the configuration is the configuration (a value); `thread_config["n_jobs"] = 1` is set_njobs;
#   * the statement that only prints the replacement notice (`if verbose >= 10 and explicit_backend: print(...)`) is skipped.
AB_PARAMS = [("dk", "ckind"), ("prefer", "option Z"), ("require", "option Z"), ("verbose", "option Z"),
             ("backend_config", "config")]
AB_CFG = {
    "params": AB_PARAMS,
    "env": {"backend_config": ("backend_config", "rec:config")},
    "accessors": {"nesting_level": ("clevel", "Z")},
    "subst": {
        "_get_config_param(default_parallel_config['backend'], backend_config, 'backend')":
            ("(gcp None (option_map Some (c_backend backend_config)) None)", "optZ"),
        "_get_config_param(prefer, backend_config, 'prefer')": ("(gcp prefer (c_prefer backend_config) d_prefer)", "Z"),
        "_get_config_param(require, backend_config, 'require')": ("(gcp require (c_require backend_config) d_require)", "Z"),
        "_get_config_param(verbose, backend_config, 'verbose')": ("(gcp verbose (c_verbose backend_config) d_verbose)", "Z"),
        "prefer not in VALID_BACKEND_HINTS": ("(negb (valid_prefer prefer))", "bool"),
        "require not in VALID_BACKEND_CONSTRAINTS": ("(negb (valid_require require))", "bool"),
        "prefer == 'processes'": ("(prefer =? 2)", "bool"),
        "prefer == 'threads'": ("(prefer =? 1)", "bool"),
        "require == 'sharedmem'": ("(require =? 1)", "bool"),
        "BACKENDS[DEFAULT_BACKEND](nesting_level=0)": ("{| ck := dk; clevel := 0 |}", "Z"),
        "BACKENDS[DEFAULT_THREAD_BACKEND](nesting_level=nesting_level)": ("{| ck := BThr; clevel := nesting_level |}", "Z"),
        "BACKENDS[DEFAULT_PROCESS_BACKEND](nesting_level=nesting_level)": ("{| ck := BLoky; clevel := nesting_level |}", "Z"),
        "getattr(backend, 'uses_threads', False)": ("(uses_threads (ck backend))", "bool"),
        "getattr(backend, 'supports_sharedmem', False)": ("(supports_sharedmem (ck backend))", "bool"),
        "backend_config.copy()": ("backend_config", "rec:config"),
    },
    "setitem": {"thread_config['n_jobs']": ("thread_config", "(set_njobs %s (Some (Some %s)))")},
    "skip": ["backend_config = getattr(_backend, 'config', default_parallel_config)"],
    "ret": "(cbk * config)",
}


def print_only_skips(path, qualname):
    """`if <cond>: print(...)` statements: no effect on what the function returns"""
    import ast
    node, _ = translate.find_function(path, qualname)
    out = []
    for n in ast.walk(node):
        if isinstance(n, ast.If) and not n.orelse and all(
                isinstance(b, ast.Expr) and isinstance(b.value, ast.Call) and ast.unparse(b.value.func) == "print"
                for b in n.body):
            out.append(ast.unparse(n))
    return out


AB_HEADER = """(* REGENERATED on every run by harness/gen_c17.py from
   joblib/parallel.py  (_get_active_backend).  Do not edit.  The reading table is in gen_c17.py. *)
From Coq Require Import ZArith List Bool.
Require Import JV.Base.PyPrelude JV.Model.Config.
Import ListNotations.
Open Scope Z_scope.

"""


def generate_active_backend(repo=None):
    repo = repo or common.REPO
    path = os.path.join(repo, "joblib", "parallel.py")
    cfg = dict(AB_CFG)
    cfg["skip"] = AB_CFG["skip"] + print_only_skips(path, "_get_active_backend")
    # DEFAULT_THREAD_BACKEND / DEFAULT_PROCESS_BACKEND are read from the module, not assumed
    import ast
    consts = {}
    for st in ast.parse(open(path, encoding="utf-8").read()).body:
        if isinstance(st, ast.Assign) and len(st.targets) == 1 and isinstance(st.targets[0], ast.Name) \
                and st.targets[0].id in ("DEFAULT_THREAD_BACKEND", "DEFAULT_PROCESS_BACKEND") and isinstance(st.value, ast.Constant):
            consts[st.targets[0].id] = st.value.value
    kinds = {"threading": "BThr", "loky": "BLoky", "multiprocessing": "BMp", "sequential": "BSeq"}
    for name in ("DEFAULT_THREAD_BACKEND", "DEFAULT_PROCESS_BACKEND"):
        if consts.get(name) not in kinds:
            raise translate.TranslateError("translation of _get_active_backend no longer matches: %s = %r" % (name, consts.get(name)))
    cfg["subst"] = dict(AB_CFG["subst"])
    cfg["subst"]["BACKENDS[DEFAULT_THREAD_BACKEND](nesting_level=nesting_level)"] = (
        "{| ck := %s; clevel := nesting_level |}" % kinds[consts["DEFAULT_THREAD_BACKEND"]], "Z")
    cfg["subst"]["BACKENDS[DEFAULT_PROCESS_BACKEND](nesting_level=nesting_level)"] = (
        "{| ck := %s; clevel := nesting_level |}" % kinds[consts["DEFAULT_PROCESS_BACKEND"]], "Z")
    code, skipped = translate.translate_function(path, "_get_active_backend", "src_get_active_backend", cfg)
    out = os.path.join(common.COQ, "Gen", "T_active_backend.v")
    changed = common.write_if_changed(out, AB_HEADER + code)
    return out, changed, skipped


# ------------------------------------------------------------------- multiprocessing context + abort_everything
MPC_HEADER = """(* REGENERATED on every run by harness/gen_c17.py from joblib/parallel.py (Parallel.__init__: every assignment to
   self._backend_kwargs["context"], in source order, with its guard) and joblib/_parallel_backends.py (abort_everything of
   PoolManagerMixin and LokyBackend: does the reconfiguration pass **self.parallel._backend_kwargs?).  Do not edit.
   env = DEFAULT_MP_CONTEXT (JOBLIB_START_METHOD, read at import), arg = a multiprocessing context object passed as `backend=`,
   dflt = mp.get_context(); values are start-method codes. *)
From Coq Require Import ZArith List Bool.
Require Import JV.Base.PyPrelude.
Import ListNotations.
Open Scope Z_scope.

"""


def generate_mp_context(repo=None):
    import ast
    repo = repo or common.REPO
    path = os.path.join(repo, "joblib", "parallel.py")
    node, _ = translate.find_function(path, "Parallel.__init__")
    TARGET = "self._backend_kwargs['context']"
    VAL = {"DEFAULT_MP_CONTEXT": "env", "mp.get_context()": "Some dflt", "backend": "arg"}
    GUARD = {"DEFAULT_MP_CONTEXT is not None": "(match env with Some _ => true | None => false end)",
             "hasattr(mp, 'get_context')": "true",
             "hasattr(backend, 'Pool') and hasattr(backend, 'Lock')": "(match arg with Some _ => true | None => false end)",
             # earlier branches of the backend chain, for a context object passed as backend: not taken
             "backend is default_parallel_config['backend'] or backend is None": "(match arg with Some _ => false | None => true end)",
             "isinstance(backend, ParallelBackendBase)": "false"}

    def stores(stmts):
        return [st for st in stmts if isinstance(st, ast.Assign) and ast.unparse(st.targets[0]) == TARGET]

    lets = []
    for st in node.body:
        if isinstance(st, ast.Assign) and ast.unparse(st.targets[0]) == TARGET:
            raise translate.TranslateError("translation of Parallel.__init__ (mp context) no longer matches: unguarded store")
        if not isinstance(st, ast.If):
            if any(isinstance(n, ast.Assign) and ast.unparse(n.targets[0]) == TARGET for n in ast.walk(st)):
                raise translate.TranslateError("translation of Parallel.__init__ (mp context) no longer matches: store in %s" % type(st).__name__)
            continue
        if not any(isinstance(n, ast.Assign) and ast.unparse(n.targets[0]) == TARGET for n in ast.walk(st)):
            continue
        # an if/elif chain: the value of the first branch whose guard holds (branches without a store leave ctx alone)
        code, cur, closes = "", st, 0
        while True:
            g = ast.unparse(cur.test)
            if g not in GUARD and not any(isinstance(n, ast.Assign) and ast.unparse(n.targets[0]) == TARGET for n in ast.walk(cur)):
                code += "ctx"      # the rest of the chain never touches the context, whatever its guards are
                break
            if g not in GUARD:
                raise translate.TranslateError("translation of Parallel.__init__ (mp context) no longer matches: guard `%s`" % g)
            ss = stores(cur.body)
            nested = [n for b_ in cur.body for n in ast.walk(b_) if isinstance(n, ast.Assign) and ast.unparse(n.targets[0]) == TARGET]
            if len(nested) != len(ss) or len(ss) > 1:
                raise translate.TranslateError("translation of Parallel.__init__ (mp context) no longer matches: nested store")
            if ss:
                v = ast.unparse(ss[0].value)
                if v not in VAL:
                    raise translate.TranslateError("translation of Parallel.__init__ (mp context) no longer matches: value `%s`" % v)
                val = VAL[v]
            else:
                val = "ctx"
            code += "if %s then %s else " % (GUARD[g], val)
            if len(cur.orelse) == 1 and isinstance(cur.orelse[0], ast.If):
                cur = cur.orelse[0]
                continue
            if any(isinstance(n, ast.Assign) and ast.unparse(n.targets[0]) == TARGET for b_ in cur.orelse for n in ast.walk(b_)):
                raise translate.TranslateError("translation of Parallel.__init__ (mp context) no longer matches: store in a final else")
            code += "ctx"
            break
        lets.append("  let ctx := %s in" % code)
    if len(lets) < 2:
        raise translate.TranslateError("translation of Parallel.__init__ (mp context) no longer matches: expected the default "
                                       "block and the context-object branch")
    # abort_everything: is the pool / executor rebuilt with the object's resolved kwargs?
    pb = os.path.join(repo, "joblib", "_parallel_backends.py")

    def passes(qual):
        fn, _ = translate.find_function(pb, qual)
        calls = [n for n in ast.walk(fn) if isinstance(n, ast.Call) and ast.unparse(n.func) == "self.configure"]
        if len(calls) != 1:
            raise translate.TranslateError("translation of %s no longer matches: expected one self.configure(...)" % qual)
        kws = {k.arg: ast.unparse(k.value) for k in calls[0].keywords}
        if kws.get("n_jobs") != "self.parallel.n_jobs" or kws.get("parallel") != "self.parallel" or calls[0].args:
            raise translate.TranslateError("translation of %s no longer matches: configure(n_jobs=self.parallel.n_jobs, "
                                           "parallel=self.parallel, ...)" % qual)
        extra = {k: v for k, v in kws.items() if k not in ("n_jobs", "parallel")}
        if extra == {None: "self.parallel._backend_kwargs"}:
            return "true"
        if not extra:
            return "false"
        raise translate.TranslateError("translation of %s no longer matches: unexpected configure arguments %s" % (qual, extra))
    # ---- Parallel.__init__: whose default_n_jobs is read when neither the call nor the context gives n_jobs
    init_src = [ast.unparse(st) for st in node.body]
    dn = [st for st in node.body if isinstance(st, ast.If) and ast.unparse(st.test) == "n_jobs is None"
          and len(st.body) == 1 and isinstance(st.body[0], ast.Assign) and ast.unparse(st.body[0].value).endswith(".default_n_jobs")]
    if len(dn) != 1:
        raise translate.TranslateError("translation of Parallel.__init__ no longer matches: `if n_jobs is None: n_jobs = <x>.default_n_jobs`")
    owner = ast.unparse(dn[0].body[0].value)[:-len(".default_n_jobs")]
    idx = node.body.index(dn[0])
    last_backend_store = max(i for i, st in enumerate(node.body)
                             if any(isinstance(n, ast.Assign) and ast.unparse(n.targets[0]) == "backend" for n in ast.walk(st)))
    if owner not in ("backend", "active_backend") or idx < last_backend_store or \
            "n_jobs = _get_config_param(n_jobs, context_config, 'n_jobs')" not in init_src[:idx]:
        raise translate.TranslateError("translation of Parallel.__init__ no longer matches: default_n_jobs read from `%s`" % owner)
    # ---- BatchedCalls.__reduce__ / __init__: does the pickled batch keep the (nested backend, nested n_jobs) pair
    red, _ = translate.find_function(path, "BatchedCalls.__reduce__")
    rets = [n for n in ast.walk(red) if isinstance(n, ast.Return)]
    if len(rets) != 1 or not isinstance(rets[0].value, ast.Tuple) or len(rets[0].value.elts) != 2 \
            or not isinstance(rets[0].value.elts[1], ast.Tuple) or len(rets[0].value.elts[1].elts) < 2:
        raise translate.TranslateError("translation of BatchedCalls.__reduce__ no longer matches: return (BatchedCalls, (items, ...))")
    second = ast.unparse(rets[0].value.elts[1].elts[1])
    if second == "(self._backend, self._n_jobs)":
        keeps = "true"
    elif second == "self._backend":
        keeps = "false"
    else:
        raise translate.TranslateError("translation of BatchedCalls.__reduce__ no longer matches: second constructor argument `%s`" % second)
    # ---- LokyBackend.configure: the idle-worker timeout the executor is built with
    lc, _ = translate.find_function(pb, "LokyBackend.configure")
    st_idle = [st for st in lc.body if any(isinstance(n, ast.Assign) and ast.unparse(n.targets[0]) == "idle_worker_timeout" for n in ast.walk(st))]
    calls = [n for n in ast.walk(lc) if isinstance(n, ast.Call) and ast.unparse(n.func) == "get_memmapping_executor"]
    if len(st_idle) != 1 or len(calls) != 1 or "timeout=idle_worker_timeout" not in [ast.unparse(k) for k in calls[0].keywords]:
        raise translate.TranslateError("translation of LokyBackend.configure no longer matches: idle_worker_timeout")
    fake = ast.FunctionDef(name="idle", args=ast.arguments(posonlyargs=[], args=[], kwonlyargs=[], kw_defaults=[], defaults=[]),
                           body=[st_idle[0], ast.Return(value=ast.Name(id="idle_worker_timeout", ctx=ast.Load()))],
                           decorator_list=[], lineno=st_idle[0].lineno)
    tr = translate.Tr({"params": [("idle_worker_timeout", "option Z"), ("obj", "option Z")],
                       "env": {"idle_worker_timeout": ("idle_worker_timeout", "optZ")},
                       "subst": {"self.backend_kwargs.get('idle_worker_timeout', 300)":
                                 ("(match obj with Some v => v | None => 300 end)", "Z")},
                       "skip": [], "ret": "Z"})
    try:
        idle_code = tr.function(fake, "src_idle_worker_timeout")
    except translate.TranslateError as e:
        raise translate.TranslateError("translation of LokyBackend.configure (idle_worker_timeout) no longer matches: %s" % e)
    except Exception as e:  # noqa
        raise translate.TranslateError("translation of LokyBackend.configure (idle_worker_timeout) no longer matches: %s: %s" % (type(e).__name__, e))
    text = MPC_HEADER + (
        "Definition src_mp_context (env arg : option Z) (dflt : Z) : option Z :=\n  let ctx := None in\n%s\n  ctx.\n\n"
        "Definition pool_abort_passes_kwargs : bool := %s.\nDefinition loky_abort_passes_kwargs : bool := %s.\n\n"
        "(* Parallel.__init__: with n_jobs given neither by the call nor by the context, default_n_jobs is read from the backend the\n"
        "   call really uses (true) or from the active backend of the enclosing context (false) *)\n"
        "Definition default_njobs_of_used_backend : bool := %s.\n\n"
        "(* BatchedCalls.__reduce__: the pickled batch keeps the (nested backend, nested n_jobs) pair *)\n"
        "Definition reduce_keeps_njobs : bool := %s.\n\n"
        "(* LokyBackend.configure: the idle-worker timeout handed to the executor; idle_worker_timeout = the value passed by the call\n"
        "   (None = not passed), obj = the one carried by the backend object *)\n%s" % (
            "\n".join(lets), passes("PoolManagerMixin.abort_everything"), passes("LokyBackend.abort_everything"),
            "true" if owner == "backend" else "false", keeps, idle_code))
    out = os.path.join(common.COQ, "Gen", "T_mp_context.v")
    changed = common.write_if_changed(out, text)
    return out, changed, []


# ------------------------------------------------------------------- class attributes of the built-in backends
ATTR_HEADER = """(* REGENERATED on every run by harness/gen_c17.py from the class bodies of joblib/_parallel_backends.py:
   what getattr(backend, "supports_sharedmem", False) / getattr(backend, "uses_threads", False) see for the four built-in
   backend classes (class attribute looked up along the bases written in the class statement; absent = False).
   The two user-defined classes of the check (BCustShm / BCustProc) are defined by the harness itself.  Do not edit. *)
From Coq Require Import ZArith List Bool.
Require Import JV.Base.PyPrelude JV.Model.Config.
Import ListNotations.
Open Scope Z_scope.

"""


def generate_backend_attrs(repo=None):
    import ast
    repo = repo or common.REPO
    pb = os.path.join(repo, "joblib", "_parallel_backends.py")
    tree = ast.parse(open(pb, encoding="utf-8").read())
    classes = {c.name: c for c in tree.body if isinstance(c, ast.ClassDef)}

    def lookup(cls, attr, seen=()):
        """class attribute along the written bases, depth-first left-to-right (no diamond among these classes)"""
        if cls not in classes or cls in seen:
            return None
        for st in classes[cls].body:
            if isinstance(st, ast.Assign) and len(st.targets) == 1 and isinstance(st.targets[0], ast.Name) and st.targets[0].id == attr:
                if not (isinstance(st.value, ast.Constant) and isinstance(st.value.value, bool)):
                    raise translate.TranslateError("translation of %s.%s no longer matches: not a boolean constant" % (cls, attr))
                return st.value.value
            if isinstance(st, ast.FunctionDef) and st.name == attr:
                raise translate.TranslateError("translation of %s.%s no longer matches: defined as a method/property" % (cls, attr))
        for b_ in classes[cls].bases:
            r = lookup(ast.unparse(b_), attr, seen + (cls,))
            if r is not None:
                return r
        return None
    kinds = [("BSeq", "SequentialBackend"), ("BThr", "ThreadingBackend"), ("BLoky", "LokyBackend"), ("BMp", "MultiprocessingBackend")]
    for _, cls in kinds:
        if cls not in classes:
            raise translate.TranslateError("translation of the backend classes no longer matches: %s not found" % cls)
    defs = []
    for attr, name in (("supports_sharedmem", "src_supports_sharedmem"), ("uses_threads", "src_uses_threads")):
        arms = " ".join("| %s => %s" % (k, "true" if lookup(cls, attr) else "false") for k, cls in kinds)
        defs.append("Definition %s (k : ckind) : bool :=\n  match k with %s | BCustShm => true | BCustProc => false end.\n" % (name, arms))
    out = os.path.join(common.COQ, "Gen", "T_backend_attrs.v")
    changed = common.write_if_changed(out, ATTR_HEADER + "\n".join(defs))
    return out, changed, []


# ------------------------------------------------------------------- temp folder of the pool; merge of backend kwargs
POOL_HEADER = """(* REGENERATED on every run by harness/gen_c17.py.  Do not edit.
   src_temp_folder: joblib/_memmapping_reducer.py (_get_temp_dir): the stores to temp_folder in source order -- arg = the
     temp_folder the pool / executor was given (Parallel's resolved setting), env = JOBLIB_TEMP_FOLDER, shm = /dev/shm when it is
     usable, tmpdir = tempfile.gettempdir(); path normalisation is the identity on these codes.
   src_mp_pool_kwarg / src_loky_executor_kwarg: joblib/_parallel_backends.py (Multiprocessing/LokyBackend.configure): how the
     kwargs carried by the backend OBJECT (obj = self.backend_kwargs[key]) and the kwargs of the call (call = what Parallel passes
     to configure for that key) are merged before the pool / executor is built; None = key absent. *)
From Coq Require Import ZArith List Bool.
Require Import JV.Base.PyPrelude.
Import ListNotations.
Open Scope Z_scope.

"""


def generate_pool_settings(repo=None):
    import ast
    global ast_mod
    repo = repo or common.REPO
    mr = os.path.join(repo, "joblib", "_memmapping_reducer.py")
    node, _ = translate.find_function(mr, "_get_temp_dir")

    def tf_stores(n):
        return [x for x in ast.walk(n) if isinstance(x, ast.Assign) and ast.unparse(x.targets[0]) == "temp_folder"]
    lets = []
    for st in node.body:
        if not tf_stores(st):
            continue
        if isinstance(st, ast.If) and ast.unparse(st.test) == "temp_folder is None" and not st.orelse:
            vals = {ast.unparse(x.value) for x in tf_stores(st)}
            if vals == {"os.environ.get('JOBLIB_TEMP_FOLDER', None)"} and len(st.body) == 1:
                src = "env"
            elif vals == {"tempfile.gettempdir()"} and len(st.body) == 1:
                src = "Some tmpdir"
            elif "SYSTEM_SHARED_MEM_FS" in vals and vals <= {"SYSTEM_SHARED_MEM_FS", "None"}:
                src = "shm"
            else:
                raise translate.TranslateError("translation of _get_temp_dir no longer matches: stores %s under `temp_folder is None`" % sorted(vals))
            lets.append("  let tf := match tf with Some _ => tf | None => %s end in" % src)
        elif isinstance(st, ast.Assign) and ast.unparse(st.targets[0]) == "temp_folder":
            v = ast.unparse(st.value)
            if v == "os.path.abspath(os.path.expanduser(temp_folder))":
                continue
            if v == "os.environ.get('JOBLIB_TEMP_FOLDER', temp_folder)":
                lets.append("  let tf := match env with Some e => Some e | None => tf end in")
            elif v == "os.environ.get('JOBLIB_TEMP_FOLDER', None)":
                lets.append("  let tf := env in")
            else:
                raise translate.TranslateError("translation of _get_temp_dir no longer matches: temp_folder = %s" % v)
        else:
            raise translate.TranslateError("translation of _get_temp_dir no longer matches: %s" % ast.unparse(st)[:80])
    if not lets:
        raise translate.TranslateError("translation of _get_temp_dir no longer matches: no store to temp_folder")
    pb = os.path.join(repo, "joblib", "_parallel_backends.py")

    def merge(qual, var, ctor):
        fn, _ = translate.find_function(pb, qual)
        names = {"self.backend_kwargs": "obj", var: "call"}
        order = None
        for st in ast.walk(fn):
            if isinstance(st, ast.Assign) and ast.unparse(st.targets[0]) == var and isinstance(st.value, ast.Dict):
                if any(k is not None for k in st.value.keys) or order is not None:
                    raise translate.TranslateError("translation of %s no longer matches: %s" % (qual, ast.unparse(st)[:80]))
                order = [ast.unparse(v) for v in st.value.values]
            elif isinstance(st, ast.Expr) and isinstance(st.value, ast.Call) and ast.unparse(st.value.func) == var + ".update":
                if order is not None or len(st.value.args) != 1:
                    raise translate.TranslateError("translation of %s no longer matches: %s" % (qual, ast.unparse(st)[:80]))
                order = [var, ast.unparse(st.value.args[0])]
        if order is None or any(o not in names for o in order) or len(order) != 2 or set(order) != set(names):
            raise translate.TranslateError("translation of %s no longer matches: merge of %s not recognised (%s)" % (qual, var, order))
        calls = [n for n in ast.walk(fn) if isinstance(n, ast.Call) and ast.unparse(n.func) == ctor]
        if len(calls) != 1 or var not in [ast.unparse(k.value) for k in calls[0].keywords if k.arg is None]:
            raise translate.TranslateError("translation of %s no longer matches: %s(..., **%s) not found" % (qual, ctor, var))
        first, last = names[order[0]], names[order[1]]          # later entries of the merge win
        return "match %s with Some v => Some v | None => %s end" % (last, first)
    # loky: is temp_folder part of the reuse decision, and does a REUSED executor get the new TemporaryResourcesManager?
    exf = os.path.join(repo, "joblib", "executor.py")
    fn, _ = translate.find_function(exf, "MemmappingExecutor.get_memmapping_executor")
    named = [a.arg for a in fn.args.args + fn.args.kwonlyargs]
    if "temp_folder" not in named or fn.args.kwarg is None or fn.args.kwarg.arg != "backend_args":
        raise translate.TranslateError("translation of get_memmapping_executor no longer matches: signature")
    key_src = "\n".join(ast.unparse(st) for st in fn.body if "executor_args" in ast.unparse(st))
    key_has_tf = "temp_folder" in key_src
    mgr = [st for st in ast.walk(fn) if isinstance(st, ast.Assign) and ast.unparse(st.targets[0]) == "_executor._temp_folder_manager"]
    if len(mgr) != 1 or ast.unparse(mgr[0].value) != "manager":
        raise translate.TranslateError("translation of get_memmapping_executor no longer matches: manager assignment")
    guards = [n for n in ast.walk(fn) if isinstance(n, ast.If) and mgr[0] in n.body]
    if len(guards) > 1 or (guards and ast.unparse(guards[0].test) != "not executor_is_reused"):
        raise translate.TranslateError("translation of get_memmapping_executor no longer matches: guard of the manager assignment")
    new_mgr_on_reuse = not guards
    # the settings are USED by the reducers: does each pool / executor hand mmap_mode and max_nbytes on to get_memmapping_reducers
    def passes_kw(pathname, qual, keys):
        f2, _ = translate.find_function(pathname, qual)
        calls2 = [n for n in ast.walk(f2) if isinstance(n, ast.Call) and ast.unparse(n.func) == "get_memmapping_reducers"]
        if len(calls2) != 1:
            raise translate.TranslateError("translation of %s no longer matches: get_memmapping_reducers(...) call" % qual)
        kws = {k.arg: ast.unparse(k.value) for k in calls2[0].keywords}
        named = [a.arg for a in f2.args.args + f2.args.kwonlyargs]
        out = {}
        for key in keys:
            if kws.get(key) == key and key in named:
                out[key] = True                      # passed explicitly, from the parameter of the same name
            elif key not in kws and None in kws and kws[None] == (f2.args.kwarg.arg if f2.args.kwarg else "") and key not in named:
                out[key] = True                      # travels inside **backend_args
            elif key not in kws:
                out[key] = False
            else:
                raise translate.TranslateError("translation of %s no longer matches: %s=%s" % (qual, key, kws.get(key)))
        return out
    pool_py = os.path.join(repo, "joblib", "pool.py")
    mp_pass = passes_kw(pool_py, "MemmappingPool.__init__", ("mmap_mode", "max_nbytes"))
    lk_pass = passes_kw(exf, "MemmappingExecutor.get_memmapping_executor", ("mmap_mode", "max_nbytes"))
    used_defs = "".join("Definition %s : bool := %s.\n" % (n, "true" if v else "false") for n, v in (
        ("mp_pool_passes_mmap_mode", mp_pass["mmap_mode"]), ("mp_pool_passes_max_nbytes", mp_pass["max_nbytes"]),
        ("loky_executor_passes_mmap_mode", lk_pass["mmap_mode"]), ("loky_executor_passes_max_nbytes", lk_pass["max_nbytes"])))
    text = POOL_HEADER + (
        "(* joblib/pool.py (MemmappingPool.__init__) and joblib/executor.py (get_memmapping_executor): are mmap_mode / max_nbytes handed\n"
        "   on to get_memmapping_reducers, i.e. do they reach the place where they are USED *)\n" + used_defs + "\n") + (
        "(* joblib/executor.py (get_memmapping_executor): does the reuse decision look at temp_folder; is the new\n"
        "   TemporaryResourcesManager(temp_folder) installed on an executor that is REUSED *)\n"
        "Definition reuse_key_has_temp_folder : bool := %s.\nDefinition reused_executor_gets_new_manager : bool := %s.\n\n" % (
            "true" if key_has_tf else "false", "true" if new_mgr_on_reuse else "false")) + (
        "Definition src_temp_folder (arg env shm : option Z) (tmpdir : Z) : option Z :=\n  let tf := arg in\n%s\n  tf.\n\n"
        "Definition src_mp_pool_kwarg (obj call : option Z) : option Z := %s.\n"
        "Definition src_loky_executor_kwarg (obj call : option Z) : option Z := %s.\n" % (
            "\n".join(lets), merge("MultiprocessingBackend.configure", "memmapping_pool_kwargs", "MemmappingPool"),
            merge("LokyBackend.configure", "memmapping_executor_kwargs", "get_memmapping_executor")))
    out = os.path.join(common.COQ, "Gen", "T_pool_settings.v")
    changed = common.write_if_changed(out, text)
    return out, changed, []


def generate(repo=None):
    repo = repo or common.REPO
    path = os.path.join(repo, "joblib", "parallel.py")
    code, skipped = translate.translate_function(path, "_get_config_param", "get_config_param", CFG)
    text = HEADER + code + "Arguments get_config_param {V} param ctxv dflt.\n"
    out = os.path.join(common.COQ, "Gen", "T_config_param.v")
    changed = common.write_if_changed(out, text)
    return out, changed, skipped


if __name__ == "__main__":
    print(generate_pool_settings())
    print(open(os.path.join(common.COQ, "Gen", "T_pool_settings.v")).read())
    print(generate_backend_attrs())
    print(open(os.path.join(common.COQ, "Gen", "T_backend_attrs.v")).read())
    print(generate_mp_context())
    print(open(os.path.join(common.COQ, "Gen", "T_mp_context.v")).read())
    print(generate_active_backend())
    print(open(os.path.join(common.COQ, "Gen", "T_active_backend.v")).read())
    print(generate())
    print(open(os.path.join(common.COQ, "Gen", "T_config_param.v")).read())
