"""Fail-closed Python-ast -> Gallina translator -- COPY of translate.py extended for C15/C17.

Extensions over translate.py (everything else is identical):
  * a `subst` entry may be a 3-tuple (code, type, raises): a substituted sub-expression whose
    Gallina code is in the `result` monad (used for `super().effective_n_jobs(n_jobs)`);
  * sentinel tests: with cfg["sentinel"] = <source text of the sentinel expression>,
    `X is not <sentinel>` / `X is <sentinel>` is treated like `X is not None` / `X is None`
    (X an option-typed name, or an expression listed in cfg["optexprs"]);
  * `if c: <always exits> else: E` followed by REST is translated as `if c: exit` then `E; REST`
    (translate.py accepts the early-exit form only without an else part);
  * cfg["truncate_after_if"] = <test text>: only the prefix of the function up to that top-level `if`
    is translated (the rest is a path the model does not cover and yields Raise RuntimeError);
  * a branch that returns on SOME path is never joined: `if c: A else: B; REST` becomes `if c: A; REST else: B; REST`
    (translate.py would bind the returned value as the joined variable); statements of the skip table bind nothing;
    any internal error is turned into TranslateError("translation of <function> no longer matches: ...");
  * cfg["exn_subst"]: exceptions outside the fixed list, named by the table; tuple displays; `d['k'] = e` through cfg["setitem"]; after `if x is None: x = v` the name x is a value (not an option);
  * on the sentinel side of such a test X has type "sentinel" and `X.default_value` translates
    to cfg["sentinel_default"]; `.default_value` of anything else is rejected.

Original docstring:
Fail-closed Python-ast -> Gallina translator for a deliberately small fragment.

Anything outside the fragment raises TranslateError (never a guess).  The emitted
code lives in the `result` monad of JV.Base.PyPrelude only where an expression or a
statement can actually raise (division, reads of maybe-unbound locals, `raise`,
min()/max() of a possibly empty sequence); everything else is plain Gallina over Z.

Fragment
  expressions  int/bool/None constants, names, + - * // %, unary -, not, comparison chains,
               and/or (with `x is None` / `x is not None` narrowing of option-typed names),
               attribute reads through an accessor table, len/sum/min/max over a
               generator `e(x) for x in xs` or over 2+ arguments, calls replaced by
               configured substitutions, list displays.
  statements   x = e, x += e, xs.append(e), xs.sort(key=operator.attrgetter('a')),
               if/elif/else (joining the assigned names; names bound on one side only become
               maybe-unbound and every read of them is checked), `if c: raise E(...)`,
               `if c: return e`, `for x in xs:` whose body optionally starts with
               `if c: break`, return, raise, pass, docstrings, and statements listed
               verbatim in the per-function `skip` table (each skip is a stated assumption).
"""
import ast
import textwrap


class TranslateError(Exception):
    pass


EXN = {"ValueError", "TypeError", "KeyError", "IndexError", "AttributeError", "RuntimeError",
       "FileNotFoundError", "EOFError", "OSError", "TimeoutError", "ZeroDivisionError"}


def find_function(path, qualname):
    src = open(path, encoding="utf-8").read()
    tree = ast.parse(src)
    parts = qualname.split(".")
    body = tree.body
    node = None
    for p in parts:
        node = None
        for n in body:
            if isinstance(n, (ast.FunctionDef, ast.ClassDef)) and n.name == p:
                node = n
        if node is None:
            raise TranslateError("cannot find %s in %s" % (qualname, path))
        body = node.body
    if not isinstance(node, ast.FunctionDef):
        raise TranslateError("%s is not a function" % qualname)
    return node, src


class Tr:
    """One function.  cfg keys:
      params   : ordered list of (coq_name, coq_type) -- the Gallina signature
      env      : python name -> (coq_name, type) for names bound on entry
      accessors: attribute name -> (coq accessor, result type)   (records)
      subst    : ast.unparse(expr) -> (coq code, type)           (replaced sub-expressions)
      skip     : list of ast.unparse(stmt) that are ignored (stated assumptions)
      ret      : coq type of the returned value
    Types: 'Z', 'bool', 'optZ', 'list:<T>', 'rec:<T>'.
    """

    def __init__(self, cfg):
        self.cfg = cfg
        self.skipped = []
        self.fresh = 0

    # ---------------------------------------------------------------- helpers
    def err(self, node, msg):
        raise TranslateError("line %s: %s: %s" % (getattr(node, "lineno", "?"), msg,
                                                  ast.unparse(node) if isinstance(node, ast.AST) else node))

    def gensym(self, base):
        self.fresh += 1
        return "%s_%d" % (base, self.fresh)

    # ------------------------------------------------------------ expressions
    # returns (code, type, raises)   raises=True => code : result <type>
    def lift(self, parts, combine, typ):
        """parts: list of (code, type, raises).  combine(list of pure codes) -> pure code."""
        if not any(r for _, _, r in parts):
            return combine([c for c, _, _ in parts]), typ, False
        names = []
        binds = []
        for c, _, r in parts:
            if r:
                v = self.gensym("v")
                binds.append((v, c))
                names.append(v)
            else:
                names.append(c)
        code = "Ok (%s)" % combine(names)
        for v, c in reversed(binds):
            code = "bind (%s) (fun %s => %s)" % (c, v, code)
        return code, typ, True

    def expr(self, e, env):
        key = ast.unparse(e)
        if key in env and not isinstance(e, ast.Name):
            # an expression (e.g. `context_config[key]`) bound like a name by cfg["optexprs"]
            c, t = env[key]
            if t.startswith("maybe:"):
                return "getvar %s" % c, t[6:], True
            return c, t, False
        if key in self.cfg.get("subst", {}):
            ent = self.cfg["subst"][key]
            if len(ent) == 3:
                return ent[0], ent[1], bool(ent[2])
            c, t = ent
            return c, t, False
        if isinstance(e, ast.Constant):
            if e.value is None:
                return "None", "none", False
            if isinstance(e.value, bool):
                return ("true" if e.value else "false"), "bool", False
            if isinstance(e.value, int):
                return ("(%d)" % e.value), "Z", False
            self.err(e, "unsupported constant")
        if isinstance(e, ast.Name):
            if e.id not in env:
                self.err(e, "unknown name")
            c, t = env[e.id]
            if t.startswith("maybe:"):
                return "getvar %s" % c, t[6:], True
            return c, t, False
        if isinstance(e, ast.Attribute) and e.attr == "default_value" and "sentinel_default" in self.cfg:
            c, t, r = self.expr(e.value, env)
            if t != "sentinel" or r:
                self.err(e, ".default_value read of something not known to be the sentinel")
            return self.cfg["sentinel_default"][0], self.cfg["sentinel_default"][1], False
        if isinstance(e, ast.Attribute):
            if e.attr in self.cfg.get("accessors", {}):
                acc, t = self.cfg["accessors"][e.attr]
                c, _, r = self.expr(e.value, env)
                return self.lift([(c, None, r)], lambda cs: "%s %s" % (acc, cs[0]), t)
            self.err(e, "unsupported attribute")
        if isinstance(e, ast.UnaryOp):
            c, t, r = self.expr(e.operand, env)
            if isinstance(e.op, ast.USub) and t == "Z":
                return self.lift([(c, t, r)], lambda cs: "(- %s)" % cs[0], "Z")
            if isinstance(e.op, ast.Not):
                b = self.truth((c, t, r), e.operand)
                return self.lift([b], lambda cs: "(negb %s)" % cs[0], "bool")
            self.err(e, "unsupported unary op")
        if isinstance(e, ast.BinOp):
            a = self.expr(e.left, env)
            b = self.expr(e.right, env)
            if a[1] != "Z" or b[1] != "Z":
                self.err(e, "arithmetic on non-integers")
            ops = {ast.Add: "+", ast.Sub: "-", ast.Mult: "*"}
            if type(e.op) in ops:
                o = ops[type(e.op)]
                return self.lift([a, b], lambda cs: "(%s %s %s)" % (cs[0], o, cs[1]), "Z")
            if isinstance(e.op, (ast.FloorDiv, ast.Mod)):
                f = "py_floordiv" if isinstance(e.op, ast.FloorDiv) else "py_mod"
                code, _, _ = self.lift([a, b], lambda cs: "(%s, %s)" % (cs[0], cs[1]), "pair")
                if code.startswith("("):  # pure operands
                    return "%s %s %s" % (f, a[0], b[0]), "Z", True
                return "bind (%s) (fun p => %s (fst p) (snd p))" % (code, f), "Z", True
            self.err(e, "unsupported binary op")
        if isinstance(e, ast.Compare):
            return self.compare(e, env)
        if isinstance(e, ast.BoolOp):
            return self.boolop(e, env)
        if isinstance(e, ast.Call):
            return self.call(e, env)
        if isinstance(e, ast.List):
            parts = [self.expr(x, env) for x in e.elts]
            t = parts[0][1] if parts else "any"
            return self.lift(parts, lambda cs: "[" + "; ".join(cs) + "]", "list:" + t)
        if isinstance(e, ast.Tuple):
            # (extension) a tuple display, e.g. `return backend, config`
            parts = [self.expr(x, env) for x in e.elts]
            return self.lift(parts, lambda cs: "(" + ", ".join(cs) + ")", "tuple")
        if isinstance(e, ast.IfExp):
            c = self.truth(self.expr(e.test, env), e.test)
            a = self.expr(e.body, env)
            b = self.expr(e.orelse, env)
            if c[2]:
                self.err(e, "raising condition in conditional expression")
            if a[2] or b[2]:
                ac = a[0] if a[2] else "Ok (%s)" % a[0]
                bc = b[0] if b[2] else "Ok (%s)" % b[0]
                return "(if %s then %s else %s)" % (c[0], ac, bc), a[1], True
            return "(if %s then %s else %s)" % (c[0], a[0], b[0]), a[1], False
        self.err(e, "unsupported expression")

    def truth(self, cet, node):
        c, t, r = cet
        if t == "bool":
            return c, t, r
        if t == "Z":
            return self.lift([cet], lambda cs: "(negb (%s =? 0))" % cs[0], "bool")
        if t.startswith("list:"):
            return self.lift([cet], lambda cs: "(negb (is_nil %s))" % cs[0], "bool")
        self.err(node, "truth value of type %s" % t)

    def none_test(self, e, env):
        """`x is None` / `x is not None` (or the configured sentinel instead of None) on an
        option-typed name or configured expression: (pykey, coqname, is_none)"""
        if not (isinstance(e, ast.Compare) and len(e.ops) == 1 and isinstance(e.ops[0], (ast.Is, ast.IsNot))):
            return None
        cmpr = e.comparators[0]
        is_none_const = isinstance(cmpr, ast.Constant) and cmpr.value is None
        is_sentinel = "sentinel" in self.cfg and ast.unparse(cmpr) == self.cfg["sentinel"]
        if not (is_none_const or is_sentinel):
            return None
        key = ast.unparse(e.left)
        if key in env and env[key][1] == "optZ":
            return key, env[key][0], isinstance(e.ops[0], ast.Is)
        return None

    def compare(self, e, env):
        nt = self.none_test(e, env)
        if nt:
            _, c, isnone = nt
            return ("(match %s with None => %s | Some _ => %s end)" %
                    (c, "true" if isnone else "false", "false" if isnone else "true")), "bool", False
        operands = [e.left] + list(e.comparators)
        parts = [self.expr(x, env) for x in operands]
        for p, n in zip(parts, operands):
            if p[1] != "Z":
                self.err(n, "comparison of non-integers (type %s)" % p[1])
        ops = {ast.Lt: "<?", ast.LtE: "<=?", ast.Gt: ">?", ast.GtE: ">=?", ast.Eq: "=?"}

        def comb(cs):
            out = []
            for i, op in enumerate(e.ops):
                if isinstance(op, ast.NotEq):
                    out.append("(negb (%s =? %s))" % (cs[i], cs[i + 1]))
                elif type(op) in ops:
                    out.append("(%s %s %s)" % (cs[i], ops[type(op)], cs[i + 1]))
                else:
                    self.err(e, "unsupported comparison")
            return out[0] if len(out) == 1 else "(" + " && ".join(out) + ")"
        return self.lift(parts, comb, "bool")

    def boolop(self, e, env):
        """and/or with short-circuit, narrowing and raising operands."""
        is_or = isinstance(e.op, ast.Or)

        def go(vals, env):
            first = vals[0]
            if len(vals) == 1:
                return self.truth(self.expr(first, env), first)
            nt = self.none_test(first, env)
            if nt and ((is_or and nt[2]) or ((not is_or) and not nt[2])):
                # `x is None or REST`  /  `x is not None and REST` : REST sees x : Z
                pyname, c, _ = nt
                env2 = dict(env)
                env2[pyname] = (c, "Z")
                rc, _, rr = go(vals[1:], env2)
                short = "true" if is_or else "false"
                if rr:
                    return "(match %s with None => Ok %s | Some %s => %s end)" % (c, short, c, rc), "bool", True
                return "(match %s with None => %s | Some %s => %s end)" % (c, short, c, rc), "bool", False
            a = self.truth(self.expr(first, env), first)
            rc, _, rr = go(vals[1:], env)
            if not a[2] and not rr:
                return "(%s %s %s)" % (a[0], "||" if is_or else "&&", rc), "bool", False
            rcm = rc if rr else "Ok %s" % rc
            short = "Ok true" if is_or else "Ok false"
            body = ("(if %s then %s else %s)" % ("%s", short, rcm)) if is_or else ("(if %s then %s else %s)" % ("%s", rcm, short))
            if a[2]:
                v = self.gensym("b")
                return "bind (%s) (fun %s => %s)" % (a[0], v, body % v), "bool", True
            return body % a[0], "bool", True
        return go(list(e.values), env)

    def call(self, e, env):
        if isinstance(e.func, ast.Name) and e.func.id in ("sum", "min", "max", "len"):
            f = e.func.id
            if e.keywords:
                self.err(e, "keywords in builtin call")
            if f == "len" and len(e.args) == 1:
                c, t, r = self.expr(e.args[0], env)
                if not t.startswith("list:"):
                    self.err(e, "len of non-list")
                return self.lift([(c, t, r)], lambda cs: "(len %s)" % cs[0], "Z")
            if len(e.args) == 1 and isinstance(e.args[0], ast.GeneratorExp):
                g = e.args[0]
                if len(g.generators) != 1 or g.generators[0].ifs or not isinstance(g.generators[0].target, ast.Name):
                    self.err(e, "unsupported generator")
                it = g.generators[0]
                lc, lt, lr = self.expr(it.iter, env)
                if not lt.startswith("list:") or lr:
                    self.err(e, "generator over non-list")
                v = it.target.id
                env2 = dict(env)
                env2[v] = (v, lt[5:])
                bc, bt, br = self.expr(g.elt, env2)
                if bt != "Z" or br:
                    self.err(e, "generator element must be a pure integer expression")
                fn = "(fun %s => %s)" % (v, bc)
                if f == "sum":
                    return "(sum_map %s %s)" % (fn, lc), "Z", False
                return "%s_map %s %s" % (f, fn, lc), "Z", True
            if f in ("min", "max") and len(e.args) >= 2:
                parts = [self.expr(a, env) for a in e.args]
                for p in parts:
                    if p[1] != "Z":
                        self.err(e, "min/max of non-integers")
                zf = "Z.min" if f == "min" else "Z.max"

                def comb(cs):
                    acc = cs[0]
                    for c in cs[1:]:
                        acc = "(%s %s %s)" % (zf, acc, c)
                    return acc
                return self.lift(parts, comb, "Z")
        self.err(e, "unsupported call")

    # ------------------------------------------------------------- statements
    def assigned(self, stmts):
        """python names (re)bound by a block, in first-assignment order"""
        out = []

        def add(n):
            if n not in out:
                out.append(n)
        for s in stmts:
            if ast.unparse(s) in self.cfg.get("skip", []):
                continue   # (extension) a skipped statement binds nothing the translation can see
            if ast.unparse(s) in self.cfg.get("bind", {}):
                for pyname, _, _ in self.cfg["bind"][ast.unparse(s)]:
                    add(pyname)
                continue
            if isinstance(s, ast.Assign):
                for t in s.targets:
                    if isinstance(t, ast.Subscript) and ast.unparse(t) in self.cfg.get("setitem", {}):
                        add(self.cfg["setitem"][ast.unparse(t)][0])
                        continue
                    if not isinstance(t, ast.Name):
                        self.err(s, "unsupported assignment target")
                    add(t.id)
            elif isinstance(s, ast.AugAssign):
                if not isinstance(s.target, ast.Name):
                    self.err(s, "unsupported assignment target")
                add(s.target.id)
            elif isinstance(s, ast.Expr) and isinstance(s.value, ast.Call) and isinstance(s.value.func, ast.Attribute) \
                    and s.value.func.attr in ("append", "sort") and isinstance(s.value.func.value, ast.Name):
                add(s.value.func.value.id)
            elif isinstance(s, ast.If):
                for n in self.assigned(s.body) + self.assigned(s.orelse):
                    add(n)
            elif isinstance(s, ast.For):
                for n in self.assigned(s.body):
                    add(n)
        return out

    def exits(self, stmts):
        """does the block always leave the function (return/raise)?"""
        if not stmts:
            return False
        last = stmts[-1]
        if isinstance(last, (ast.Return, ast.Raise)):
            return True
        if isinstance(last, ast.If):
            return self.exits(last.body) and self.exits(last.orelse)
        return False

    def block(self, stmts, env, kont):
        """Code of type `result R` for: run stmts, then kont(env) (kont builds the continuation code)."""
        if not stmts:
            return kont(env)
        s, rest = stmts[0], stmts[1:]
        text = ast.unparse(s)
        if text in self.cfg.get("skip", []):
            self.skipped.append(text)
            return self.block(rest, env, kont)
        if text in self.cfg.get("bind", {}):
            # (extension) a statement the table replaces by bindings, e.g. `a, b = f()` -> [(python name, code, type), ...]
            env2 = dict(env)
            code = ""
            for pyname, c, t in self.cfg["bind"][text]:
                code += "let %s := %s in\n" % (pyname, c)
                env2[pyname] = (pyname, t)
            self.skipped.append(text)
            return code + self.block(rest, env2, kont)
        if isinstance(s, ast.Expr) and isinstance(s.value, ast.Constant) and isinstance(s.value.value, str):
            return self.block(rest, env, kont)   # docstring
        if isinstance(s, ast.Pass):
            return self.block(rest, env, kont)
        if isinstance(s, ast.Return):
            if s.value is None:
                self.err(s, "bare return")
            c, t, r = self.expr(s.value, env)
            return c if r else "Ok (%s)" % c
        if isinstance(s, ast.Raise):
            return "Raise %s" % self.exn_name(s)
        if isinstance(s, ast.Assign) and len(s.targets) == 1 and isinstance(s.targets[0], ast.Subscript) \
                and ast.unparse(s.targets[0]) in self.cfg.get("setitem", {}):
            # (extension) `d['key'] = e` on a record-typed local: cfg["setitem"][text] = (python name, template(var, value))
            pyname, template = self.cfg["setitem"][ast.unparse(s.targets[0])]
            if pyname not in env:
                self.err(s, "item assignment on an unknown name")
            c, t, r = self.expr(s.value, env)
            if r:
                self.err(s, "raising value in item assignment")
            vc, vt = env[pyname]
            env2 = dict(env)
            env2[pyname] = (pyname, vt)
            return "let %s := %s in\n%s" % (pyname, template % (vc, c), self.block(rest, env2, kont))
        if isinstance(s, ast.Assign):
            if len(s.targets) != 1 or not isinstance(s.targets[0], ast.Name):
                self.err(s, "unsupported assignment")
            name = s.targets[0].id
            c, t, r = self.expr(s.value, env)
            if t == "none":
                t = "optZ"
            env2 = dict(env)
            env2[name] = (name, t)
            k = self.block(rest, env2, kont)
            if r:
                return "bind (%s) (fun %s =>\n%s)" % (c, name, k)
            return "let %s := %s in\n%s" % (name, c, k)
        if isinstance(s, ast.AugAssign):
            if not isinstance(s.target, ast.Name):
                self.err(s, "unsupported assignment")
            fake = ast.Assign(targets=[s.target], value=ast.BinOp(left=ast.Name(id=s.target.id, ctx=ast.Load()),
                                                                   op=s.op, right=s.value), lineno=s.lineno)
            return self.block([fake] + rest, env, kont)
        if isinstance(s, ast.Expr) and isinstance(s.value, ast.Call) and isinstance(s.value.func, ast.Attribute) \
                and isinstance(s.value.func.value, ast.Name):
            call = s.value
            name = call.func.value.id
            if name not in env or not env[name][1].startswith("list:"):
                self.err(s, "method call on non-list")
            lc, lt = env[name]
            if call.func.attr == "append" and len(call.args) == 1 and not call.keywords:
                c, t, r = self.expr(call.args[0], env)
                if r:
                    self.err(s, "raising argument of append")
                env2 = dict(env)
                env2[name] = (name, lt if lt != "list:any" else "list:" + t)
                return "let %s := %s ++ [%s] in\n%s" % (name, lc, c, self.block(rest, env2, kont))
            if call.func.attr == "sort" and not call.args and len(call.keywords) == 1 and call.keywords[0].arg == "key":
                kv = call.keywords[0].value
                if (isinstance(kv, ast.Call) and ast.unparse(kv.func) in ("operator.attrgetter", "attrgetter")
                        and len(kv.args) == 1 and isinstance(kv.args[0], ast.Constant)
                        and kv.args[0].value in self.cfg.get("accessors", {})):
                    acc, t = self.cfg["accessors"][kv.args[0].value]
                    if t != "Z":
                        self.err(s, "sort key must be an integer field")
                    env2 = dict(env)
                    env2[name] = (name, lt)
                    return "let %s := sort_by %s %s in\n%s" % (name, acc, lc, self.block(rest, env2, kont))
            self.err(s, "unsupported method call")
        if isinstance(s, ast.If):
            return self.if_stmt(s, rest, env, kont)
        if isinstance(s, ast.For):
            return self.for_stmt(s, rest, env, kont)
        self.err(s, "unsupported statement")

    def exn_name(self, s):
        e = s.exc
        if ast.unparse(e) in self.cfg.get("exn_subst", {}):
            # (extension) an exception the table names, e.g. FallbackToBackend(SequentialBackend(...)) -> OtherError 1
            return self.cfg["exn_subst"][ast.unparse(e)]
        if isinstance(e, ast.Call):
            e = e.func
        if isinstance(e, ast.Name) and e.id in EXN:
            return e.id
        self.err(s, "unsupported exception")

    def cond(self, test, env):
        """condition of an if: (code, raises, env_true, env_false) with None-narrowing"""
        nt = self.none_test(test, env)
        if nt:
            pyname, c, isnone = nt
            env_some = dict(env)
            env_some[pyname] = (c, "Z")
            env_none = dict(env)
            if "sentinel" in self.cfg:
                env_none[pyname] = (c, "sentinel")
            return ("match", c, isnone, env_some, env_none)
        c, t, r = self.truth(self.expr(test, env), test)
        return ("if", c, r, None)

    def branch(self, cnd, tcode, fcode):
        if cnd[0] == "match":
            c, isnone = cnd[1], cnd[2]
            some, none = (fcode, tcode) if isnone else (tcode, fcode)
            return "match %s with\n| Some %s => %s\n| None => %s\nend" % (c, c, some, none)
        c, r = cnd[1], cnd[2]
        if r:
            v = self.gensym("c")
            return "bind (%s) (fun %s => if %s then %s else %s)" % (c, v, v, tcode, fcode)
        return "if %s then %s else %s" % (c, tcode, fcode)

    def if_stmt(self, s, rest, env, kont):
        cnd = self.cond(s.test, env)
        if cnd[0] == "match":
            env_t = cnd[3] if not cnd[2] else cnd[4]
            env_f = cnd[4] if not cnd[2] else cnd[3]
        else:
            env_t = env_f = env
        if self.exits(s.body):
            # early exit: `if c: return/raise ... [else: E]; rest`  ==  `if c: exit` then `E; rest`
            # (extension over translate.py, which accepts this only without an else part)
            t = self.block(s.body, env_t, lambda e: "Raise RuntimeError")
            f = self.block(list(s.orelse) + rest, env_f, kont)
            return self.branch(cnd, "(" + t + ")", "(" + f + ")")
        if s.orelse and self.exits(s.orelse):
            f = self.block(s.orelse, env_f, lambda e: "Raise RuntimeError")
            t = self.block(list(s.body) + rest, env_t, kont)
            return self.branch(cnd, "(" + t + ")", "(" + f + ")")
        # (extension, soundness) a `return` on SOME path of a branch must not be mistaken for the joined value:
        # `if c: A else: B` followed by REST is translated as `if c: A; REST else: B; REST` (exact, duplicates REST)
        def has_return(stmts):
            return any(isinstance(n, ast.Return) for st in stmts for n in ast.walk(st)
                       if ast.unparse(st) not in self.cfg.get("skip", []))
        if has_return(s.body) or has_return(s.orelse):
            t = self.block(list(s.body) + rest, env_t, kont)
            f = self.block(list(s.orelse) + rest, env_f, kont)
            return self.branch(cnd, "(" + t + ")", "(" + f + ")")
        # join
        names = [n for n in self.assigned(s.body) + self.assigned(s.orelse)]
        names = list(dict.fromkeys(names))
        a_t = set(self.assigned(s.body))
        a_f = set(self.assigned(s.orelse))
        post = {}
        # translate both branches with a continuation that returns the tuple of joined names
        results = {}

        def mk_kont(side):
            def k(e):
                vals = []
                for n in names:
                    if n in e:
                        c, t = e[n]
                        results.setdefault(n, {})[side] = t
                        vals.append((n, c, t))
                    else:
                        results.setdefault(n, {})[side] = None
                        vals.append((n, None, None))
                k.vals = vals
                return "@@TUPLE_%s@@" % side
            return k
        kt, kf = mk_kont("t"), mk_kont("f")
        # a name narrowed by the test must not leak as narrowed after the join: translate with
        # the narrowed env but re-wrap when it was not reassigned (handled below via `env`)
        tcode = self.block(s.body, env_t, kt)
        fcode = self.block(s.orelse, env_f, kf)
        tv = {n: (c, t) for n, c, t in getattr(kt, "vals", [])}
        fv = {n: (c, t) for n, c, t in getattr(kf, "vals", [])}
        if not hasattr(kt, "vals") and not hasattr(kf, "vals"):
            self.err(s, "if statement whose both branches leave the function must be the last statement")
        env2 = dict(env)
        tt, ft = [], []
        for n in names:
            ct, tyt = tv.get(n, (None, None))
            cf, tyf = fv.get(n, (None, None))
            bound_t = n in a_t or n in env
            bound_f = n in a_f or n in env
            # types; a branch that narrowed an option name but did not reassign it sees Z: re-wrap
            def fix(c, ty, side_env):
                if n in env and env[n][1] == "optZ" and ty == "Z" and n not in (a_t if side_env is env_t else a_f):
                    return "Some %s" % c, "optZ"
                if n in env and env[n][1] == "optZ" and ty == "sentinel":
                    return "None", "optZ"
                return c, ty
            narrowed_value = (n in env and env[n][1] == "optZ" and ct is not None and cf is not None
                              and ((n in a_t and n not in a_f and tyf == "Z" and tyt not in ("optZ", "none", "sentinel"))
                                   or (n in a_f and n not in a_t and tyt == "Z" and tyf not in ("optZ", "none", "sentinel"))))
            if narrowed_value:
                # (extension) `if x is None: x = v` : on the other side x was narrowed to its value, on this side it is
                # assigned a value: after the join x is a value, not an option
                tyt = tyf = (tyt if n in a_t else tyf)
            else:
                if ct is not None:
                    ct, tyt = fix(ct, tyt, env_t)
                if cf is not None:
                    cf, tyf = fix(cf, tyf, env_f)
            tys = {x for x in (tyt, tyf) if x is not None and not x.startswith("maybe:")}
            if "optZ" in tys and "Z" in tys:
                # x = <int> on one side, x = None on the other
                if tyt == "Z":
                    ct, tyt = "Some %s" % ct, "optZ"
                if tyf == "Z":
                    cf, tyf = "Some %s" % cf, "optZ"
                tys = {"optZ"}
            if len(tys) > 1:
                self.err(s, "branches give %s different types %s" % (n, tys))
            ty = tys.pop() if tys else None
            if ct is None and cf is None:
                self.err(s, "name %s is assigned in a branch but bound on neither side of the join" % n)
            maybe = (ct is None) or (cf is None) or (tyt or "").startswith("maybe:") or (tyf or "").startswith("maybe:")
            if maybe:
                base = ty
                def wrap(c, t):
                    if c is None:
                        return "None"
                    if t.startswith("maybe:"):
                        return c
                    return "Some %s" % c
                tt.append(wrap(ct, tyt))
                ft.append(wrap(cf, tyf))
                env2[n] = (n, "maybe:" + (base or (tyt or tyf)[6:]))
            else:
                tt.append(ct)
                ft.append(cf)
                env2[n] = (n, ty)

        def tup(xs):
            return "(" + ", ".join(xs) + ")" if len(xs) != 1 else xs[0]
        tcode = tcode.replace("@@TUPLE_t@@", "Ok %s" % tup(tt))
        fcode = fcode.replace("@@TUPLE_f@@", "Ok %s" % tup(ft))
        pat = ("'" + tup(names)) if len(names) != 1 else names[0]
        k = self.block(rest, env2, kont)
        return "bind (%s) (fun %s =>\n%s)" % (self.branch(cnd, "(" + tcode + ")", "(" + fcode + ")"), pat, k)

    def for_stmt(self, s, rest, env, kont):
        if s.orelse or not isinstance(s.target, ast.Name):
            self.err(s, "unsupported for loop")
        lc, lt, lr = self.expr(s.iter, env)
        if not lt.startswith("list:") or lr:
            self.err(s, "for over non-list")
        body = list(s.body)
        brk = None
        if body and isinstance(body[0], ast.If) and not body[0].orelse and len(body[0].body) == 1 \
                and isinstance(body[0].body[0], ast.Break):
            brk = body[0].test
            body = body[1:]
        for n in ast.walk(ast.Module(body=body, type_ignores=[])):
            if isinstance(n, (ast.Break, ast.Continue, ast.Return)):
                self.err(s, "break/continue/return inside loop body other than a leading `if c: break`")
        state = self.assigned(body)
        for n in state:
            if n not in env:
                self.err(s, "loop variable %s must be initialised before the loop" % n)
            if env[n][1].startswith("maybe:"):
                self.err(s, "loop state %s is maybe-unbound" % n)
        v = s.target.id
        env_in = dict(env)
        env_in[v] = (v, lt[5:])
        st = "(" + ", ".join(env[n][0] for n in state) + ")" if len(state) != 1 else env[state[0]][0]
        pat = ("'(" + ", ".join(state) + ")") if len(state) != 1 else state[0]
        for n in state:
            env_in[n] = (n, env[n][1])

        def kbody(e):
            vals = [e[n][0] for n in state]
            return "loop rest__ %s" % ("(" + ", ".join(vals) + ")" if len(vals) != 1 else vals[0])
        bcode = self.block(body, env_in, kbody)
        cur = "(" + ", ".join(state) + ")" if len(state) != 1 else state[0]
        if brk is not None:
            bc, bt, br = self.truth(self.expr(brk, env_in), brk)
            if br:
                w = self.gensym("c")
                bcode = "bind (%s) (fun %s => if %s then Ok %s else\n%s)" % (bc, w, w, cur, bcode)
            else:
                bcode = "if %s then Ok %s else\n%s" % (bc, cur, bcode)
        loop = ("(fix loop (l__ : list %s) (st__ : _) {struct l__} : result _ :=\n"
                "  let %s := st__ in\n  match l__ with\n  | [] => Ok %s\n  | %s :: rest__ =>\n%s\n  end)"
                % (self.coq_type(lt[5:]), pat, cur, v, textwrap.indent(bcode, "    ")))
        env2 = dict(env)
        for n in state:
            env2[n] = (n, env[n][1])
        k = self.block(rest, env2, kont)
        return "bind (%s %s %s) (fun %s =>\n%s)" % (loop, lc, st, pat, k)

    def coq_type(self, t):
        if t == "Z":
            return "Z"
        if t == "bool":
            return "bool"
        if t == "optZ":
            return "(option Z)"
        if t.startswith("list:"):
            return "(list %s)" % self.coq_type(t[5:])
        if t.startswith("rec:"):
            return t[4:]
        raise TranslateError("no Coq type for %s" % t)

    def function(self, node, name):
        env = dict(self.cfg["env"])
        stmts = list(node.body)
        if "truncate_after_if" in self.cfg:
            # extension: translate the function only up to and including the top-level
            # `if <test>: ...` named by the table; the remaining path yields Raise RuntimeError
            cut = [i for i, st in enumerate(stmts)
                   if isinstance(st, ast.If) and ast.unparse(st.test) == self.cfg["truncate_after_if"]]
            if len(cut) != 1:
                raise TranslateError("truncate_after_if: expected exactly one top-level `if %s`" % self.cfg["truncate_after_if"])
            stmts = stmts[:cut[0] + 1]
        node = ast.FunctionDef(name=node.name, args=node.args, body=stmts, decorator_list=[], lineno=node.lineno)
        body = self.block(node.body, env, lambda e: "Raise RuntimeError (* fell off the end: returns None *)")
        params = " ".join("(%s : %s)" % (n, t) for n, t in self.cfg["params"])
        return "Definition %s %s : result %s :=\n%s.\n" % (name, params, self.cfg["ret"], textwrap.indent(body, "  "))


def translate_function(path, qualname, coqname, cfg):
    node, _ = find_function(path, qualname)
    tr = Tr(cfg)
    try:
        code = tr.function(node, coqname)
    except TranslateError as e:
        raise TranslateError("translation of %s no longer matches: %s" % (qualname, e))
    except Exception as e:  # an internal error of the translator is a rejection, never a crash of the check
        raise TranslateError("translation of %s no longer matches: the statement structure is outside the fragment "
                             "(%s: %s)" % (qualname, type(e).__name__, e))
    missing = [s for s in list(cfg.get("skip", [])) + list(cfg.get("bind", {})) if s not in tr.skipped]
    if missing:
        raise TranslateError("statements assumed to be skippable are no longer present: %r" % missing)
    return code, tr.skipped
