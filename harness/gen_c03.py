"""Regenerate coq/Gen/C03_Constants.v from the live joblib in common.REPO.

The values the C03/C19 theorems mention are printed by a child interpreter that imports joblib
from the repository's working tree: the `_COMPRESSORS` registry (name, magic prefix, extension,
availability, in registration order), `_ZFILE_PREFIX`, whether lz4 is importable,
NUMPY_ARRAY_ALIGNMENT_BYTES, BUFFER_SIZE, _IO_BUFFER_SIZE, and CPython's protocol 0/1 opcode
table (pickletools) used by the "an uncompressed pickle is never mistaken" sweep.
"""
import json
import os
import subprocess
import sys

sys.path.insert(0, os.path.dirname(os.path.abspath(__file__)))
import common  # noqa: E402

CHILD = r"""
import json, pickle, pickletools
import joblib
from joblib import numpy_pickle, numpy_pickle_utils, compressor
reg = []
for name, c in compressor._COMPRESSORS.items():
    reg.append({"name": name, "prefix": list(c.prefix), "ext": c.extension,
                "avail": getattr(c, "fileobj_factory", None) is not None})
ops = []
for op in pickletools.opcodes:
    ops.append({"code": ord(op.code), "proto": op.proto, "argless": op.arg is None, "name": op.name})
print(json.dumps({
    "registry": reg,
    "zfile_prefix": list(compressor._ZFILE_PREFIX),
    "lz4_installed": numpy_pickle.lz4 is not None,
    "alignment": numpy_pickle.NUMPY_ARRAY_ALIGNMENT_BYTES,
    "buffer_size": numpy_pickle_utils.BUFFER_SIZE,
    "io_buffer_size": numpy_pickle_utils._IO_BUFFER_SIZE,
    "max_prefix_len": numpy_pickle_utils._get_prefixes_max_len(),
    "opcodes": ops,
    "highest_protocol": pickle.HIGHEST_PROTOCOL,
    "default_protocol": pickle.DEFAULT_PROTOCOL,
}))
"""


def live_constants(repo=None):
    env = common.impl_env()
    env["PYTHONPATH"] = repo or common.REPO
    p = subprocess.run([common.PY, "-c", CHILD], env=env, stdout=subprocess.PIPE, stderr=subprocess.PIPE, text=True,
                       timeout=120)
    if p.returncode != 0:
        raise RuntimeError("cannot read the live constants: " + p.stderr[-2000:])
    return json.loads(p.stdout.strip().splitlines()[-1])


def zlist(xs):
    return "[" + "; ".join(str(int(x)) for x in xs) + "]"


def sbytes(s):
    return zlist(ord(ch) for ch in s)


def render(k):
    out = []
    out.append("(* REGENERATED on every run by harness/gen_c03.py from the live joblib "
               "(compressor._COMPRESSORS, numpy_pickle, numpy_pickle_utils) and CPython's pickletools.  Do not edit. *)")
    out.append("From Coq Require Import ZArith List Bool.")
    out.append("Import ListNotations.")
    out.append("Open Scope Z_scope.")
    out.append("")
    out.append("(* (name, magic prefix, file extension, fileobj_factory is not None), in registration order;")
    out.append("   strings are lists of code points, byte strings lists of byte values *)")
    rows = []
    for e in k["registry"]:
        rows.append("  (%s, %s, %s, %s) (* %s %s *)" % (sbytes(e["name"]), zlist(e["prefix"]), sbytes(e["ext"]),
                                                   "true" if e["avail"] else "false", e["name"], e["ext"]))
    out.append("Definition registry : list (list Z * list Z * list Z * bool) :=\n  [\n" + ";\n".join(rows) + "\n  ].")
    out.append("Definition zfile_prefix : list Z := %s." % zlist(k["zfile_prefix"]))
    out.append("Definition lz4_installed : bool := %s." % ("true" if k["lz4_installed"] else "false"))
    out.append("Definition NUMPY_ARRAY_ALIGNMENT_BYTES : Z := %d." % k["alignment"])
    out.append("Definition BUFFER_SIZE : Z := %d." % k["buffer_size"])
    out.append("Definition IO_BUFFER_SIZE : Z := %d." % k["io_buffer_size"])
    out.append("Definition live_max_prefix_len : nat := %d." % k["max_prefix_len"])
    out.append("(* CPython pickle opcodes of protocol 0/1: (byte, takes no argument) *)")
    ops = ["(%d, %s)" % (o["code"], "true" if o["argless"] else "false") for o in k["opcodes"] if o["proto"] <= 1]
    out.append("Definition pickle_ops01 : list (Z * bool) :=\n  [" + "; ".join(ops) + "].")
    out.append("Definition pickle_highest_protocol : Z := %d." % k["highest_protocol"])
    out.append("")
    return "\n".join(out)


def generate(repo=None):
    k = live_constants(repo)
    text = render(k)
    path = os.path.join(common.COQ, "Gen", "C03_Constants.v")
    changed = common.write_if_changed(path, text)
    return path, changed, k


if __name__ == "__main__":
    p, ch, k = generate()
    print(p, ch)
    print(open(p).read())
