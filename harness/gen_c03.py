"""Regenerate coq/Gen/C03_Constants.v from the live joblib in common.REPO.

The values the C03/C19 theorems mention are printed by a child interpreter that imports joblib
from the repository's working tree: the `_COMPRESSORS` registry (name, magic prefix, extension,
availability, in registration order), `_ZFILE_PREFIX`, whether lz4 is importable,
NUMPY_ARRAY_ALIGNMENT_BYTES, BUFFER_SIZE, _IO_BUFFER_SIZE, and CPython's protocol 0/1 opcode
table (pickletools) used by the "an uncompressed pickle is never mistaken" sweep.
"""
import json
import os
import subprocess
import sys

sys.path.insert(0, os.path.dirname(os.path.abspath(__file__)))
import common  # noqa: E402

CHILD = r"""
import json, pickle, pickletools
import joblib
from joblib import numpy_pickle, numpy_pickle_utils, compressor
reg = []
for name, c in compressor._COMPRESSORS.items():
    reg.append({"name": name, "prefix": list(c.prefix), "ext": c.extension,
                "avail": getattr(c, "fileobj_factory", None) is not None})
ops = []
for op in pickletools.opcodes:
    ops.append({"code": ord(op.code), "proto": op.proto, "argless": op.arg is None, "name": op.name})
print(json.dumps({
    "registry": reg,
    "zfile_prefix": list(compressor._ZFILE_PREFIX),
    "lz4_installed": numpy_pickle.lz4 is not None,
    "alignment": numpy_pickle.NUMPY_ARRAY_ALIGNMENT_BYTES,
    "buffer_size": numpy_pickle_utils.BUFFER_SIZE,
    "io_buffer_size": numpy_pickle_utils._IO_BUFFER_SIZE,
    "max_prefix_len": numpy_pickle_utils._get_prefixes_max_len(),
    "opcodes": ops,
    "highest_protocol": pickle.HIGHEST_PROTOCOL,
    "default_protocol": pickle.DEFAULT_PROTOCOL,
}))
"""


def live_constants(repo=None):
    env = common.impl_env()
    env["PYTHONPATH"] = repo or common.REPO
    p = subprocess.run([common.PY, "-c", CHILD], env=env, stdout=subprocess.PIPE, stderr=subprocess.PIPE, text=True,
                       timeout=120)
    if p.returncode != 0:
        raise RuntimeError("cannot read the live constants: " + p.stderr[-2000:])
    return json.loads(p.stdout.strip().splitlines()[-1])


def source_literals(repo=None):
    """String / integer literals the model of `dump` and `_write_fileobject` depends on, read off the live source by
    AST pattern.  Fail closed: an unexpected shape of the code raises."""
    import ast
    repo = repo or common.REPO
    src = open(os.path.join(repo, "joblib", "numpy_pickle.py"), encoding="utf-8").read()
    dump = [n for n in ast.parse(src).body if isinstance(n, ast.FunctionDef) and n.name == "dump"]
    if len(dump) != 1:
        raise RuntimeError("gen_c03: numpy_pickle.dump not found")
    dump = dump[0]
    default = [n for n in dump.body if isinstance(n, ast.Assign) and ast.unparse(n.targets[0]) == "compress_method"
               and isinstance(n.value, ast.Constant) and isinstance(n.value.value, str)]
    if len(default) != 1:
        raise RuntimeError("gen_c03: the default `compress_method = <str>` of dump() was not found")
    lz4 = [n for n in ast.walk(dump) if isinstance(n, ast.Compare) and ast.unparse(n.left) == "compress_method"
           and len(n.ops) == 1 and isinstance(n.ops[0], ast.Eq) and isinstance(n.comparators[0], ast.Constant)]
    if len(lz4) != 1:
        raise RuntimeError("gen_c03: the `compress_method == <str>` availability test of dump() was not found")
    rng = [n for n in ast.walk(dump) if isinstance(n, ast.Compare) and ast.unparse(n.left) == "compress_level"
           and len(n.ops) == 1 and isinstance(n.ops[0], ast.NotIn) and isinstance(n.comparators[0], ast.Call)
           and ast.unparse(n.comparators[0].func) == "range" and len(n.comparators[0].args) == 1
           and isinstance(n.comparators[0].args[0], ast.Constant)]
    if len(rng) != 1:
        raise RuntimeError("gen_c03: the `compress_level not in range(<int>)` test of dump() was not found")
    src2 = open(os.path.join(repo, "joblib", "numpy_pickle_utils.py"), encoding="utf-8").read()
    wf = [n for n in ast.parse(src2).body if isinstance(n, ast.FunctionDef) and n.name == "_write_fileobject"]
    if len(wf) != 1:
        raise RuntimeError("gen_c03: _write_fileobject not found")
    ifs = [n for n in wf[0].body if isinstance(n, ast.If)]
    if len(ifs) != 1 or ast.unparse(ifs[0].test) not in ("compressmethod in _COMPRESSORS.keys()", "compressmethod in _COMPRESSORS"):
        raise RuntimeError("gen_c03: unexpected shape of _write_fileobject")
    subs = [n for n in ast.walk(ast.Module(body=ifs[0].orelse, type_ignores=[])) if isinstance(n, ast.Subscript)
            and ast.unparse(n.value) == "_COMPRESSORS" and isinstance(n.slice, ast.Constant)]
    if len(subs) != 1:
        raise RuntimeError("gen_c03: the fallback compressor of _write_fileobject was not found")
    return {"default_method": default[0].value.value, "lz4_literal": lz4[0].comparators[0].value,
            "level_stop": int(rng[0].comparators[0].args[0].value), "fallback_method": subs[0].slice.value}


def zlist(xs):
    return "[" + "; ".join(str(int(x)) for x in xs) + "]"


def sbytes(s):
    return zlist(ord(ch) for ch in s)


def render(k):
    out = []
    out.append("(* REGENERATED on every run by harness/gen_c03.py from the live joblib "
               "(compressor._COMPRESSORS, numpy_pickle, numpy_pickle_utils) and CPython's pickletools.  Do not edit. *)")
    out.append("From Coq Require Import ZArith List Bool.")
    out.append("Import ListNotations.")
    out.append("Open Scope Z_scope.")
    out.append("")
    out.append("(* (name, magic prefix, file extension, fileobj_factory is not None), in registration order;")
    out.append("   strings are lists of code points, byte strings lists of byte values *)")
    rows = []
    for e in k["registry"]:
        rows.append("  (%s, %s, %s, %s) (* %s %s *)" % (sbytes(e["name"]), zlist(e["prefix"]), sbytes(e["ext"]),
                                                   "true" if e["avail"] else "false", e["name"], e["ext"]))
    out.append("Definition registry : list (list Z * list Z * list Z * bool) :=\n  [\n" + ";\n".join(rows) + "\n  ].")
    out.append("Definition zfile_prefix : list Z := %s." % zlist(k["zfile_prefix"]))
    out.append("Definition lz4_installed : bool := %s." % ("true" if k["lz4_installed"] else "false"))
    out.append("Definition NUMPY_ARRAY_ALIGNMENT_BYTES : Z := %d." % k["alignment"])
    out.append("Definition BUFFER_SIZE : Z := %d." % k["buffer_size"])
    out.append("Definition IO_BUFFER_SIZE : Z := %d." % k["io_buffer_size"])
    out.append("Definition live_max_prefix_len : nat := %d." % k["max_prefix_len"])
    out.append("(* CPython pickle opcodes of protocol 0/1: (byte, takes no argument) *)")
    ops = ["(%d, %s)" % (o["code"], "true" if o["argless"] else "false") for o in k["opcodes"] if o["proto"] <= 1]
    out.append("Definition pickle_ops01 : list (Z * bool) :=\n  [" + "; ".join(ops) + "].")
    out.append("Definition pickle_highest_protocol : Z := %d." % k["highest_protocol"])
    lit = k["literals"]
    out.append("(* literals of numpy_pickle.dump / numpy_pickle_utils._write_fileobject, read off the source by AST pattern *)")
    out.append("Definition dump_default_method : list Z := %s. (* compress_method = %r *)" % (sbytes(lit["default_method"]), lit["default_method"]))
    out.append("Definition dump_lz4_literal : list Z := %s. (* compress_method == %r and lz4 is None *)" % (sbytes(lit["lz4_literal"]), lit["lz4_literal"]))
    out.append("Definition dump_level_stop : Z := %d. (* compress_level not in range(%d) *)" % (lit["level_stop"], lit["level_stop"]))
    out.append("Definition write_fallback_method : list Z := %s. (* _COMPRESSORS[%r] in _write_fileobject's else branch *)" % (sbytes(lit["fallback_method"]), lit["fallback_method"]))
    out.append("")
    return "\n".join(out)


def generate(repo=None):
    k = live_constants(repo)
    try:
        k["literals"] = source_literals(repo)
    except RuntimeError as e:
        # the source no longer has the expected shape: keep the documented values so that the proofs and the model stay
        # what the documentation says; the behavioural tie (full-domain resolve comparison + oracle) then decides and
        # finds the failing input
        k["literals"] = {"default_method": "zlib", "lz4_literal": "lz4", "level_stop": 10, "fallback_method": "zlib"}
        k["literals_error"] = str(e)
    text = render(k)
    path = os.path.join(common.COQ, "Gen", "C03_Constants.v")
    changed = common.write_if_changed(path, text)
    return path, changed, k


if __name__ == "__main__":
    p, ch, k = generate()
    print(p, ch)
    print(open(p).read())
