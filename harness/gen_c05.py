"""Regenerate coq/Gen/T_store_ops.v: the ORDER of the backend primitives in
StoreBackendMixin.dump_item / store_metadata / store_cached_func_code / _concurrency_safe_write and the
temporary-name pattern of concurrency_safe_write, read off joblib/_store_backends.py (Python ast).

Fail closed: any statement outside the small fragment below raises TranslateError (the check then
falls back to the behavioural tie alone and says so).  Ignored: docstrings, `if verbose...: print(...)`.
"""
import ast
import os
import sys

sys.path.insert(0, os.path.dirname(os.path.abspath(__file__)))
import common  # noqa: E402
from translate import TranslateError  # noqa: E402

FILES = {"output.pkl": "EOutput", "metadata.json": "EMetadata", "func_code.py": "ECode"}


def _src(node):
    return ast.unparse(node)


def _is_self_call(node, name):
    return (isinstance(node, ast.Call) and isinstance(node.func, ast.Attribute) and node.func.attr == name
            and isinstance(node.func.value, ast.Name) and node.func.value.id == "self")


def _only_prints(body):
    return all(isinstance(s, ast.Expr) and isinstance(s.value, ast.Call) and getattr(s.value.func, "id", None) == "print"
               for s in body)


def _check_write_func(fn):
    """def write_func(to_write, dest_filename): with self._open_item(dest_filename, "wb") as f: ..."""
    if len(fn.args.args) != 2:
        raise TranslateError("write_func: unexpected signature")
    dest = fn.args.args[1].arg
    body = [s for s in fn.body if not (isinstance(s, ast.Expr) and isinstance(s.value, ast.Constant))]
    if len(body) != 1 or not isinstance(body[0], ast.With):
        raise TranslateError("write_func: body is not a single with-statement: " + _src(fn))
    item = body[0].items[0].context_expr
    if not (_is_self_call(item, "_open_item") and _src(item.args[0]) == dest and _src(item.args[1]) in ('"wb"', "'wb'")):
        raise TranslateError("write_func does not open its destination in 'wb' mode: " + _src(item))


def translate_method(fn):
    """-> (list of statement strings, handler string)"""
    env = {}        # variable -> pexp constructor
    out = []
    handler = ["HPropagate"]

    def path_of(node):
        s = _src(node)
        if s in env:
            return env[s]
        raise TranslateError("unknown path expression %r in %s" % (s, fn.name))

    def walk(stmts):
        for st in stmts:
            if isinstance(st, ast.Expr) and isinstance(st.value, ast.Constant) and isinstance(st.value.value, str):
                continue
            if isinstance(st, ast.Assign) and len(st.targets) == 1 and isinstance(st.targets[0], ast.Name):
                v, tgt = st.value, st.targets[0].id
                if isinstance(v, ast.Call) and _src(v.func) == "os.path.join":
                    if _src(v.args[0]) == "self.location" and isinstance(v.args[1], ast.Starred):
                        env[tgt] = {"item_path": "EItem", "func_path": "EFunc"}.get(tgt)
                        if env[tgt] is None:
                            raise TranslateError("unexpected location variable %r" % tgt)
                        continue
                    if len(v.args) == 2 and isinstance(v.args[1], ast.Constant) and v.args[1].value in FILES:
                        path_of(v.args[0])
                        env[tgt] = FILES[v.args[1].value]
                        continue
                raise TranslateError("unsupported assignment in %s: %s" % (fn.name, _src(st)))
            if isinstance(st, ast.If):
                t = st.test
                if _only_prints(st.body) and not st.orelse:
                    continue
                if (isinstance(t, ast.UnaryOp) and isinstance(t.op, ast.Not) and _is_self_call(t.operand, "_item_exists")
                        and len(st.body) == 1 and not st.orelse and isinstance(st.body[0], ast.Expr)
                        and _is_self_call(st.body[0].value, "create_location")
                        and _src(st.body[0].value.args[0]) == _src(t.operand.args[0])):
                    out.append("SEnsure %s" % path_of(t.operand.args[0]))
                    continue
                if _src(t) == "func_code is not None" and not st.orelse:
                    inner = [s for s in st.body]
                    if (len(inner) == 2 and isinstance(inner[0], ast.Assign) and isinstance(inner[1], ast.With)):
                        walk([inner[0]])
                        w = inner[1]
                        item = w.items[0].context_expr
                        if (_is_self_call(item, "_open_item") and _src(item.args[1]) in ('"wb"', "'wb'")
                                and len(w.body) == 1 and _src(w.body[0]).startswith("f.write(")):
                            out.append("SWriteIfGiven %s" % path_of(item.args[0]))
                            continue
                raise TranslateError("unsupported if in %s: %s" % (fn.name, _src(st)[:120]))
            if isinstance(st, ast.Expr) and _is_self_call(st.value, "create_location"):
                out.append("SCreate %s" % path_of(st.value.args[0]))
                continue
            if isinstance(st, ast.Expr) and _is_self_call(st.value, "_concurrency_safe_write"):
                if _src(st.value.args[2]) != "write_func":
                    raise TranslateError("unexpected writer in %s" % fn.name)
                out.append("SSafeWrite %s" % path_of(st.value.args[1]))
                continue
            if isinstance(st, ast.FunctionDef) and st.name == "write_func":
                _check_write_func(st)
                continue
            if isinstance(st, ast.Try):
                if st.orelse or st.finalbody or len(st.handlers) != 1:
                    raise TranslateError("unsupported try shape in %s" % fn.name)
                h = st.handlers[0]
                swallow = (h.type is None or _src(h.type) == "Exception")
                body_ok = all(isinstance(s, ast.Pass) or (isinstance(s, ast.Expr) and _src(s.value).startswith("warnings.warn("))
                              for s in h.body)
                if not (swallow and body_ok):
                    raise TranslateError("unsupported except clause in %s: %s" % (fn.name, _src(h)[:100]))
                handler[0] = "HSwallow"
                walk(st.body)
                continue
            raise TranslateError("unsupported statement in %s: %s" % (fn.name, _src(st)[:120]))

    walk(fn.body)
    return out, handler[0]


def translate_csw(fn):
    body = [s for s in fn.body if not (isinstance(s, ast.Expr) and isinstance(s.value, ast.Constant))]
    out = []
    tmpvar = None
    for st in body:
        if (isinstance(st, ast.Assign) and isinstance(st.value, ast.Call) and _src(st.value.func) == "concurrency_safe_write"
                and _src(st.value.args[1]) == "filename" and _src(st.value.args[2]) == "write_func"):
            tmpvar = st.targets[0].id
            out.append("CWriteTmp")
        elif (isinstance(st, ast.Expr) and _is_self_call(st.value, "_move_item") and tmpvar is not None
              and _src(st.value.args[0]) == tmpvar and _src(st.value.args[1]) == "filename"):
            out.append("CMove")
        else:
            raise TranslateError("unsupported statement in _concurrency_safe_write: " + _src(st)[:120])
    return out


def translate_tmpname(fn):
    """concurrency_safe_write: the temporary name is '<filename>.thread-<id(current thread)>-pid-<getpid()>',
    written by write_func(obj, tmp) and returned"""
    src = {}
    calls = []
    for st in fn.body:
        if isinstance(st, ast.Expr) and isinstance(st.value, ast.Constant):
            continue
        if isinstance(st, ast.Assign):
            src[st.targets[0].id] = _src(st.value)
        elif isinstance(st, ast.Expr) and isinstance(st.value, ast.Call):
            calls.append(_src(st.value))
        elif isinstance(st, ast.Return):
            calls.append("return " + _src(st.value))
        else:
            raise TranslateError("unsupported statement in concurrency_safe_write: " + _src(st)[:120])
    ok = (src.get("thread_id") == "id(threading.current_thread())"
          and src.get("temporary_filename") == "'{}.thread-{}-pid-{}'.format(filename, thread_id, os.getpid())"
          and calls == ["write_func(object_to_write, temporary_filename)", "return temporary_filename"])
    if not ok:
        raise TranslateError("concurrency_safe_write no longer builds '<file>.thread-<id>-pid-<pid>': %s %s" % (src, calls))
    return "TmpThreadPid"


HEADER = """(* REGENERATED on every run by harness/gen_c05.py from joblib/_store_backends.py
   (StoreBackendMixin.dump_item, store_metadata, store_cached_func_code, _concurrency_safe_write,
   concurrency_safe_write).  Do not edit. *)
From Coq Require Import List.
Require Import JV.Model.FsModel.
Import ListNotations.

"""


def generate(repo=None):
    repo = repo or common.REPO
    path = os.path.join(repo, "joblib", "_store_backends.py")
    tree = ast.parse(open(path, encoding="utf-8").read())
    cls = next((n for n in tree.body if isinstance(n, ast.ClassDef) and n.name == "StoreBackendMixin"), None)
    if cls is None:
        raise TranslateError("class StoreBackendMixin not found")
    meths = {n.name: n for n in cls.body if isinstance(n, ast.FunctionDef)}
    funcs = {n.name: n for n in tree.body if isinstance(n, ast.FunctionDef)}
    for m in ("dump_item", "store_metadata", "store_cached_func_code", "_concurrency_safe_write"):
        if m not in meths:
            raise TranslateError("method %s not found" % m)
    if "concurrency_safe_write" not in funcs:
        raise TranslateError("function concurrency_safe_write not found")
    text = HEADER
    for name, meth in (("gen_dump_item", "dump_item"), ("gen_store_metadata", "store_metadata"),
                       ("gen_store_code", "store_cached_func_code")):
        stmts, h = translate_method(meths[meth])
        text += "Definition %s : list sstmt * handler := ([%s], %s).\n" % (name, "; ".join(stmts), h)
    text += "Definition gen_csw : list cstmt := [%s].\n" % "; ".join(translate_csw(meths["_concurrency_safe_write"]))
    text += "Definition gen_tmpname : tmpname := %s.\n" % translate_tmpname(funcs["concurrency_safe_write"])
    out = os.path.join(common.COQ, "Gen", "T_store_ops.v")
    changed = common.write_if_changed(out, text)
    return out, changed


if __name__ == "__main__":
    print(generate())
    print(open(os.path.join(common.COQ, "Gen", "T_store_ops.v")).read())
