"""Regenerate coq/Gen/T_filter_args.v from the LIVE source of joblib.func_inspect.filter_args.

A deliberately tiny, fail-closed translator (Python ast -> Gallina) for the four loops of filter_args:

  scan_param_gen   body of `for param in arg_sig.parameters.values():`      (kind dispatch, defaults)
  named_step_gen   body of `for arg_position, arg_name in enumerate(arg_names):`
  kw_step_gen      body of `for arg_name, arg_value in sorted(kwargs.items()):`
  ignore_step_gen  body of `for item in ignore_lst:`
  tail_order_gen   the order of the two assignments arg_dict['**'] / arg_dict['*'] after the loops

Anything outside the recognised statement/expression forms raises TranslateError (no guessing).
Proofs/FilterArgsGen.v proves the generated functions equal to the hand-written ones of
Model/FilterArgs.v; harness/props/c07.py rebuilds that file on every run.
"""
import ast
import os
import sys

sys.path.insert(0, os.path.dirname(os.path.abspath(__file__)))
import common  # noqa: E402


class TranslateError(Exception):
    pass


KINDS = {"POSITIONAL_ONLY": "PosOnly", "POSITIONAL_OR_KEYWORD": "PosOrKw", "VAR_POSITIONAL": "VarPos",
         "KEYWORD_ONLY": "KwOnly", "VAR_KEYWORD": "VarKw"}
# variables of the scan loop -> field index of the record `scan`
FIELDS = ["arg_names", "arg_defaults", "arg_kwonlyargs", "arg_varargs", "arg_varkw"]
EXNS = {"ValueError", "TypeError", "KeyError", "IndexError"}


def src(node):
    return ast.unparse(node)


def fail(node, why):
    raise TranslateError("%s: `%s` (line %s)" % (why, src(node)[:80], getattr(node, "lineno", "?")))


def is_attr(node, base, attr):
    return (isinstance(node, ast.Attribute) and isinstance(node.value, ast.Name) and node.value.id == base
            and node.attr == attr)


# ------------------------------------------------------------------------------------------- scan loop
def scan_update(field, how, what):
    """mkScan term with one field changed; fields are read from st_"""
    cur = ["(sc_names st_)", "(sc_defaults st_)", "(sc_kwonly st_)", "(sc_varargs st_)", "(sc_varkw st_)"]
    i = FIELDS.index(field)
    if how == "append":
        if i > 2:
            raise TranslateError("append to a non-list variable " + field)
        cur[i] = "(%s ++ [%s])" % (cur[i][1:-1], what)
    else:
        if i < 3:
            raise TranslateError("assignment to a list variable " + field)
        cur[i] = "(Some (%s))" % what
    return "mkScan " + " ".join(cur)


def scan_action(stmt):
    # <list>.append(param.name|param.default)   or   <var> = param.name
    if isinstance(stmt, ast.Expr) and isinstance(stmt.value, ast.Call):
        c = stmt.value
        if (isinstance(c.func, ast.Attribute) and c.func.attr == "append" and isinstance(c.func.value, ast.Name)
                and c.func.value.id in FIELDS and len(c.args) == 1 and not c.keywords):
            if is_attr(c.args[0], "param", "name"):
                return c.func.value.id, "append", "pname p"
            if is_attr(c.args[0], "param", "default"):
                return c.func.value.id, "append", "d_"
    if (isinstance(stmt, ast.Assign) and len(stmt.targets) == 1 and isinstance(stmt.targets[0], ast.Name)
            and stmt.targets[0].id in FIELDS and is_attr(stmt.value, "param", "name")):
        return stmt.targets[0].id, "assign", "pname p"
    fail(stmt, "scan loop: unsupported statement")


def scan_block(stmts):
    out = "st_"
    for s in stmts:
        f, how, what = scan_action(s)
        out = "(let st_ := %s in %s)" % (out, scan_update(f, how, what)) if out != "st_" else "(%s)" % scan_update(f, how, what)
    return out


def scan_if(node):
    """if param.kind is param.X: ... elif ...   ->  nested if kind_eqb"""
    if not isinstance(node, ast.If):
        fail(node, "scan loop: expected if")
    t = node.test
    if not (isinstance(t, ast.Compare) and len(t.ops) == 1 and isinstance(t.ops[0], ast.Is)
            and is_attr(t.left, "param", "kind") and isinstance(t.comparators[0], ast.Attribute)
            and isinstance(t.comparators[0].value, ast.Name) and t.comparators[0].value.id == "param"
            and t.comparators[0].attr in KINDS):
        fail(t, "scan loop: unsupported test")
    kind = KINDS[t.comparators[0].attr]
    then = scan_block(node.body)
    if not node.orelse:
        other = "st_"
    elif len(node.orelse) == 1 and isinstance(node.orelse[0], ast.If):
        other = scan_if(node.orelse[0])
    else:
        other = scan_block(node.orelse)
    return "(if kind_eqb (pkind p) %s then %s else %s)" % (kind, then, other)


def translate_scan(loop):
    if not (isinstance(loop.target, ast.Name) and loop.target.id == "param"
            and src(loop.iter) == "arg_sig.parameters.values()" and not loop.orelse):
        fail(loop, "scan loop: unexpected header")
    steps = []
    for s in loop.body:
        if not isinstance(s, ast.If):
            fail(s, "scan loop: unsupported statement")
        t = s.test
        if (isinstance(t, ast.Compare) and len(t.ops) == 1 and isinstance(t.ops[0], ast.IsNot)
                and is_attr(t.left, "param", "default") and is_attr(t.comparators[0], "param", "empty")):
            if s.orelse:
                fail(s, "scan loop: else on the default test")
            steps.append("(match pdefault p with Some d_ => %s | None => st_ end)" % scan_block(s.body))
        else:
            steps.append(scan_if(s))
    body = "st_"
    for st in reversed(steps):
        body = "let st_ := %s in\n  %s" % (st, body)
    return "Definition scan_param_gen (st_ : scan) (p : param) : scan :=\n  %s.\n" % body


# ------------------------------------------------------------------------------- statement loops (monadic)
class Loop:
    """translation of a loop body over a dict state `arg_dict` into `result <state>`"""

    def __init__(self, names, lens, ret):
        self.names = names      # python name -> gallina name (variables in scope)
        self.lens = lens        # python name -> gallina term for len(<name>)
        self.ret = ret          # final continuation

    def int_expr(self, e):
        if isinstance(e, ast.Name) and e.id in self.names:
            return self.names[e.id]
        if isinstance(e, ast.Call) and isinstance(e.func, ast.Name) and e.func.id == "len" and len(e.args) == 1 \
                and isinstance(e.args[0], ast.Name) and e.args[0].id in self.lens:
            return self.lens[e.args[0].id]
        if isinstance(e, ast.BinOp) and isinstance(e.op, (ast.Sub, ast.Add)):
            return "(%s %s %s)" % (self.int_expr(e.left), "-" if isinstance(e.op, ast.Sub) else "+", self.int_expr(e.right))
        if isinstance(e, ast.Constant) and isinstance(e.value, int):
            return common.zlit(e.value)
        fail(e, "unsupported integer expression")

    def test(self, t):
        if isinstance(t, ast.Compare) and len(t.ops) == 1:
            op, l, r = t.ops[0], t.left, t.comparators[0]
            if isinstance(op, ast.Lt):
                return "(%s <? %s)" % (self.int_expr(l), self.int_expr(r))
            if isinstance(op, (ast.In, ast.NotIn)) and isinstance(l, ast.Name) and isinstance(r, ast.Name):
                key, cont = l.id, r.id
                if cont == "arg_kwonlyargs" and key in self.names:
                    b = "(name_mem %s %s)" % (self.names[key], self.names[cont])
                elif cont == "kwargs" and key in self.names:
                    b = "(kw_mem %s %s)" % (self.names[key], self.names[cont])
                elif cont == "arg_dict" and key == "arg_name":
                    b = "(dmem (KName %s) arg_dict)" % self.names[key]
                elif cont == "arg_dict" and key == "item":
                    b = "(dmem item arg_dict)"
                else:
                    fail(t, "unsupported membership test")
                return b if isinstance(op, ast.In) else "(negb %s)" % b
            if isinstance(op, ast.IsNot) and isinstance(l, ast.Name) and l.id == "arg_varkw" \
                    and isinstance(r, ast.Constant) and r.value is None:
                return "(is_some_name arg_varkw)"
        fail(t, "unsupported test")

    def rvalue(self, e):
        """expression that may raise -> term of type result value"""
        if isinstance(e, ast.Subscript) and isinstance(e.value, ast.Name):
            c, i = e.value.id, e.slice
            if c == "args":
                return "(py_index args %s)" % self.int_expr(i)
            if c == "arg_defaults":
                return "(py_index arg_defaults %s)" % self.int_expr(i)
            if c == "kwargs" and isinstance(i, ast.Name) and i.id in self.names:
                return "(py_getitem kwargs %s)" % self.names[i.id]
        if isinstance(e, ast.Name) and e.id == "arg_value":
            return "(Ok arg_value)"
        fail(e, "unsupported right-hand side")

    def raise_(self, s):
        if isinstance(s, ast.Raise) and isinstance(s.exc, ast.Call) and isinstance(s.exc.func, ast.Name) \
                and s.exc.func.id in EXNS:
            return "(Raise %s)" % s.exc.func.id
        fail(s, "unsupported raise")

    def block(self, stmts, cont):
        if not stmts:
            return cont
        s, rest = stmts[0], stmts[1:]
        if isinstance(s, ast.Assign) and len(s.targets) == 1 and isinstance(s.targets[0], ast.Name) \
                and s.targets[0].id == "position":
            self.names["position"] = "position"
        k = self.block(rest, cont) if not isinstance(s, (ast.If, ast.Raise)) else None
        if isinstance(s, ast.Raise):
            return self.raise_(s)
        if isinstance(s, ast.If):
            return "(if %s then %s else %s)" % (self.test(s.test), self.block(s.body + rest, cont),
                                                self.block(s.orelse + rest, cont))
        if isinstance(s, ast.Assign) and len(s.targets) == 1:
            tg = s.targets[0]
            if isinstance(tg, ast.Name) and tg.id == "position":
                self.names["position"] = "position"
                return "(let position := %s in %s)" % (self.int_expr(s.value), self.block(rest, cont))
            if isinstance(tg, ast.Subscript) and isinstance(tg.value, ast.Name) and isinstance(tg.slice, ast.Name):
                d, key = tg.value.id, tg.slice.id
                if d == "arg_dict" and key == "arg_name":
                    return "(bind %s (fun v_ => let arg_dict := dset (KName %s) (VOne v_) arg_dict in %s))" % (
                        self.rvalue(s.value), self.names[key], k)
                if d == "varkwargs" and key == "arg_name" and isinstance(s.value, ast.Name) and s.value.id == "arg_value":
                    return "(let varkwargs := varkwargs ++ [(%s, arg_value)] in %s)" % (self.names[key], k)
            fail(s, "unsupported assignment")
        if isinstance(s, ast.Try):
            if len(s.body) != 1 or len(s.handlers) != 1 or s.orelse or s.finalbody:
                fail(s, "unsupported try")
            h = s.handlers[0]
            types = h.type.elts if isinstance(h.type, ast.Tuple) else [h.type]
            names = [t.id for t in types if isinstance(t, ast.Name)]
            if len(names) != len(types) or not set(names) <= EXNS or len(h.body) != 1:
                fail(s, "unsupported except clause")
            a = s.body[0]
            if not (isinstance(a, ast.Assign) and len(a.targets) == 1 and isinstance(a.targets[0], ast.Subscript)
                    and src(a.targets[0]) == "arg_dict[arg_name]"):
                fail(s, "unsupported try body")
            handler = self.raise_(h.body[0])
            arms = " ".join("| Raise %s => %s" % (n, handler) for n in names)
            return ("(match %s with Ok v_ => let arg_dict := dset (KName %s) (VOne v_) arg_dict in %s %s "
                    "| Raise e_ => Raise e_ end)" % (self.rvalue(a.value), self.names["arg_name"], k, arms))
        if isinstance(s, ast.Expr) and src(s) == "arg_dict.pop(item)":
            return "(let arg_dict := dpop item arg_dict in %s)" % k
        fail(s, "unsupported statement")


def find_loops(fn):
    loops = [n for n in fn.body if isinstance(n, ast.For)]
    by = {}
    for lp in loops:
        it = src(lp.iter)
        if it == "arg_sig.parameters.values()":
            by["scan"] = lp
        elif it == "enumerate(arg_names)":
            by["named"] = lp
        elif it == "sorted(kwargs.items())":
            by["kw"] = lp
        elif it == "ignore_lst":
            by["ignore"] = lp
        else:
            fail(lp, "unknown loop in filter_args")
    missing = {"scan", "named", "kw", "ignore"} - set(by)
    if missing:
        raise TranslateError("loops not found: %s" % sorted(missing))
    return by


def fallback_test(fn):
    """the test guarding `return {"*": args, "**": kwargs}` as a boolean function of
    inspect.ismethod(func) / inspect.isfunction(func); any other atom is rejected"""
    for s_ in fn.body:
        if isinstance(s_, ast.If) and s_.body and isinstance(s_.body[-1], ast.Return) \
                and src(s_.body[-1].value).replace('"', "'") == "{'*': args, '**': kwargs}":
            def b(t):
                if isinstance(t, ast.BoolOp):
                    op = " && " if isinstance(t.op, ast.And) else " || "
                    return "(" + op.join(b(v) for v in t.values) + ")"
                if isinstance(t, ast.UnaryOp) and isinstance(t.op, ast.Not):
                    return "(negb %s)" % b(t.operand)
                if src(t) == "inspect.ismethod(func)":
                    return "is_method"
                if src(t) == "inspect.isfunction(func)":
                    return "is_function"
                fail(t, "fallback test: unsupported atom")
            return "Definition takes_fallback_gen (is_method is_function : bool) : bool :=\n  %s.\n" % b(s_.test)
    raise TranslateError("the fallback return {'*': args, '**': kwargs} was not found")


def tail_order(fn, kw_loop, ign_loop):
    """the statements between the kwargs loop and the ignore loop: which special key is written first"""
    i0, i1 = fn.body.index(kw_loop), fn.body.index(ign_loop)
    order = []
    for s in fn.body[i0 + 1:i1]:
        if not isinstance(s, ast.If):
            fail(s, "tail: unsupported statement")
        t = src(s.test)
        if t == "arg_varkw is not None" and [src(x) for x in s.body] == ["arg_dict['**'] = varkwargs"]:
            order.append(1)
        elif t == "arg_varargs is not None" and [src(x) for x in s.body] == [
                "varargs = args[arg_position + 1:]", "arg_dict['*'] = varargs"]:
            order.append(2)
        else:
            fail(s, "tail: unsupported statement")
    return order


HEADER = """(* REGENERATED on every run by harness/gen_c07.py from joblib/func_inspect.py (filter_args).
   Do not edit.  Proofs/FilterArgsGen.v proves these equal to the hand model. *)
From Coq Require Import ZArith List Bool.
Require Import JV.Base.PyPrelude JV.Model.FilterArgs.
Import ListNotations.
Open Scope Z_scope.

Definition py_getitem (kwargs : list (name * value)) (k : name) : result value :=
  match kw_lookup k kwargs with Some v => Ok v | None => Raise KeyError end.
Definition is_some_name (o : option name) : bool := match o with Some _ => true | None => false end.

"""


def generate(repo=None):
    repo = repo or common.REPO
    path = os.path.join(repo, "joblib", "func_inspect.py")
    tree = ast.parse(open(path, encoding="utf-8").read())
    fns = [n for n in tree.body if isinstance(n, ast.FunctionDef) and n.name == "filter_args"]
    if len(fns) != 1:
        raise TranslateError("filter_args not found")
    fn = fns[0]
    by = find_loops(fn)
    text = HEADER + translate_scan(by["scan"]) + "\n"
    # main loop
    lp = by["named"]
    if src(lp.target) != "(arg_position, arg_name)" and src(lp.target) != "arg_position, arg_name":
        fail(lp, "main loop: unexpected target")
    L = Loop({"arg_position": "arg_position", "arg_name": "arg_name", "arg_kwonlyargs": "arg_kwonlyargs",
              "kwargs": "kwargs"}, {"args": "(len args)", "arg_names": "n_arg_names"}, "(Ok arg_dict)")
    text += ("Definition named_step_gen (args : list value) (kwargs : list (name * value)) (arg_kwonlyargs : list name)\n"
             "    (arg_defaults : list value) (n_arg_names : Z) (arg_position : Z) (arg_name : name) (arg_dict : adict)\n"
             "  : result adict :=\n  %s.\n\n" % L.block(lp.body, "(Ok arg_dict)"))
    # kwargs loop
    lp = by["kw"]
    if src(lp.target) not in ("(arg_name, arg_value)", "arg_name, arg_value"):
        fail(lp, "kwargs loop: unexpected target")
    K = Loop({"arg_name": "arg_name", "kwargs": "kwargs"}, {}, "")
    text += ("Definition kw_step_gen (arg_varkw : option name) (arg_name : name) (arg_value : value) (arg_dict : adict)\n"
             "    (varkwargs : list (name * value)) : result (adict * list (name * value)) :=\n  %s.\n\n"
             % K.block(lp.body, "(Ok (arg_dict, varkwargs))"))
    # ignore loop
    lp = by["ignore"]
    if src(lp.target) != "item":
        fail(lp, "ignore loop: unexpected target")
    I = Loop({}, {}, "")
    text += ("Definition ignore_step_gen (item : key) (arg_dict : adict) : result adict :=\n  %s.\n\n"
             % I.block(lp.body, "(Ok arg_dict)"))
    order = tail_order(fn, by["kw"], by["ignore"])
    text += "(* 1 = arg_dict['**'] = varkwargs, 2 = arg_dict['*'] = args[arg_position + 1:] *)\n"
    text += "Definition tail_order_gen : list Z := %s.\n\n" % common.coq_list(map(str, order))
    text += fallback_test(fn)
    out = os.path.join(common.COQ, "Gen", "T_filter_args.v")
    changed = common.write_if_changed(out, text)
    return out, changed


if __name__ == "__main__":
    print(generate())
    print(open(os.path.join(common.COQ, "Gen", "T_filter_args.v")).read())
