#!/usr/bin/env python3
"""Writes /verif/MANIFEST.json from the table below (kept in one place so it stays valid)."""
import json
import os

ROOT = os.path.dirname(os.path.dirname(os.path.abspath(__file__)))

NOTE_COMMON = ("Trusted: Coq 8.16.1 kernel (full .vo build, vm_compute, no native_compute); the hand-written Gallina "
               "model and the correspondence harness (generators, canonicalisation, oracles); see DESIGN.md section 6.")

# property -> dict(text, note, technique, design_ref)   (only properties whose check exists)
CHECKS = {
    "C18": dict(
        text="Theorems (Coq, closed under the global context) about the Gallina function REGENERATED from "
             "StoreBackendMixin._get_items_to_delete on every run: result is a prefix of the stably LRU-sorted store, "
             "the remainder meets every limit, no shorter prefix does, equals the declarative spec; for all stores and "
             "limits. Tied additionally by differential runs of the real method and of Memory.reduce_size on a real "
             "directory against the translated function, the hand model and an independent oracle.",
        note="translator table (time as integer ticks, get_items as a parameter), non-negative sizes; get_items/rmtree "
             "glue is exercised end-to-end, not proved. " + NOTE_COMMON,
        technique="Coq proof over a source-translated function + differential correspondence",
        design_ref="DESIGN.md section 4, C18"),
}

NOT_YET = {}

# checks that are finished and verified on the unchanged tree (builders' entries are merged only when listed here)
READY = {"C%02d" % i for i in range(1, 21)}

ALL = ["C%02d" % i for i in range(1, 21)]


def main():
    import glob
    for extra in sorted(glob.glob(os.path.join(ROOT, "manifest.d", "*.json"))):
        d = json.load(open(extra))
        if d["property_id"] in READY:
            CHECKS[d["property_id"]] = d
    checks = []
    for pid in ALL:
        if pid not in CHECKS:
            continue
        c = CHECKS[pid]
        checks.append({
            "property_id": pid,
            "quick_cmd": "./check %s --tier quick" % pid,
            "thorough_cmd": "./check %s --tier thorough" % pid,
            "evidence_file": "/verif/evidence/%s.json" % pid,
            "replay_cmd_template": "./check %s --replay {path}" % pid,
            "engine": "coq",
            "level_claimed": {"category": "proof", "text": c["text"], "design_ref": c["design_ref"]},
            "level_note": c["note"],
            "technique": c["technique"],
        })
    na = [{"property_id": pid, "reason": NOT_YET.get(pid, "check not built yet in this round (planned, see DESIGN.md section 8); not claimed until its check exists")}
          for pid in ALL if pid not in CHECKS]
    src_commits = []
    p = os.path.join(ROOT, "repo_commits.json")
    if os.path.exists(p):
        src_commits = json.load(open(p))
    m = {
        "version": 1,
        "setup_cmd": "cd /verif && /venv/bin/python harness/setup.py",
        "hooks": {
            "guard": "JOBLIB_VERIF",
            "enable": "no source hook is needed: checks import joblib from /repo's working tree (PYTHONPATH=/repo) and "
                      "instrument it from the harness side (public backend API, sys.monitoring, monkey-patching in the "
                      "child interpreter); JOBLIB_VERIF=1 is exported by the harness but nothing in /repo reads it",
            "baseline_off_cmd": "cd /repo && /venv/bin/python -m pytest -ra -q -p no:cacheprovider --timeout=900 --continue-on-collection-errors",
            "source_commits": src_commits,
            "add_only": True,
        },
        "engines": [{"name": "coq", "path": "/verif/coq", "serves_properties": [c["property_id"] for c in checks],
                     "kind_free_text": "Coq 8.16.1 development (Base/Gen/Model/Proofs/Props) + Python correspondence harness"}],
        "checks": checks,
        "not_applicable": na,
        "notes": "All checks: ./check <id> --tier quick|thorough. Known findings in /verif/known_findings.json.",
    }
    with open(os.path.join(ROOT, "MANIFEST.json"), "w") as f:
        json.dump(m, f, indent=1)
    print("MANIFEST.json: %d checks, %d not_applicable" % (len(checks), len(na)))


if __name__ == "__main__":
    main()
