import sys, threading, time, warnings
sys.path.insert(0,'/repo')
warnings.simplefilter('ignore')
import importlib.util
import os
src = open(os.path.join(os.path.dirname(os.path.abspath(__file__)), 'vb.py')).read().split("rnd = random.Random(0)")[0]
exec(src)
be = VerifBackend(3, 1)
p = Parallel(n_jobs=3, backend=be, pre_dispatch=3, batch_size=1, return_as='generator')
box={}
def first():
    g = p(It(30)); box['g']=g
t=threading.Thread(target=first); t.start(); t.join()
be.complete(0)            # one completion -> slices 3 more, dispatches 1, leaves 2 in look-ahead
g=box['g']; print('first value', next(g)); g.close()
print('look-ahead left after close:', p._ready_batches.qsize())
be.pending.clear()
res=[]
def second():
    for v in p(delayed(ident)(i) for i in range(100,103)): res.append(v)
t=threading.Thread(target=second, daemon=True); t.start()
t0=time.time()
while t.is_alive() and time.time()-t0<5:
    if be.pending: be.complete(0)
    else: time.sleep(0.001)
print('second call ->', res)
