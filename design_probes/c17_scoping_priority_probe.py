import sys, random, threading, warnings
sys.path.insert(0,'/repo')
warnings.simplefilter('ignore')
from joblib import Parallel, parallel_config, parallel_backend
from joblib.parallel import get_active_backend, default_parallel_config, _backend
import joblib.parallel as jp
rnd = random.Random(3)
KEYS = ['n_jobs','verbose','prefer','require','max_nbytes','mmap_mode','temp_folder']
VALS = {'n_jobs':[1,2,3,-1],'verbose':[0,5,60],'prefer':['threads','processes',None],'require':['sharedmem',None],
        'max_nbytes':[None,100,'2K'],'mmap_mode':['r','c',None],'temp_folder':['/tmp/a',None], 'backend':['threading','loky','multiprocessing','sequential']}
def snapshot():
    c = getattr(_backend,'config',default_parallel_config)
    return {k:(type(v).__name__ if k=='backend' and not isinstance(v, jp._Sentinel) else repr(v)) for k,v in c.items()}
bad = 0
def nest(depth, stack):
    global bad
    before = snapshot()
    kw = {k: rnd.choice(VALS[k]) for k in KEYS if rnd.random()<0.4}
    if kw.get('prefer')=='processes' and kw.get('require')=='sharedmem': kw.pop('prefer')
    args = [rnd.choice(VALS['backend'])] if rnd.random()<0.5 else []
    raised = rnd.random()<0.3
    try:
        with parallel_config(*args, **kw) as cfg:
            eff = dict(stack); eff.update(kw)
            if args: eff['backend']=args[0]
            # priority check for Parallel with explicit subset
            ex = {k: rnd.choice(VALS[k]) for k in ['n_jobs','verbose','max_nbytes','mmap_mode','temp_folder'] if rnd.random()<0.3}
            try:
                p = Parallel(**ex)
                for k in ['max_nbytes','mmap_mode','temp_folder']:
                    exp = ex[k] if k in ex else eff.get(k, default_parallel_config[k].default_value)
                    if k=='max_nbytes' and isinstance(exp,str): exp = jp.memstr_to_bytes(exp)
                    if p._backend_kwargs[k]!=exp: bad+=1; print('PRIORITY', k, ex, eff, p._backend_kwargs[k])
                expn = ex.get('n_jobs', eff.get('n_jobs'))
                if eff.get('require')=='sharedmem' and not getattr(p._backend,'supports_sharedmem',False): bad+=1; print('SHAREDMEM', eff, p._backend)
                if expn is not None and not (eff.get('require')=='sharedmem' and eff.get('backend') in ('loky','multiprocessing') and 'n_jobs' not in ex) and p.n_jobs!=expn: bad+=1; print('NJOBS', ex, eff, p.n_jobs)
            except ValueError as e:
                pass
            if depth<4 and rnd.random()<0.7: nest(depth+1, eff)
            if raised: raise KeyError('x')
    except KeyError: pass
    after = snapshot()
    if before!=after: bad+=1; print('NOT RESTORED', before, after)
for i in range(400): nest(0, {})
# thread locality
seen=[]
def other(): seen.append(snapshot())
with parallel_config('threading', n_jobs=3):
    t=threading.Thread(target=other); t.start(); t.join()
print('other thread saw', seen[0]['n_jobs'], seen[0]['backend'])
print('bad', bad)
