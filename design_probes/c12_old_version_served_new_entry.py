import sys, os, tempfile, warnings
sys.path.insert(0,'/repo')
from joblib import Memory
warnings.simplefilter('ignore')
d = tempfile.mkdtemp()
mem = Memory(d, verbose=0)
def make(k):
    src = "def g(x):\n    return ('v%d', x)\n" % k
    ns = {}
    fn = os.path.join(d, 'mod_v%d.py' % k)
    open(fn,'w').write(src)
    exec(compile(src, fn, 'exec'), ns)
    g = ns['g']; g.__module__ = 'c12mod'
    return g
g1 = make(1); g2 = make(2)
c1 = mem.cache(g1); c2 = mem.cache(g2)
print(c1.func_id, c2.func_id)
print('c1(0)', c1(0))
print('c2(0)', c2(0))
print('c1(0) again', c1(0), ' <- expected v1')
print('c2(0) again', c2(0))
