From Coq Require Import ZArith List Bool Lia ZifyBool.
Import ListNotations.
Open Scope Z_scope.

Record item := { isize : Z; iatime : Z }.

(* as the translator would emit the loop body of _get_items_to_delete:
   state = (done, acc_rev, size_so_far, items_so_far) *)
Section Sel.
Variables (to_del_size to_del_items : Z) (deadline : option Z).

Definition stop_cond (size_so_far items_so_far : Z) (it : item) : bool :=
  (to_del_size <=? size_so_far) && (to_del_items <=? items_so_far) &&
  match deadline with None => true | Some d => d <? iatime it end.

Fixpoint loop (l : list item) (sz n : Z) : list item :=
  match l with
  | [] => []
  | it :: tl => if stop_cond sz n it then [] else it :: loop tl (sz + isize it) (n + 1)
  end.
End Sel.

Fixpoint total (l : list item) : Z := match l with [] => 0 | i :: t => isize i + total t end.

Definition limits_ok (bl il : option Z) (deadline : option Z) (rest : list item) : Prop :=
  (match bl with None => True | Some b => total rest <= b end) /\
  (match il with None => True | Some n => Z.of_nat (length rest) <= n end) /\
  (match deadline with None => True | Some d => Forall (fun i => d < iatime i) rest end).

Definition sorted (l : list item) := forall i j a b, nth_error l i = Some a -> nth_error l j = Some b -> (i <= j)%nat -> iatime a <= iatime b.

Definition select (bl il deadline : option Z) (l : list item) : list item :=
  let tds := match bl with None => 0 | Some b => total l - b end in
  let tdi := match il with None => 0 | Some n => Z.of_nat (length l) - n end in
  loop tds tdi deadline l 0 0.

Lemma loop_prefix tds tdi dl l : forall sz n, exists rest, l = loop tds tdi dl l sz n ++ rest.
Proof.
  induction l as [|a l IH]; intros sz n; cbn [loop].
  - exists []. reflexivity.
  - destruct (stop_cond tds tdi dl sz n a).
    + exists (a :: l). reflexivity.
    + destruct (IH (sz + isize a) (n + 1)) as [r Hr]. exists r. cbn. f_equal. exact Hr.
Qed.

Lemma total_app a b : total (a ++ b) = total a + total b.
Proof. induction a as [|x a IH]; cbn; [lia | rewrite IH; lia]. Qed.

(* generalised loop invariant: when the loop returns [del] and [l = del ++ rest],
   either rest = [] or the stop condition held at the head of rest with the accumulated counters *)
Lemma loop_stop tds tdi dl l : forall sz n del rest,
  loop tds tdi dl l sz n = del -> l = del ++ rest ->
  rest = [] \/ exists h t, rest = h :: t /\
     stop_cond tds tdi dl (sz + total del) (n + Z.of_nat (length del)) h = true.
Proof.
  induction l as [|a l IH]; intros sz n del rest Hl Heq; cbn [loop] in Hl.
  - subst del. cbn in Heq. left. now subst.
  - destruct (stop_cond tds tdi dl sz n a) eqn:Hs.
    + subst del. cbn in Heq. right. exists a, l. split; [now subst|].
      cbn. replace (sz + 0) with sz by lia. replace (n + 0) with n by lia. exact Hs.
    + subst del. cbn in Heq. injection Heq as Heq.
      destruct (IH (sz + isize a) (n + 1) _ rest eq_refl Heq) as [-> | (h & t & -> & Hc)].
      * now left.
      * right. exists h, t. split; [reflexivity|].
        cbn [total length]. 
        replace (sz + (isize a + total (loop tds tdi dl l (sz + isize a) (n + 1))))
          with (sz + isize a + total (loop tds tdi dl l (sz + isize a) (n + 1))) by lia.
        replace (n + Z.of_nat (S (length (loop tds tdi dl l (sz + isize a) (n + 1)))))
          with (n + 1 + Z.of_nat (length (loop tds tdi dl l (sz + isize a) (n + 1)))) by lia.
        exact Hc.
Qed.

Theorem select_limits bl il dl l rest :
  (forall b, bl = Some b -> 0 <= b) -> (forall n, il = Some n -> 0 <= n) ->
  sorted l -> l = select bl il dl l ++ rest -> limits_ok bl il dl rest.
Proof.
  intros Hb Hn Hs Heq. unfold select in Heq.
  set (tds := match bl with None => 0 | Some b => total l - b end) in *.
  set (tdi := match il with None => 0 | Some n => Z.of_nat (length l) - n end) in *.
  destruct (loop_stop tds tdi dl l 0 0 _ rest eq_refl Heq) as [-> | (h & t & -> & Hc)].
  - repeat split.
    + destruct bl as [b|]; [cbn; apply Hb; reflexivity | exact I].
    + destruct il as [n|]; [cbn; apply Hn; reflexivity | exact I].
    + destruct dl; [constructor | exact I].
  - unfold stop_cond in Hc.
    apply andb_prop in Hc as [Hc Hd]. apply andb_prop in Hc as [Hc1 Hc2].
    assert (Ht : total l = total (loop tds tdi dl l 0 0) + total (h :: t)) by (rewrite Heq at 1; apply total_app).
    assert (Hl : Z.of_nat (length l) = Z.of_nat (length (loop tds tdi dl l 0 0)) + Z.of_nat (length (h :: t))).
    { rewrite Heq at 1. rewrite app_length. lia. }
    repeat split.
    + destruct bl as [b|]; [|exact I]. subst tds. lia.
    + destruct il as [n|]; [|exact I]. subst tdi. lia.
    + destruct dl as [d|]; [|exact I].
      apply Forall_forall. intros x Hx. apply In_nth_error in Hx as [k Hk].
      set (m := length (loop tds tdi (Some d) l 0 0)) in *.
      assert (H1 : nth_error l m = Some h).
      { rewrite Heq. rewrite nth_error_app2 by (unfold m; lia). replace (m - _)%nat with 0%nat by (unfold m; lia). reflexivity. }
      assert (H2 : nth_error l (m + k) = Some x).
      { rewrite Heq. rewrite nth_error_app2 by (unfold m; lia). replace (m + k - _)%nat with k by (unfold m; lia). exact Hk. }
      specialize (Hs m (m + k)%nat h x H1 H2 ltac:(lia)). lia.
Qed.
Print Assumptions select_limits.
