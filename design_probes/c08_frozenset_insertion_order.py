import sys
sys.path.insert(0,'/repo')
from joblib import hash as jh
a = frozenset([0,8]); b = frozenset([8,0])
print('fs insertion', list(a), list(b), jh(a)==jh(b))
A, B = frozenset({1}), frozenset({2,3})
s1 = set(); s1.add(A); s1.add(B)
s2 = set(); s2.add(B); s2.add(A)
print('set of fs', list(s1), list(s2), jh(s1)==jh(s2))
import itertools
# search small for set-of-frozenset order dependence
found=None
els=[frozenset(c) for r in (1,2) for c in itertools.combinations(range(9),r)]
for x,y in itertools.combinations(els,2):
    s1=set(); s1.add(x); s1.add(y); s2=set(); s2.add(y); s2.add(x)
    if jh(s1)!=jh(s2): found=(x,y); break
print('found set-of-frozenset order dependence:', found)
d1 = {A:1, B:2}; d2 = {B:2, A:1}
print('dict fs keys', jh(d1)==jh(d2))
