import sys, os, glob, tempfile, warnings
sys.path.insert(0,'/repo')
from joblib import Memory, expires_after
d = tempfile.mkdtemp()
mem = Memory(d, verbose=0)
def f(x): return x*2
cf = mem.cache(f, cache_validation_callback=expires_after(days=1))
print(cf(3))
md = glob.glob(d+'/joblib/**/metadata.json', recursive=True)
print(md)
os.unlink(md[0])   # crash between rename(output.pkl) and rename(metadata.json)
try:
    print('after crash-window:', cf(3))
except Exception as e:
    print('RAISED', type(e).__name__, e)
# torn func_code.py
fc = glob.glob(d+'/joblib/**/func_code.py', recursive=True)[0]
src = open(fc).read()
for cut in [0, 5, 13, 14, 15, 20, len(src)-3]:
    open(fc,'w').write(src[:cut])
    import joblib.memory as jm
    jm._FUNCTION_HASHES.clear()
    cf2 = Memory(d, verbose=0).cache(f)
    try:
        with warnings.catch_warnings():
            warnings.simplefilter('ignore')
            r = cf2(3)
        print('func_code cut', cut, '->', r)
    except Exception as e:
        print('func_code cut', cut, 'RAISED', type(e).__name__, e)
    open(fc,'w').write(src)
