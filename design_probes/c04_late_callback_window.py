import sys, threading, time, warnings, os
sys.path.insert(0,'/repo')
warnings.simplefilter('ignore')
src = open(os.path.join(os.path.dirname(os.path.abspath(__file__)), 'vb.py')).read().split("rnd = random.Random(0)")[0]
exec(src)
class VB2(VerifBackend):
    hook = None
    def configure(self, n_jobs=1, parallel=None, **kw):
        if self.hook: h, self.hook = self.hook, None; h()
        return super().configure(n_jobs, parallel, **kw)
def failing(i):
    if i == 0: raise ValueError('boom')
    return i
be = VB2(2, 1)
p = Parallel(n_jobs=2, backend=be, pre_dispatch=2, batch_size=1)
err = {}
def first():
    try: p(delayed(failing)(i) for i in range(10))
    except ValueError as e: err['e'] = e
t = threading.Thread(target=first); t.start()
while len(be.pending) < 2: time.sleep(0.001)
be.complete(0)          # task 0 fails -> call aborts, task 1 still "running" at the backend
t.join(); print('first call raised:', err.get('e'), '| still in flight:', len(be.pending))
late = be.pending.pop(0)
def fire_late():
    func, cb = late
    cb(func())          # late successful completion of the aborted call's batch
be.hook = fire_late     # delivered after _reset_run_tracking, before the new call id is set
res = []
def second():
    res.extend(p(delayed(ident)(i) for i in range(100, 104)))
t = threading.Thread(target=second, daemon=True); t.start()
t0 = time.time()
while t.is_alive() and time.time()-t0 < 5:
    if be.pending: be.complete(0)
    else: time.sleep(0.001)
print('second call ->', res, '(expected [100, 101, 102, 103])', 'HANG' if t.is_alive() else '')
