import sys, tempfile, warnings
sys.path.insert(0,'/repo')
from joblib import Memory
d = tempfile.mkdtemp()
mem = Memory(d, verbose=0)
def g(a=1, b=2, *, c): return (a,b,c)
cg = mem.cache(g)
print('g(5,c=0) ->', cg(5, c=0), ' plain', g(5,c=0))
print('g(5,1,c=0) ->', cg(5, 1, c=0), ' plain', g(5,1,c=0))
def h(a, /, b): return (a,b)
ch = mem.cache(h)
print('h(1,2) ->', ch(1,2)); print('h(1,3) ->', ch(1,3), 'plain', h(1,3))
print('h(9,1) ->', ch(9,1), 'plain', h(9,1))
