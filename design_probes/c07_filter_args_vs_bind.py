import sys
sys.path.insert(0,'/repo')
from joblib.func_inspect import filter_args
import inspect
def show(f, args, kwargs):
    try:
        r = filter_args(f, [], args, kwargs)
    except Exception as e:
        r = ('EXC', type(e).__name__, str(e)[:60])
    try:
        ba = inspect.signature(f).bind(*args, **kwargs); ba.apply_defaults(); py = dict(ba.arguments)
    except Exception as e:
        py = ('EXC', type(e).__name__)
    print(f.__name__, inspect.signature(f), args, kwargs, '\n   joblib:', r, '\n   python:', py)
def f1(a, /, b): pass
show(f1, (1,2), {})
def f2(a=1, b=2, *, c): pass
show(f2, (5,), {'c':0})
def f3(a, *args, b): pass
show(f3, (1,2,3), {'b':4})
def f4(a, *args, b=1): pass
show(f4, (1,2), {})
def f5(a, *, b=1, c): pass
show(f5, (0,), {'c':5})
def f6(a, b=3, **kw): pass
show(f6, (0,), {'z':5})
def f7(a, /, **kw): pass
show(f7, (0,), {'a':5})
