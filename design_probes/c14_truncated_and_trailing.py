import sys, io, signal
sys.path.insert(0,'/repo')
import joblib
def handler(*a): raise TimeoutError('HANG')
signal.signal(signal.SIGALRM, handler)
obj = {'a':[1,2,3], 'b':'x'*100}
for comp in [0, ('zlib',3), ('gzip',3), ('bz2',3), ('lzma',3), ('xz',3)]:
    b = io.BytesIO(); joblib.dump(obj, b, compress=comp); data = b.getvalue()
    for extra in [b'\x00', b'garbage!!', data]:
        signal.alarm(3)
        try:
            r = joblib.load(io.BytesIO(data+extra)); res = 'OK-equal' if r == obj else 'DIFFERENT %r' % (r,)
        except TimeoutError as e: res = 'HANG'
        except Exception as e: res = 'EXC %s' % type(e).__name__
        signal.alarm(0)
        print(comp, len(extra), res)
    # truncations
    outcomes = {}
    for n in range(len(data)):
        signal.alarm(3)
        try:
            r = joblib.load(io.BytesIO(data[:n])); res = 'OK-equal' if r == obj else 'DIFFERENT'
        except TimeoutError: res='HANG'
        except Exception as e: res = 'EXC %s' % type(e).__name__
        signal.alarm(0)
        outcomes[res] = outcomes.get(res,0)+1
    print(comp, 'trunc', outcomes)
