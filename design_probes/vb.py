import sys, threading, random, time
sys.path.insert(0,'/repo')
from joblib import Parallel, delayed
from joblib.parallel import ParallelBackendBase

class VerifBackend(ParallelBackendBase):
    supports_retrieve_callback = True
    uses_threads = True
    supports_sharedmem = True
    def __init__(self, n, bs=1, **kw):
        super().__init__(**kw); self.n=n; self.bs=bs; self.pending=[]; self.log=[]
    def effective_n_jobs(self, n_jobs): return self.n
    def configure(self, n_jobs=1, parallel=None, **kw):
        self.parallel=parallel; return self.n
    def compute_batch_size(self): return self.bs
    def submit(self, func, callback=None):
        self.pending.append((func, callback)); self.log.append(('submit', [a[0] for f,a,k in func.items]))
        return object()
    def retrieve_result_callback(self, out):
        if isinstance(out, BaseException): raise out
        return out
    def complete(self, i):
        func, cb = self.pending.pop(i)
        try: out = func()
        except BaseException as e: out = e
        self.log.append(('complete', [a[0] for f,a,k in func.items]))
        cb(out)

def ident(i): return i
class It:
    def __init__(self, n): self.n=n; self.i=0; self.busy=False; self.reentered=False
    def __iter__(self): return self
    def __next__(self):
        if self.busy: self.reentered=True
        self.busy=True
        try:
            if self.i>=self.n: raise StopIteration
            self.i+=1; return delayed(ident)(self.i-1)
        finally: self.busy=False

rnd = random.Random(0)
worst = 0
for trial in range(300):
    n_jobs=rnd.randint(2,4); bs=rnd.randint(1,3); pre=rnd.choice([1,2,3,'n_jobs','2*n_jobs','1.5*n_jobs'])
    N=rnd.randint(0,40)
    be = VerifBackend(n_jobs, bs)
    it = It(N)
    p = Parallel(n_jobs=n_jobs, backend=be, pre_dispatch=pre, batch_size=bs, return_as='generator')
    res=[]; done=threading.Event()
    def consume():
        g = p(it)
        for v in g: res.append(v)
        done.set()
    t=threading.Thread(target=consume, daemon=True); t.start()
    completed=0; maxgap=0; maxinflight=0
    t0=time.time()
    while not done.is_set() and time.time()-t0<10:
        if be.pending:
            maxinflight=max(maxinflight,len(be.pending))
            maxgap=max(maxgap, it.i-completed)
            k = rnd.randrange(len(be.pending))
            completed += len(be.pending[k][0].items)
            be.complete(k)
        else: time.sleep(0.001)
    from joblib._utils import eval_expr
    prea = pre if isinstance(pre,int) else int(eval_expr(pre.replace('n_jobs',str(n_jobs))))
    bound = prea*bs + n_jobs*bs
    ok = res==list(range(N)) and not it.reentered
    if not ok or maxgap>bound or maxinflight>max(prea,1):
        print('PROBLEM', n_jobs,bs,pre,N,res[:5],maxgap,bound,maxinflight,prea)
    worst=max(worst, maxgap-bound)
print('done; worst gap-bound', worst)
