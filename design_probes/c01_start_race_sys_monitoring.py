import sys, threading, time
sys.path.insert(0,'/repo')
from joblib import Parallel, delayed
import joblib.parallel as jp
code = jp.Parallel._start.__code__
mon = sys.monitoring
TOOL = 3
mon.use_tool_id(TOOL, 'verif')
state = {'hit': False, 'parallel': None}
def on_instr(c, off):
    if c is code and off == 78 and not state['hit']:
        state['hit'] = True
        p = state['parallel']
        t0 = time.time()
        while p._original_iterator is not None and time.time()-t0 < 3: time.sleep(0.01)
        print('window: original None?', p._original_iterator is None, 'iterating', p._iterating, flush=True)
mon.register_callback(TOOL, mon.events.INSTRUCTION, on_instr)
mon.set_local_events(TOOL, code, mon.events.INSTRUCTION)
def task(): return 42
def run():
    p = Parallel(n_jobs=2, backend='threading')
    state['parallel'] = p
    print('result', p(delayed(task)() for _ in range(1)))
t = threading.Thread(target=run, daemon=True); t.start(); t.join(8)
print('HANG' if t.is_alive() else 'finished')
