import os, sys, subprocess, tempfile
d = tempfile.mkdtemp()
r, w = os.pipe()
code = f"""
import sys; sys.path.insert(0,'/repo')
import joblib.externals.loky.backend.resource_tracker as rt
log = open({d!r}+'/log','a',buffering=1)
def mk(kind):
    def f(name): log.write(kind+' '+name+'\\n')
    return f
rt._CLEANUP_FUNCS = {{'file': mk('file'), 'folder': mk('folder'), 'semlock': mk('semlock')}}
rt.main({r})
"""
p = subprocess.Popen([sys.executable, '-c', code], pass_fds=[r], stderr=subprocess.PIPE)
os.close(r)
cmds = ["REGISTER:a:file","REGISTER:a:file","MAYBE_UNLINK:a:file","MAYBE_UNLINK:b:file","UNREGISTER:zz:file","BOGUS:a:file","REGISTER:x:weird","garbage","REGISTER:s1:file","MAYBE_UNLINK:s1:file","MAYBE_UNLINK:a:file","MAYBE_UNLINK:a:file","REGISTER:dir1:folder","REGISTER:c:file","REGISTER:c:file"]
for c in cmds: os.write(w, (c+'\n').encode())
os.close(w)
err = p.communicate(timeout=10)[1].decode()
print('exit', p.returncode); print(open(d+'/log').read()); print(err.count('Traceback'), 'tracebacks;', [l for l in err.splitlines() if 'Error' in l or 'leaked' in l][:8])
