import sys, os, shutil, tempfile, warnings, builtins
sys.path.insert(0,'/repo')
from joblib import Memory
import joblib._store_backends as sb
warnings.simplefilter('ignore')
d = tempfile.mkdtemp()
mem = Memory(d, verbose=0)
def f(x): return x*2
cf = mem.cache(f)
print(cf(1))
# simulate: concurrent Memory.clear() happening right before this process opens func_code.py for writing
import joblib.memory as jm
jm._FUNCTION_HASHES.clear()
orig_open = builtins.open
state={'n':0}
def patched(path, mode='r', *a, **k):
    if isinstance(path,str) and path.endswith('func_code.py') and 'w' in mode and state['n']==0:
        state['n']=1
        Memory(d, verbose=0).clear(warn=False)   # the "other process"
    return orig_open(path, mode, *a, **k)
# first make code differ so that _write_func_code is reached: wipe func_code.py content
fc = os.path.join(cf.store_backend.location, cf.func_id, 'func_code.py')
os.unlink(fc)
sb.FileSystemStoreBackend._open_item = staticmethod(patched)
try:
    print('call under concurrent clear ->', cf(1))
except Exception as e:
    print('RAISED', type(e).__name__, e)
