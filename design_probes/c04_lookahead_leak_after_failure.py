import sys
sys.path.insert(0,'/repo')
from joblib import Parallel, delayed
import time
def ok(i): return i
def bad(i, k):
    if i == k: raise ValueError('boom %d' % i)
    time.sleep(0.002)
    return i
leaks = 0
for backend in ['threading']:
  for k in range(0, 12):
   for bs in (1,2,3):
    p = Parallel(n_jobs=3, backend=backend, batch_size=bs, pre_dispatch=3)
    try:
        p(delayed(bad)(i, k) for i in range(40))
    except ValueError as e:
        pass
    qs = p._ready_batches.qsize()
    r = p(delayed(ok)(i) for i in range(100, 110))
    if r != list(range(100,110)):
        leaks += 1
        print('LEAK', backend, 'k=',k,'bs=',bs, 'qsize after fail', qs, '->', r)
print('leaks', leaks)
