import sys
sys.path.insert(0,'/repo')
from joblib import hash as jh
vals = {
 'fs_str': frozenset(['a','b','c','dd']),
 'set_mixed': {1,'a'},
 'dict_mixed': {1:'x','a':'y'},
 'set_str': {'a','b','c'},
 'fs_int': frozenset([1,2,3,1000]),
 'set_1': {1,'a'}, 'set_1f': {1.0,'a'}, 'set_T': {True,'a'},
 'd1': {1:'x','a':'y'}, 'd1f': {1.0:'x','a':'y'},
 'set_m1': {-1,'a'}, 'set_m2': {-2,'a'},
 'set_none': {None, 1}, 'tuple_in_set': {(1,2),(1,'a')},
}
for k,v in vals.items(): print(k, jh(v))
