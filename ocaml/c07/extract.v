(* Extraction of model M2 for the C07 correspondence driver.  ExtrOcamlBasic only:
   nat, positive, Z stay the extracted inductive types; no Extract Constant. *)
Require Extraction.
Require ExtrOcamlBasic.
Require Import JV.Base.PyPrelude JV.Model.FilterArgs JV.Model.FilterArgsEnc.
Extraction "fa_model.ml" wf_sigb wf_callb py_bind canon filter_args_model filter_args_opaque
  in_fragment sig_in_fragment run_case.
