#!/bin/sh
# usage: build.sh <outdir>   -- extracts Model/FilterArgs.v (must be compiled: coq/Model/FilterArgs.vo)
# and builds <outdir>/c07_driver.  Nothing is cached: the caller passes a fresh directory.
set -e
HERE="$(cd "$(dirname "$0")" && pwd)"
OUT="$1"
mkdir -p "$OUT"
cp "$HERE/extract.v" "$HERE/driver.ml" "$OUT/"
cd "$OUT"
timeout 300 coqc -Q "$HERE/../../coq" JV -w -all extract.v >/dev/null
timeout 300 ocamlfind ocamlopt -w -a -O2 fa_model.mli fa_model.ml driver.ml -o c07_driver 2>/dev/null \
  || timeout 300 ocamlfind ocamlopt -w -a fa_model.mli fa_model.ml driver.ml -o c07_driver
