(* C07 driver: one case per line on stdin (integers separated by blanks), one JSON line per case on stdout.
   line :=  M sk sn sv   N (kind name hasdefault default)*N   P value*P   K (name value)*K   I key*I
   M = 1: bound method, (sk, sn, sv) = kind code, name, value of `self`;  keys: n >= 0 name, -1 '*', -2 '**'.
   Trusted: only this parsing/printing; every decision is made by the extracted Coq functions. *)
open Fa_model

let rec pos_of_int n = if n = 1 then XH else if n land 1 = 0 then XO (pos_of_int (n lsr 1)) else XI (pos_of_int (n lsr 1))
let z_of_int n = if n = 0 then Z0 else if n > 0 then Zpos (pos_of_int n) else Zneg (pos_of_int (- n))
let rec int_of_pos = function XH -> 1 | XO p -> 2 * int_of_pos p | XI p -> 2 * int_of_pos p + 1
let int_of_z = function Z0 -> 0 | Zpos p -> int_of_pos p | Zneg p -> - (int_of_pos p)

let kind_of_int = function 0 -> PosOnly | 1 -> PosOrKw | 2 -> VarPos | 3 -> KwOnly | 4 -> VarKw | _ -> failwith "kind"
let key_of_int n = if n = -1 then KStar else if n = -2 then KStarStar else KName (z_of_int n)

let zs l = "[" ^ String.concat "," (List.map (fun z -> string_of_int (int_of_z z)) l) ^ "]"
let kvs l = "[" ^ String.concat "," (List.map (fun (k, v) -> Printf.sprintf "[%d,%d]" (int_of_z k) (int_of_z v)) l) ^ "]"
let av = function
  | VOne v -> Printf.sprintf "{\"o\":%d}" (int_of_z v)
  | VTuple l -> Printf.sprintf "{\"t\":%s}" (zs l)
  | VDict d -> Printf.sprintf "{\"d\":%s}" (kvs d)
let key = function KName n -> string_of_int (int_of_z n) | KStar -> "\"*\"" | KStarStar -> "\"**\""
let adict d = "[" ^ String.concat "," (List.map (fun (k, v) -> Printf.sprintf "[%s,%s]" (key k) (av v)) d) ^ "]"
let binding b = "[" ^ String.concat "," (List.map (fun (n, v) -> Printf.sprintf "[%d,%s]" (int_of_z n) (av v)) b) ^ "]"
let exn_name = function
  | ValueError -> "ValueError" | TypeError -> "TypeError" | KeyError -> "KeyError" | IndexError -> "IndexError"
  | _ -> "other"
let res = function Ok d -> Printf.sprintf "{\"ok\":%s}" (adict d) | Raise e -> Printf.sprintf "{\"raise\":\"%s\"}" (exn_name e)
let b2i b = if b then 1 else 0

let () =
  try
    while true do
      let line = input_line stdin in
      let toks = ref (List.map int_of_string (List.filter (fun s -> s <> "") (String.split_on_char ' ' (String.trim line)))) in
      let next () = match !toks with x :: t -> toks := t; x | [] -> failwith "short line" in
      let m = next () in let sk = next () in let sn = next () in let sv = next () in
      let n = next () in
      let s = List.init n (fun _ ->
        let k = next () in let nm = next () in let hd = next () in let d = next () in
        { pkind = kind_of_int k; pname = z_of_int nm; pdefault = (if hd = 1 then Some (z_of_int d) else None) }) in
      let p = next () in
      let pos = List.init p (fun _ -> z_of_int (next ())) in
      let k = next () in
      let kw = List.init k (fun _ -> let a = next () in let b = next () in (z_of_int a, z_of_int b)) in
      let i = next () in
      let ign = List.init i (fun _ -> key_of_int (next ())) in
      let c = { cpos = pos; ckw = kw } in
      let meth = if m = 1 then Some (z_of_int sn, z_of_int sv) else None in
      (* the callable as Python sees it: for a bound method, `self` is the first parameter and argument *)
      let full_s = if m = 1 then { pkind = kind_of_int sk; pname = z_of_int sn; pdefault = None } :: s else s in
      let full_c = if m = 1 then { cpos = z_of_int sv :: pos; ckw = kw } else c in
      let b = py_bind full_s full_c in
      Printf.printf "{\"enc\":%s,\"wf\":%d,\"wfc\":%d,\"frag\":%d,\"sigfrag\":%d,\"bind\":%s,\"canon\":%s,\"fa\":%s,\"opaque\":%s}\n"
        (zs (run_case full_s full_c s ign meth c))
        (b2i (wf_sigb full_s)) (b2i (wf_callb c)) (b2i (in_fragment s c)) (b2i (sig_in_fragment s))
        (match b with None -> "null" | Some b -> binding b)
        (match b with None -> "null" | Some b -> adict (canon full_s b))
        (res (filter_args_model s ign meth c))
        (adict (filter_args_opaque c))
    done
  with End_of_file -> ()
