(* Generic facts used by the refinement proof of filter_args (Proofs/FilterArgs.v):
   Python list indexing, the insertion-ordered dict, sorting vs filtering, the signature scan. *)
From Coq Require Import ZArith List Bool Lia ZifyBool Sorting.Permutation Sorting.Sorted.
Require Import JV.Base.PyPrelude JV.Base.SortBy JV.Model.FilterArgs.
Import ListNotations.
Open Scope Z_scope.

(* ------------------------------------------------------------------ lists *)
Lemma len_cons {A} (x : A) l : len (x :: l) = 1 + len l.
Proof. unfold len. cbn [length]. lia. Qed.
Lemma len_app {A} (a b : list A) : len (a ++ b) = len a + len b.
Proof. unfold len. rewrite app_length. lia. Qed.
Lemma len_nonneg {A} (l : list A) : 0 <= len l. Proof. unfold len. lia. Qed.
Lemma len_nil {A} : len (@nil A) = 0. Proof. reflexivity. Qed.

Lemma skipn_cons_nth {A} (l : list A) : forall i v rest,
  skipn i l = v :: rest -> nth_error l i = Some v /\ skipn (S i) l = rest /\ (i < length l)%nat.
Proof.
  induction l as [|x l IH]; intros i v rest H.
  - destruct i; discriminate.
  - destruct i as [|i].
    + cbn in H. injection H as -> ->. cbn. repeat split. lia.
    + cbn [skipn] in H. destruct (IH _ _ _ H) as (H1 & H2 & H3). cbn [nth_error length]. repeat split; try assumption. lia.
Qed.

Lemma skipn_nil_len {A} (l : list A) : forall i, skipn i l = [] -> (length l <= i)%nat.
Proof.
  induction l as [|x l IH]; intros i H; [cbn; lia|].
  destruct i; [discriminate|]. cbn [skipn] in H. apply IH in H. cbn [length]. lia.
Qed.

Lemma skipn_nil_more {A} (l : list A) i j : skipn i l = [] -> skipn (i + j) l = [].
Proof. intros H. apply skipn_all2. apply skipn_nil_len in H. lia. Qed.

Lemma skipn_length_pred {A} (l : list A) i : Nat.pred (length (skipn i l)) = length (skipn (S i) l).
Proof. rewrite !skipn_length. lia. Qed.

(* ------------------------------------------------------------------ Python indexing *)
Lemma py_index_nonneg {A} (l : list A) i v :
  nth_error l i = Some v -> py_index l (Z.of_nat i) = Ok v.
Proof.
  intros H. unfold py_index, len.
  assert (Hlt : (i < length l)%nat) by (apply nth_error_Some; congruence).
  destruct (Z.of_nat i <? 0) eqn:E1; [lia|].
  destruct ((Z.of_nat i <? 0) || (Z.of_nat (length l) <=? Z.of_nat i)) eqn:E2; [lia|].
  rewrite Nat2Z.id, H. reflexivity.
Qed.

(* counting from the end: the element that has exactly [B] behind it *)
Lemma py_index_from_end {A} (a : list A) x b : py_index (a ++ x :: b) (- (1 + len b)) = Ok x.
Proof.
  unfold py_index. rewrite len_app, len_cons.
  pose proof (len_nonneg a). pose proof (len_nonneg b).
  destruct (- (1 + len b) <? 0) eqn:E1; [|lia].
  replace (len a + (1 + len b) + - (1 + len b)) with (len a) by lia.
  destruct ((len a <? 0) || (len a + (1 + len b) <=? len a)) eqn:E2; [lia|].
  unfold len. rewrite Nat2Z.id. rewrite nth_error_app2 by lia. rewrite Nat.sub_diag. reflexivity.
Qed.

Lemma py_slice_from_nonneg {A} (l : list A) i : py_slice_from l (Z.of_nat i) = skipn i l.
Proof. unfold py_slice_from. destruct (Z.of_nat i <? 0) eqn:E; [lia|]. rewrite Nat2Z.id. reflexivity. Qed.

(* ------------------------------------------------------------------ names, keys *)
Lemma name_mem_In n l : name_mem n l = true <-> In n l.
Proof.
  unfold name_mem. rewrite existsb_exists. split.
  - intros (x & Hx & E). apply Z.eqb_eq in E. subst. exact Hx.
  - intros H. exists n. split; [exact H | apply Z.eqb_refl].
Qed.
Lemma name_mem_false n l : name_mem n l = false <-> ~ In n l.
Proof. rewrite <- name_mem_In. destruct (name_mem n l); split; congruence. Qed.

Lemma nodupb_NoDup l : nodupb l = true <-> NoDup l.
Proof.
  induction l as [|x l IH]; cbn [nodupb].
  - split; [constructor | reflexivity].
  - rewrite andb_true_iff, negb_true_iff, name_mem_false, IH. split.
    + intros [H1 H2]. constructor; assumption.
    + intros H. inversion H; subst. split; assumption.
Qed.

Lemma key_eqb_eq a b : key_eqb a b = true <-> a = b.
Proof.
  destruct a, b; cbn; try (split; [discriminate | congruence]); try tauto.
  rewrite Z.eqb_eq. split; congruence.
Qed.
Lemma key_eqb_refl a : key_eqb a a = true. Proof. apply key_eqb_eq. reflexivity. Qed.
Lemma key_eqb_neq a b : key_eqb a b = false <-> a <> b.
Proof. rewrite <- key_eqb_eq. destruct (key_eqb a b); split; congruence. Qed.

Lemma key_mem_In k l : key_mem k l = true <-> In k l.
Proof.
  unfold key_mem. rewrite existsb_exists. split.
  - intros (x & Hx & E). apply key_eqb_eq in E. subst. exact Hx.
  - intros H. exists k. split; [exact H | apply key_eqb_refl].
Qed.

(* ------------------------------------------------------------------ keyword lookup *)
Lemma kw_lookup_In n v kw : kw_lookup n kw = Some v -> In (n, v) kw.
Proof.
  induction kw as [|[k w] t IH]; cbn [kw_lookup]; [discriminate|].
  destruct (k =? n) eqn:E.
  - intros [= ->]. apply Z.eqb_eq in E. subst. left. reflexivity.
  - intros H. right. apply IH. exact H.
Qed.
Lemma kw_lookup_None n kw : kw_lookup n kw = None <-> ~ In n (map fst kw).
Proof.
  induction kw as [|[k w] t IH]; cbn [kw_lookup map fst]; [tauto|].
  destruct (k =? n) eqn:E.
  - apply Z.eqb_eq in E. subst. split; [discriminate | intros H; exfalso; apply H; left; reflexivity].
  - apply Z.eqb_neq in E. rewrite IH. cbn [In]. tauto.
Qed.
Lemma In_kw_lookup n v kw : NoDup (map fst kw) -> In (n, v) kw -> kw_lookup n kw = Some v.
Proof.
  induction kw as [|[k w] t IH]; cbn [kw_lookup map fst In]; [tauto|].
  intros Hnd Hin. inversion Hnd as [|? ? Hnot Hnd']; subst.
  destruct Hin as [E | Hin].
  - injection E as -> ->. rewrite Z.eqb_refl. reflexivity.
  - destruct (k =? n) eqn:E.
    + apply Z.eqb_eq in E. subst. exfalso. apply Hnot. change n with (fst (n, v)). apply in_map. exact Hin.
    + apply IH; assumption.
Qed.
Lemma kw_mem_false n kw : kw_mem n kw = false <-> kw_lookup n kw = None.
Proof. unfold kw_mem. destruct (kw_lookup n kw); split; congruence. Qed.

(* ------------------------------------------------------------------ the dict *)
Lemma dmem_In k d : dmem k d = true <-> In k (map fst d).
Proof.
  unfold dmem. induction d as [|[k' v] t IH]; cbn [dget map fst In]; [split; [discriminate | tauto]|].
  destruct (key_eqb k' k) eqn:E.
  - apply key_eqb_eq in E. subst. split; [intros _; left; reflexivity | reflexivity].
  - apply key_eqb_neq in E. rewrite IH. split; [intros H; right; exact H | intros [H | H]; [congruence | exact H]].
Qed.
Lemma dmem_false k d : dmem k d = false <-> ~ In k (map fst d).
Proof. rewrite <- dmem_In. destruct (dmem k d); split; congruence. Qed.

Lemma dset_fresh k v d : dmem k d = false -> dset k v d = d ++ [(k, v)].
Proof.
  unfold dmem. induction d as [|[k' v'] t IH]; cbn [dget dset app]; [reflexivity|].
  destruct (key_eqb k' k); [discriminate|]. intros H. rewrite IH by exact H. reflexivity.
Qed.
Lemma dset_same k v d : dget k d = Some v -> dset k v d = d.
Proof.
  induction d as [|[k' v'] t IH]; cbn [dget dset]; [discriminate|].
  destruct (key_eqb k' k); [intros [= ->]; reflexivity|]. intros H. rewrite IH by exact H. reflexivity.
Qed.
Lemma dset_keys k v d : dmem k d = true -> map fst (dset k v d) = map fst d.
Proof.
  unfold dmem. induction d as [|[k' v'] t IH]; cbn [dget dset map fst]; [discriminate|].
  destruct (key_eqb k' k); [reflexivity|]. intros H. cbn [map fst]. rewrite IH by exact H. reflexivity.
Qed.
Lemma NoDup_app_single {A} (l : list A) x : NoDup l -> ~ In x l -> NoDup (l ++ [x]).
Proof.
  induction l as [|y t IH]; cbn [app]; intros Hnd Hx.
  - constructor; [intros [] | constructor].
  - inversion Hnd as [|? ? Hy Hnd']; subst. constructor.
    + rewrite in_app_iff. intros [H | [H | []]]; [exact (Hy H) | subst; apply Hx; left; reflexivity].
    + apply IH; [exact Hnd' | intros H; apply Hx; right; exact H].
Qed.
Lemma dset_nodup k v d : NoDup (map fst d) -> NoDup (map fst (dset k v d)).
Proof.
  intros H. destruct (dmem k d) eqn:E.
  - rewrite dset_keys by exact E. exact H.
  - rewrite dset_fresh by exact E. rewrite map_app. cbn [map fst].
    apply NoDup_app_single; [exact H | apply dmem_false; exact E].
Qed.
Lemma dget_app_l k d d' : dmem k d = true -> dget k (d ++ d') = dget k d.
Proof.
  unfold dmem. induction d as [|[k' v'] t IH]; cbn [dget app]; [discriminate|].
  destruct (key_eqb k' k); [reflexivity | exact IH].
Qed.
Lemma dget_app_r k d d' : dmem k d = false -> dget k (d ++ d') = dget k d'.
Proof.
  unfold dmem. induction d as [|[k' v'] t IH]; cbn [dget app]; [reflexivity|].
  destruct (key_eqb k' k); [discriminate | exact IH].
Qed.
Lemma dget_In k v d : dget k d = Some v -> In (k, v) d.
Proof.
  induction d as [|[k' v'] t IH]; cbn [dget]; [discriminate|].
  destruct (key_eqb k' k) eqn:E.
  - apply key_eqb_eq in E. subst. intros [= ->]. left. reflexivity.
  - intros H. right. apply IH. exact H.
Qed.
Lemma In_dget k v d : NoDup (map fst d) -> In (k, v) d -> dget k d = Some v.
Proof.
  induction d as [|[k' v'] t IH]; cbn [dget map fst In]; [tauto|].
  intros Hnd Hin. inversion Hnd as [|? ? Hnot Hnd']; subst. destruct Hin as [E | Hin].
  - injection E as -> ->. rewrite key_eqb_refl. reflexivity.
  - destruct (key_eqb k' k) eqn:E.
    + apply key_eqb_eq in E. subst. exfalso. apply Hnot. change k with (fst (k, v)). apply in_map. exact Hin.
    + apply IH; assumption.
Qed.

Lemma filter_all_true {A} (f : A -> bool) l : (forall x, In x l -> f x = true) -> filter f l = l.
Proof.
  induction l as [|x t IH]; intros H; cbn [filter]; [reflexivity|].
  rewrite (H x (or_introl eq_refl)). rewrite IH; [reflexivity|]. intros y Hy. apply H. right. exact Hy.
Qed.
Lemma dpop_filter k d : NoDup (map fst d) ->
  dpop k d = filter (fun kv => negb (key_eqb (fst kv) k)) d.
Proof.
  induction d as [|[k' v'] t IH]; cbn [dpop filter map fst]; [reflexivity|]. intros Hnd.
  inversion Hnd as [|? ? Hnot Hnd']; subst. destruct (key_eqb k' k) eqn:E; cbn [negb].
  - apply key_eqb_eq in E. subst. symmetry. apply filter_all_true. intros [k2 v2] Hin. cbn [fst]. apply negb_true_iff, key_eqb_neq.
    intros ->. apply Hnot. change k with (fst (k, v2)). apply in_map. exact Hin.
  - rewrite IH by exact Hnd'. reflexivity.
Qed.

(* ------------------------------------------------------------------ sorting vs filtering *)
Section SortFilter.
Context {A : Type} (key : A -> Z) (f : A -> bool).

Lemma insert_by_front x l : Forall (fun a => key x < key a) l -> insert_by key x l = x :: l.
Proof.
  destruct l as [|y t]; cbn [insert_by]; [reflexivity|]. intros H. inversion H; subst.
  destruct (key x <? key y) eqn:E; [reflexivity | lia].
Qed.

Lemma filter_insert_keep x l : sorted_by key l -> f x = true ->
  filter f (insert_by key x l) = insert_by key x (filter f l).
Proof.
  unfold sorted_by. induction l as [|y t IH]; cbn [insert_by filter]; intros Hs Hx.
  - rewrite Hx. reflexivity.
  - inversion Hs as [|? ? Hs' Hall]; subst. destruct (key x <? key y) eqn:E.
    + cbn [filter]. rewrite Hx. destruct (f y) eqn:Ey.
      * cbn [insert_by]. rewrite E. reflexivity.
      * symmetry. apply insert_by_front. apply Forall_forall. intros a Ha.
        apply filter_In in Ha. destruct Ha as [Ha _]. rewrite Forall_forall in Hall.
        specialize (Hall a Ha). unfold le_key in Hall. lia.
    + cbn [filter]. destruct (f y) eqn:Ey.
      * cbn [insert_by]. rewrite E. rewrite IH by assumption. reflexivity.
      * apply IH; assumption.
Qed.

Lemma filter_insert_drop x l : f x = false -> filter f (insert_by key x l) = filter f l.
Proof.
  induction l as [|y t IH]; cbn [insert_by filter]; intros Hx.
  - rewrite Hx. reflexivity.
  - destruct (key x <? key y); cbn [filter]; [rewrite Hx; reflexivity|].
    rewrite IH by exact Hx. reflexivity.
Qed.

Lemma filter_sort_by_rev l : forall acc, sorted_by key acc ->
  filter f (sort_by_rev key l acc) = sort_by_rev key (filter f l) (filter f acc).
Proof.
  induction l as [|x t IH]; intros acc Ha; cbn [sort_by_rev filter]; [reflexivity|].
  rewrite IH by (apply insert_by_sorted; exact Ha). destruct (f x) eqn:Ex.
  - cbn [sort_by_rev]. rewrite filter_insert_keep by assumption. reflexivity.
  - rewrite filter_insert_drop by exact Ex. reflexivity.
Qed.

Lemma filter_sort_by l : filter f (sort_by key l) = sort_by key (filter f l).
Proof. unfold sort_by. rewrite filter_sort_by_rev by constructor. reflexivity. Qed.
End SortFilter.

Lemma filter_ext_in_eq {A} (f g : A -> bool) l : (forall x, In x l -> f x = g x) -> filter f l = filter g l.
Proof.
  induction l as [|x t IH]; intros H; cbn [filter]; [reflexivity|].
  rewrite (H x (or_introl eq_refl)). rewrite IH; [reflexivity|]. intros y Hy. apply H. right. exact Hy.
Qed.

(* ------------------------------------------------------------------ the signature scan *)
Definition dflt (p : param) : list value := match pdefault p with Some d => [d] | None => [] end.
Definition kwonly_names (s : sig) : list name := map pname (filter (fun p => kind_eqb (pkind p) KwOnly) s).
Definition is_some {A} (o : option A) : bool := match o with Some _ => true | None => false end.

Lemma scan_fold s : forall st,
  let r := fold_left scan_param s st in
  sc_names r = sc_names st ++ keywordable_names s
  /\ sc_defaults r = sc_defaults st ++ flat_map dflt s
  /\ sc_kwonly r = sc_kwonly st ++ kwonly_names s
  /\ is_some (sc_varargs r) = is_some (sc_varargs st) || has_kind VarPos s
  /\ is_some (sc_varkw r) = is_some (sc_varkw st) || has_kind VarKw s.
Proof.
  induction s as [|p s IH]; intros st; cbn [fold_left].
  - cbv zeta. unfold keywordable_names, kwonly_names, has_kind. cbn. rewrite !app_nil_r, !orb_false_r. repeat split.
  - cbv zeta in *. destruct (IH (scan_param st p)) as (H1 & H2 & H3 & H4 & H5).
    rewrite H1, H2, H3, H4, H5. clear IH H1 H2 H3 H4 H5.
    unfold scan_param, keywordable_names, kwonly_names, has_kind, dflt.
    destruct p as [k n d]. cbn [pkind pname pdefault filter map flat_map existsb].
    destruct k, d; cbn [is_keywordable kind_eqb kind_rank Nat.eqb sc_names sc_defaults sc_kwonly sc_varargs sc_varkw
                         filter map app is_some orb];
      rewrite <- ?app_assoc; cbn [app]; rewrite ?orb_true_r, ?orb_false_r; repeat split; reflexivity.
Qed.

Lemma scan_sig_spec s :
  sc_names (scan_sig s) = keywordable_names s
  /\ sc_defaults (scan_sig s) = flat_map dflt s
  /\ sc_kwonly (scan_sig s) = kwonly_names s
  /\ is_some (sc_varargs (scan_sig s)) = has_kind VarPos s
  /\ is_some (sc_varkw (scan_sig s)) = has_kind VarKw s.
Proof. unfold scan_sig. pose proof (scan_fold s (mkScan [] [] [] None None)) as H. cbv zeta in H. exact H. Qed.
