(* C08: concrete witnesses -- non-vacuity examples for the hypotheses of the theorems, the type
   discrimination facts that hold by computation, and the refutation witnesses of the two known
   findings F12 (subset is only a partial order) and F13 (digest masquerade). *)
From Coq Require Import ZArith List Bool Lia Sorting.Permutation.
Require Import JV.Base.C08_MD5 JV.Model.HashEnc JV.Proofs.HashEncDefs JV.Proofs.HashEncOrder JV.Proofs.HashEncKeys.
Import ListNotations.
Open Scope Z_scope.

(* ---------------------------------------------------------------- a non-trivial member of [good] *)
(* {'b': {3, 1, 2}, 'a': [frozenset({10, 7}), (1, 'x')]}  and the same value with every container
   iterated in another order *)
Definition ex_v : value :=
  VDict [ (VStr [98], VSet [VInt 3; VInt 1; VInt 2]);
          (VStr [97], VList [VFrozenSet [VInt 10; VInt 7]; VTuple [VInt 1; VStr [120]]]) ].
Definition ex_v' : value :=
  VDict [ (VStr [97], VList [VFrozenSet [VInt 7; VInt 10]; VTuple [VInt 1; VStr [120]]]);
          (VStr [98], VSet [VInt 1; VInt 2; VInt 3]) ].

Ltac nodup := repeat (constructor; [cbn; intuition discriminate|]); constructor.

Lemma ex_v_good : good ex_v.
Proof.
  unfold ex_v. rewrite good_VDict. split.
  - apply (strs_keys_ok [[98]; [97]]). nodup.
  - constructor; [cbn [snd]; apply (ints_keys_ok [3; 1; 2]); nodup|].
    constructor; [|constructor]. cbn [snd]. rewrite good_VList.
    constructor; [apply (ints_keys_ok [10; 7]); nodup|].
    constructor; [|constructor]. cbn. tauto.
Qed.

Lemma ex_v_veq : veq ex_v ex_v'.
Proof.
  unfold ex_v, ex_v'.
  eapply veq_trans; [apply veq_dict_perm; apply perm_swap|].
  apply veq_dict_vals. apply Forall2_cons; [|apply Forall2_cons; [|apply Forall2_nil]]; cbn [fst snd]; (split; [reflexivity|]).
  - apply veq_list. apply Forall2_cons; [apply veq_fset_perm; apply perm_swap|].
    apply Forall2_cons; [apply veq_refl|apply Forall2_nil].
  - apply veq_set_perm.
    apply Permutation_trans with [VInt 1; VInt 3; VInt 2]; [apply perm_swap|apply perm_skip, perm_swap].
Qed.

Lemma ex_v_neq : ex_v <> ex_v'.
Proof. discriminate. Qed.

Lemma ex_v_stream : forall md5, enc_top md5 ex_v = enc_top md5 ex_v' /\ enc_top md5 ex_v <> None.
Proof. intros md5. vm_compute. split; [reflexivity|discriminate]. Qed.

(* ---------------------------------------------------------------- type discrimination by computation *)
Definition float_one : Z := 4607182418800017408.   (* 1.0 *)

Lemma types_1_1f_true : forall md5,
  enc_top md5 (VInt 1) <> enc_top md5 (VFloat float_one) /\
  enc_top md5 (VInt 1) <> enc_top md5 (VBool true) /\
  enc_top md5 (VFloat float_one) <> enc_top md5 (VBool true) /\
  enc_top md5 (VInt 0) <> enc_top md5 (VFloat 0) /\
  enc_top md5 (VInt 0) <> enc_top md5 (VBool false) /\
  enc_top md5 (VFloat 0) <> enc_top md5 (VFloat 9223372036854775808) /\
  enc_top md5 (VInt 0) <> enc_top md5 VNone.
Proof. intros md5. vm_compute. repeat split; discriminate. Qed.

Lemma types_str_bytes : forall md5 s, enc_top md5 (VStr s) <> enc_top md5 (VBytes s).
Proof.
  intros md5 s. unfold enc_top, enc_top_ops. cbn [enc enc_str]. unfold enc_bytes.
  destruct (zlen s <=? 255); cbn; discriminate.
Qed.

Lemma types_empties : forall md5,
  let e := enc_top md5 in
  e (VStr []) <> e (VBytes []) /\ e (VBytes []) <> e (VTuple []) /\ e (VTuple []) <> e (VList []) /\
  e (VList []) <> e (VDict []) /\ e (VDict []) <> e (VSet []) /\ e (VSet []) <> e (VFrozenSet []) /\
  e (VStr []) <> e (VTuple []) /\ e (VStr []) <> e VNone.
Proof. intros md5. vm_compute. repeat split; discriminate. Qed.

Lemma types_set_frozenset : forall md5 l s,
  enc_top md5 (VSet l) = Some s -> enc_top md5 (VFrozenSet l) <> Some s.
Proof.
  intros md5 l s. unfold enc_top, enc_top_ops. rewrite enc_VSet, enc_VFrozenSet. unfold enc_set.
  destruct (set_order md5 (map (mk_selem md5) l)) as [order|]; [|discriminate].
  cbn [save_class memo0 mset mfset mnext memoize].
  destruct (enc_list order _) as [[lops m4]|]; [|discriminate].
  destruct (enc_list order _) as [[lops' m4']|]; [|discriminate].
  cbn. intros H1 H2. rewrite <- H2 in H1. discriminate H1.
Qed.

(* ---------------------------------------------------------------- F12: subset is a partial order *)
(* {frozenset({0}), frozenset({1, 2})} iterated in the two possible orders *)
Definition f12_l : list value := [VFrozenSet [VInt 0]; VFrozenSet [VInt 1; VInt 2]].
Definition f12_l' : list value := [VFrozenSet [VInt 1; VInt 2]; VFrozenSet [VInt 0]].

Lemma f12_witness : Permutation f12_l f12_l' /\
  (forall md5, enc_top md5 (VSet f12_l) <> enc_top md5 (VSet f12_l')) /\
  (forall md5, enc_top md5 (VFrozenSet f12_l) <> enc_top md5 (VFrozenSet f12_l')) /\
  (forall md5, enc_top md5 (VDict (map (fun k => (k, VNone)) f12_l)) <>
               enc_top md5 (VDict (map (fun k => (k, VNone)) f12_l'))) /\
  (* no exception either: sorted() silently accepts the partial order *)
  (forall md5, enc_top md5 (VSet f12_l) <> None).
Proof.
  split; [apply perm_swap|]. repeat split; intros md5; vm_compute; discriminate.
Qed.

Lemma f12_not_ordered : ~ key_order_ok f12_l.
Proof.
  intros (_ & _ & _ & _ & _ & Htot).
  destruct (Htot (VFrozenSet [VInt 0]) (VFrozenSet [VInt 1; VInt 2])) as [H|H];
    try (cbn; auto; fail); try discriminate; vm_compute in H; discriminate.
Qed.

(* ---------------------------------------------------------------- F13: digest masquerade *)
(* {1: 'x', 'a': 'y'} takes the mixed-kind fallback: its keys are replaced by their md5 hex digests;
   the dict whose keys ARE those two digest strings writes the same stream *)
Definition f13_a : value := VDict [(VInt 1, VStr [120]); (VStr [97], VStr [121])].
Definition f13_key (k : value) : value :=
  match hash_md5 md5_hex k with Some d => VStr d | None => VNone end.
Definition f13_b : value := VDict [(f13_key (VInt 1), VStr [120]); (f13_key (VStr [97]), VStr [121])].

Lemma f13_witness : f13_a <> f13_b /\ enc_top md5_hex f13_a = enc_top md5_hex f13_b /\ enc_top md5_hex f13_a <> None
  /\ good f13_b /\ enc_top md5_hex (VSet [VInt 1; VStr [97]]) = enc_top md5_hex (VSet [f13_key (VInt 1); f13_key (VStr [97])]).
Proof.
  split; [vm_compute; discriminate|]. split; [vm_compute; reflexivity|]. split; [vm_compute; discriminate|].
  split; [|vm_compute; reflexivity].
  unfold f13_b. rewrite good_VDict. split; [|repeat constructor].
  cbn [map fst]. unfold f13_key. 
  set (d1 := hash_md5 md5_hex (VInt 1)). set (d2 := hash_md5 md5_hex (VStr [97])).
  vm_compute in d1, d2. subst d1 d2. cbv iota beta.
  match goal with |- keys_ok [VStr ?a; VStr ?b] => apply (strs_keys_ok [a; b]) end.
  constructor; [cbn; intros [H|[]]; discriminate H|]. constructor; [intros []|constructor].
Qed.
