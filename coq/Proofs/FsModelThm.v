(* M5, part 5: the two instances of the invariant (complete finals for any mix of versions;
   fresh finals for one version) and the lemmas the property theorems are read off. *)
From Coq Require Import ZArith List Bool Lia.
Require Import JV.Base.PyPrelude JV.Model.FsModel JV.Proofs.FsModelBase JV.Proofs.FsModelRG
               JV.Proofs.FsModelWf JV.Proofs.FsModelSeq.
Import ListNotations.
Open Scope Z_scope.

Definition spec := (Z * Z * option bool * list action)%type.   (* version, writer id, callback, actions *)
Definition spec_ver (sp : spec) : Z := fst (fst (fst sp)).
Definition spec_tid (sp : spec) : Z := snd (fst (fst sp)).
Definition spec_cb (sp : spec) : option bool := snd (fst sp).
Definition spec_acts (sp : spec) : list action := snd sp.

Section Thm.
Variable pickle : Z -> bytes.
Variable unpickle : bytes -> option Z.
Variable meta : bytes.
Variable parse_meta : bytes -> bool.
Variable code : Z -> bytes.
Variable code_eq : bytes -> Z -> bool.
Variable decodes : bytes -> bool.
Variable gitbytes : bytes.
Variable f : Z -> Z -> Z.

Notation session := (session pickle unpickle meta parse_meta code code_eq decodes gitbytes f).
Definition sess (sp : spec) : prog (list outcome) :=
  session (spec_ver sp) (spec_tid sp) (spec_cb sp) (spec_acts sp).

Definition XT : fs -> Prop := fun _ => True.
Definition xT : fsop -> Prop := fun _ => True.
Definition anyb : bytes -> Prop := fun _ => True.

(* ---------------------------------------------------------------- instance A *)
(* every final-named file is complete, whatever version wrote it *)
Definition outA (k : Z) (b : bytes) : Prop := exists v, b = pickle v.
Definition metaA (b : bytes) : Prop := b = meta.
Definition InvA : fs -> Prop := Inv outA metaA anyb.

Lemma wf_session_A : forall sp,
  wf outA metaA anyb anyb XT xT _ (spec_tid sp)
     (sessok unpickle f (spec_ver sp) outA (spec_acts sp)) (sess sp).
Proof.
  intros sp. unfold sess. apply wf_session; unfold outA, metaA, anyb, xT; eauto.
Qed.

Lemma J_A : forall s, InvA s -> J outA metaA anyb XT s.
Proof. intros s H; split; [exact H | exact I]. Qed.

Lemma crash_A : forall sp n torn s, InvA s -> InvA (crash_run (sess sp) n torn s).
Proof.
  intros sp n torn s H.
  eapply (pst_crash outA metaA anyb anyb XT xT); try (apply J_A; exact H);
    try (apply pst_wf; apply wf_session_A); unfold anyb, XT, xT; auto.
Qed.

Lemma nth_error_map_inv : forall X Y (g : X -> Y) l i y,
  nth_error (map g l) i = Some y -> exists x, nth_error l i = Some x /\ y = g x.
Proof.
  intros X Y g l i y H. rewrite nth_error_map in H.
  destruct (nth_error l i) as [x|]; simpl in H; inversion H; eauto.
Qed.

Lemma global_A : forall (sps : list spec) evs s,
  NoDup (map spec_tid sps) -> InvA s ->
  GInv outA metaA anyb anyb XT xT _ (map spec_tid sps)
       (map (fun sp => sessok unpickle f (spec_ver sp) outA (spec_acts sp)) sps)
       (grun evs (s, map (fun sp => Some (sess sp)) sps)).
Proof.
  intros sps evs s Hnd H.
  apply ginv_run; unfold anyb, XT, xT; auto.
  replace (map (fun sp => Some (sess sp)) sps) with (map Some (map sess sps)) by (rewrite map_map; reflexivity).
  apply ginv_init; try (rewrite !map_length; reflexivity).
  - apply J_A; exact H.
  - intros i t Q p Ht HQ Hp.
    apply nth_error_map_inv in Ht, HQ, Hp.
    destruct Ht as (x1 & E1 & ->), HQ as (x2 & E2 & ->), Hp as (x3 & E3 & ->).
    rewrite E1 in E2, E3; inversion E2; inversion E3; subst. apply wf_session_A.
Qed.

(* ---------------------------------------------------------------- instance B *)
(* every final output.pkl of entry k holds the pickle of the CURRENT function's value for k *)
Variable cur : Z.
Definition outB (k : Z) (b : bytes) : Prop := b = pickle (f cur k).
Definition codeB (b : bytes) : Prop := exists j, b = firstn j (code cur).
Definition InvB : fs -> Prop := Inv outB metaA codeB.

Lemma codeB_nil : codeB [].
Proof. exists O; reflexivity. Qed.

Lemma codeB_overlay : forall b old, codeB b -> codeB old -> codeB (overlay b old).
Proof. intros b old [j ->] [i ->]. rewrite overlay_firstn. eexists; reflexivity. Qed.

Lemma codeB_firstn : forall b j, codeB b -> codeB (firstn j b).
Proof. intros b j [i ->]. rewrite firstn_firstn. eexists; reflexivity. Qed.

Lemma codeB_cur : codeB (code cur).
Proof. exists (length (code cur)). rewrite firstn_all; reflexivity. Qed.

Definition same_version (sp : spec) : Prop := spec_ver sp = cur.

Lemma wf_session_B : forall sp, same_version sp ->
  wf outB metaA codeB codeB XT xT _ (spec_tid sp)
     (sessok unpickle f cur outB (spec_acts sp)) (sess sp).
Proof.
  intros sp Hv. unfold sess. rewrite Hv.
  apply wf_session; unfold outB, metaA, xT; auto. apply codeB_cur.
Qed.

Lemma J_B : forall s, InvB s -> J outB metaA codeB XT s.
Proof. intros s H; split; [exact H | exact I]. Qed.

Lemma crash_B : forall sp n torn s, same_version sp -> InvB s -> InvB (crash_run (sess sp) n torn s).
Proof.
  intros sp n torn s Hv H.
  eapply (pst_crash outB metaA codeB codeB XT xT);
    try (apply J_B; exact H); try (apply pst_wf; apply wf_session_B; exact Hv);
    try apply codeB_nil; try apply codeB_overlay; try apply codeB_firstn; unfold XT, xT; auto.
Qed.

Lemma global_B : forall (sps : list spec) evs s,
  NoDup (map spec_tid sps) -> Forall same_version sps -> InvB s ->
  GInv outB metaA codeB codeB XT xT _ (map spec_tid sps)
       (map (fun sp => sessok unpickle f cur outB (spec_acts sp)) sps)
       (grun evs (s, map (fun sp => Some (sess sp)) sps)).
Proof.
  intros sps evs s Hnd Hv H.
  apply ginv_run; try apply codeB_nil; try apply codeB_overlay; try apply codeB_firstn; unfold XT, xT; auto.
  replace (map (fun sp => Some (sess sp)) sps) with (map Some (map sess sps)) by (rewrite map_map; reflexivity).
  apply ginv_init; try (rewrite !map_length; reflexivity).
  - apply J_B; exact H.
  - intros i t Q p Ht HQ Hp.
    apply nth_error_map_inv in Ht, HQ, Hp.
    destruct Ht as (x1 & E1 & ->), HQ as (x2 & E2 & ->), Hp as (x3 & E3 & ->).
    rewrite E1 in E2, E3; inversion E2; inversion E3; subst. apply wf_session_B.
    rewrite Forall_forall in Hv. apply Hv. eapply nth_error_In; eauto.
Qed.

Hypothesis unpickle_pickle : forall v, unpickle (pickle v) = Some v.

Lemma valok_B : forall k v, valok unpickle f cur outB k v -> v = f cur k.
Proof.
  intros k v [->|(b & Hb & Hu)]; auto. unfold outB in Hb; subst b.
  rewrite unpickle_pickle in Hu; inversion Hu; reflexivity.
Qed.

(* what a finished session of the current version reports for its calls *)
Definition call_ok (a : action) (o : outcome) : Prop :=
  match a with
  | ACall k | AShelve k => match o with OVal v _ => v = f cur k | _ => True end
  | _ => True
  end.

Lemma sessok_B : forall acts outs, sessok unpickle f cur outB acts outs ->
  (exists e, outs = [OExn e]) \/ Forall2 call_ok acts outs.
Proof.
  intros acts outs [H|H]; auto. right.
  induction H as [|a o acts outs Ha _ IH]; constructor; auto.
  destruct a; simpl in *; auto; destruct o; simpl in *; auto; apply valok_B; auto.
Qed.

(* -------------------------------------------------- sequential recovery (C05) *)
Hypothesis decodes_prefix : forall j, decodes (firstn j (code cur)) = true.

Lemma CodeDec_B : forall s, InvB s -> CodeDec decodes s.
Proof. intros s (_ & _ & _ & HC) b Hb. destruct (HC b Hb) as [j ->]. apply decodes_prefix. Qed.

Lemma run_B : forall A t Q (p : prog A) s, InvB s ->
  wf outB metaA codeB codeB XT xT A t Q p -> InvB (snd (run p s)) /\ Q (fst (run p s)).
Proof.
  intros A t Q p s H Hwf.
  destruct (pst_run outB metaA codeB codeB XT xT) with (A := A) (t := t) (Q := Q) (p := p) (s := s)
    as [[HI _] HQ]; auto;
    try apply codeB_nil; try apply codeB_overlay; unfold XT, xT; auto.
  - apply J_B; exact H.
  - apply pst_wf; exact Hwf.
Qed.

Lemma run_calls_B : forall t cb ks it s, InvB s ->
  Forall2 (fun k o => exists c, o = OVal (f cur k) c) ks
    (fst (run (run_actions pickle unpickle meta parse_meta code code_eq decodes f cur t cb (map ACall ks) it) s)) /\
  InvB (snd (run (run_actions pickle unpickle meta parse_meta code code_eq decodes f cur t cb (map ACall ks) it) s)).
Proof.
  intros t cb ks; induction ks as [|k tl IH]; intros it s H; cbn [map run_actions].
  - cbn [run fst snd]. split; [constructor | exact H].
  - rewrite run_pbind.
    assert (Hwf : wf outB metaA codeB codeB XT xT _ t
              (fun oi => okout unpickle f cur outB k (fst oi))
              (cached_call pickle unpickle meta parse_meta code code_eq decodes f cur t cb false k it)).
    { apply wf_cached_call; unfold outB, metaA, xT; auto. apply codeB_cur. }
    pose proof (run_B _ t _ _ s H Hwf) as [HI Hok].
    destruct (cached_call_seq pickle unpickle meta parse_meta code code_eq decodes f cur t cb k it s (CodeDec_B s H))
      as (v & c & Hv).
    destruct (run (cached_call pickle unpickle meta parse_meta code code_eq decodes f cur t cb false k it) s)
      as [[o it'] s1]; cbn [fst snd] in *. subst o.
    simpl in Hok. apply valok_B in Hok. subst v.
    rewrite run_pbind. destruct (IH it' s1 HI) as [HF HI2].
    destruct (run (run_actions pickle unpickle meta parse_meta code code_eq decodes f cur t cb (map ACall tl) it') s1)
      as [os s2]; cbn [run fst snd] in *.
    split; [constructor; eauto | exact HI2].
Qed.

Lemma recover_B : forall t cb ks s, InvB s ->
  Forall2 (fun k o => exists c, o = OVal (f cur k) c) ks (fst (run (session cur t cb (map ACall ks)) s)) /\
  InvB (snd (run (session cur t cb (map ACall ks)) s)).
Proof.
  intros t cb ks s H. unfold FsModel.session. rewrite run_pbind.
  pose proof (memory_init_seq gitbytes s (proj1 H)) as Hr1.
  assert (Hwf1 : wf outB metaA codeB codeB XT xT _ t (fun _ => True) (memory_init gitbytes)).
  { apply wf_memory_init; unfold xT; auto. }
  pose proof (run_B _ t _ _ s H Hwf1) as [HI1 _].
  destruct (run (memory_init gitbytes) s) as [r1 s1]; cbn [fst snd] in *. subst r1.
  rewrite run_pbind.
  pose proof (store_code_seq None s1) as Hr2.
  assert (Hwf2 : wf outB metaA codeB codeB XT xT _ t (fun _ => True) (store_code None)).
  { apply wf_store_code; unfold xT; auto. }
  pose proof (run_B _ t _ _ s1 HI1 Hwf2) as [HI2 _].
  unfold cache_init.
  destruct (run (store_code None) s1) as [r2 s2]; cbn [fst snd] in *. subst r2.
  apply run_calls_B; exact HI2.
Qed.

End Thm.
