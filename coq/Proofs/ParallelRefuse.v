(* M1 proofs, part 11: the backend refuses a batch at one of the caller's dispatches (backend.submit raises inside
   _start: a broken executor, a pool that is shutting down).  The event ERefuse is part of `reach`, so every theorem
   stated for reachable states (results, no leftovers, bounds, progress) also covers histories with refusals; the
   statements below say what the refusal itself does. *)
From Coq Require Import List Bool Arith Lia PeanoNat.
Require Import JV.Model.ParallelCore JV.Proofs.ParallelLemmas JV.Proofs.ParallelInv1.
Import ListNotations.

(* the refusal surfaces in the caller as the backend's exception, and the object is idle again *)
Theorem refused_dispatch_is_raised g s b : (phase s = StartFirst \/ phase s = StartLoop) ->
  snd (dispatch_one_batch s b false) = true -> aborting (fst (dispatch_one_batch s b false)) = false ->
  snd (step g s (ERefuse b)) = [Raised ErrBackend] /\
  running (fst (step g s (ERefuse b))) = false /\ phase (fst (step g s (ERefuse b))) = Finished /\
  jobs (fst (step g s (ERefuse b))) = [] /\ jset (fst (step g s (ERefuse b))) = [] /\
  pend_out (fst (step g s (ERefuse b))) = [] /\ want (fst (step g s (ERefuse b))) = false /\
  aborting (fst (step g s (ERefuse b))) = true /\ exception (fst (step g s (ERefuse b))) = true.
Proof.
  intros Hph Hr Hab. unfold step. cbn [step_raw].
  destruct (dispatch_one_batch s b false) as [s1 r]. cbn [fst snd] in Hr, Hab. subst r.
  destruct Hph as [-> | ->]; rewrite Hab; cbn; rewrite ?orb_true_r; repeat split; reflexivity.
Qed.

(* ... so the next call on the same object is accepted and starts from the state a fresh call starts from *)
Theorem call_after_refusal_is_accepted g s b cf n f : (phase s = StartFirst \/ phase s = StartLoop) ->
  snd (dispatch_one_batch s b false) = true -> aborting (fst (dispatch_one_batch s b false)) = false ->
  let s' := fst (step g s (ERefuse b)) in
  fst (step_raw g s' (ECall cf n f)) = do_call s' cf n f.
Proof.
  intros Hph Hr Hab s'.
  destruct (refused_dispatch_is_raised g s b Hph Hr Hab) as (_ & Hrun & Hp & _).
  cbn [step_raw]. fold s' in Hrun, Hp. rewrite Hrun, Hp. reflexivity.
Qed.

(* when nothing is handed to the backend the event is an ordinary dispatch *)
Theorem refusal_without_submit_is_a_dispatch g s b :
  (snd (dispatch_one_batch s b false) = false \/ aborting (fst (dispatch_one_batch s b false)) = true) ->
  step g s (ERefuse b) = step g s (EDispatch b).
Proof.
  intros H. unfold step. cbn [step_raw].
  destruct (phase s); try reflexivity; destruct (dispatch_one_batch s b false) as [s1 r]; cbn [fst snd] in H;
    destruct H as [-> | ->]; cbn [andb negb]; rewrite ?andb_false_r; reflexivity.
Qed.

(* non-vacuity: a call whose second batch is refused, then a clean call on the same object *)
Definition refuse_demo : list ev :=
  [ECall {| n_jobs := 2; pre := PreN 4; mode := Ordered |} 5 None; EDispatch 1; ERefuse 1;
   ECall {| n_jobs := 2; pre := PreN 4; mode := Ordered |} 2 None; EDispatch 1; EDispatch 1; EDispatch 1;
   ECbStart 2 None; ECbFinish 2 1; ECbStart 3 None; ECbFinish 3 1; EPull; EPull; EPull].
Example refuse_demo_run :
  snd (run_events true init refuse_demo) =
  [[]; []; [Raised ErrBackend]; []; []; []; []; []; []; []; []; [Val 0]; [Val 1]; [Stop]].
Proof. vm_compute. reflexivity. Qed.
