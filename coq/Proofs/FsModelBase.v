(* M5, part 1: the finite map, the state invariant, and its preservation by single operations. *)
From Coq Require Import ZArith List Bool Lia.
Require Import JV.Base.PyPrelude JV.Model.FsModel.
Import ListNotations.
Open Scope Z_scope.

Lemma path_eqb_eq : forall a b, path_eqb a b = true <-> a = b.
Proof.
  intros a b; split.
  - destruct a, b; simpl; intros H; try discriminate; try reflexivity;
      try (apply Z.eqb_eq in H; subst; reflexivity);
      apply andb_true_iff in H; destruct H as [H1 H2]; apply Z.eqb_eq in H1, H2; subst; reflexivity.
  - intros ->. destruct b; simpl; rewrite ?Z.eqb_refl; reflexivity.
Qed.

Lemma path_eqb_refl : forall a, path_eqb a a = true.
Proof. intros; apply path_eqb_eq; reflexivity. Qed.

Lemma path_eqb_neq : forall a b, path_eqb a b = false <-> a <> b.
Proof.
  intros a b; split.
  - intros H E; subst; rewrite path_eqb_refl in H; discriminate.
  - intros H; destruct (path_eqb a b) eqn:E; auto. apply path_eqb_eq in E; contradiction.
Qed.

Lemma path_eqb_sym : forall a b, path_eqb a b = path_eqb b a.
Proof.
  intros a b. destruct (path_eqb a b) eqn:E.
  - apply path_eqb_eq in E; subst; symmetry; apply path_eqb_refl.
  - symmetry; apply path_eqb_neq; apply path_eqb_neq in E; congruence.
Qed.

Lemma lookup_set : forall p q b s,
  lookup p (set q b s) = if path_eqb p q then Some b else lookup p s.
Proof.
  intros p q b s; induction s as [|[r c] tl IH]; simpl.
  - destruct (path_eqb p q); reflexivity.
  - destruct (path_eqb q r) eqn:E; simpl.
    + apply path_eqb_eq in E; subst r. destruct (path_eqb p q); reflexivity.
    + rewrite IH. destruct (path_eqb p q) eqn:E2; destruct (path_eqb p r) eqn:E3; try reflexivity.
      apply path_eqb_eq in E2, E3; subst. rewrite path_eqb_refl in E; discriminate.
Qed.

Lemma lookup_remove : forall p q s,
  lookup p (remove q s) = if path_eqb p q then None else lookup p s.
Proof.
  intros p q s; induction s as [|[r c] tl IH]; simpl.
  - destruct (path_eqb p q); reflexivity.
  - destruct (path_eqb q r) eqn:E; simpl.
    + rewrite IH. apply path_eqb_eq in E; subst r. destruct (path_eqb p q); reflexivity.
    + rewrite IH. destruct (path_eqb p q) eqn:E2; destruct (path_eqb p r) eqn:E3; try reflexivity.
      apply path_eqb_eq in E2, E3; subst. rewrite path_eqb_refl in E; discriminate.
Qed.

Lemma present_set : forall p q b s, present p (set q b s) = path_eqb p q || present p s.
Proof. intros; unfold present; rewrite lookup_set; destruct (path_eqb p q); reflexivity. Qed.

Lemma present_remove : forall p q s, present p (remove q s) = negb (path_eqb p q) && present p s.
Proof. intros; unfold present; rewrite lookup_remove; destruct (path_eqb p q); reflexivity. Qed.

Lemma present_lookup : forall p s, present p s = true <-> exists b, lookup p s = Some b.
Proof.
  intros; unfold present; destruct (lookup p s); split; intros H; eauto; try discriminate.
  destruct H; discriminate.
Qed.

Lemma present_false : forall p s, present p s = false <-> lookup p s = None.
Proof. intros; unfold present; destruct (lookup p s); split; congruence. Qed.

Lemma in_children : forall p q s, In q (children p s) <-> (present q s = true /\ parent q = Some p).
Proof.
  intros p q s; unfold children; rewrite filter_In; unfold is_child. split.
  - intros [Hin Hc]. split.
    + apply present_lookup. clear Hc. induction s as [|[r c] tl IH]; simpl in *; [contradiction|].
      destruct Hin as [->|Hin]; [rewrite path_eqb_refl; eauto|].
      destruct (path_eqb q r); eauto.
    + destruct (parent q) as [h|]; [|discriminate]. apply path_eqb_eq in Hc; subst; reflexivity.
  - intros [Hp Hq]. split.
    + apply present_lookup in Hp; destruct Hp as [b Hb].
      induction s as [|[r c] tl IH]; simpl in *; [discriminate|].
      destruct (path_eqb q r) eqn:E; [left; apply path_eqb_eq in E; auto | right; auto].
    + rewrite Hq; apply path_eqb_refl.
Qed.

Lemma parent_is_dir : forall p h, parent p = Some h -> is_dir h = true.
Proof. intros p h H; destruct p; simpl in H; inversion H; reflexivity. Qed.

Lemma overlay_nil : forall b, overlay b [] = b.
Proof. intros; unfold overlay. rewrite skipn_nil, app_nil_r; reflexivity. Qed.

Lemma overlay_firstn : forall (c : bytes) i j, overlay (firstn j c) (firstn i c) = firstn (Nat.max i j) c.
Proof.
  intros c i j; unfold overlay. revert i j; induction c as [|x c IH]; intros i j.
  - rewrite !firstn_nil; reflexivity.
  - destruct j as [|j]; simpl.
    + rewrite Nat.max_0_r; reflexivity.
    + destruct i as [|i]; simpl.
      * rewrite ?skipn_nil, ?app_nil_r; reflexivity.
      * f_equal; apply IH.
Qed.

(* ------------------------------------------------------------- the invariant *)
Definition is_tmp (p : path) : bool := match p with POutT _ _ | PMetaT _ _ => true | _ => false end.

Definition is_final (p : path) : bool := match p with POut _ | PMeta _ => true | _ => false end.

(* operations that cannot remove or rewrite func_code.py or the directories above the entries *)
Definition safe_op (o : fsop) : Prop :=
  match o with
  | Unlink p | Creat p | Write p _ => p <> PCode
  | Rmdir p => p <> PLoc /\ p <> PRoot /\ p <> PMod /\ p <> PFunc
  | _ => True
  end.

Definition Tree (s : fs) : Prop :=
  forall p h, present p s = true -> parent p = Some h -> present h s = true.

Section Inv.
Variable outok : Z -> bytes -> Prop.   (* acceptable content of <k>/output.pkl *)
Variable metaok : bytes -> Prop.       (* acceptable content of <k>/metadata.json *)
Variable codeok : bytes -> Prop.       (* acceptable content of func_code.py *)
Variable codew : bytes -> Prop.        (* what a participant may write into func_code.py *)
Variable Extra : fs -> Prop.           (* further state invariant (the "warm" refinement) *)
Variable xok : fsop -> Prop.           (* ... and the operations it tolerates *)

Definition Inv (s : fs) : Prop :=
  Tree s /\
  (forall k b, lookup (POut k) s = Some b -> outok k b) /\
  (forall k b, lookup (PMeta k) s = Some b -> metaok b) /\
  (forall b, lookup PCode s = Some b -> codeok b).

Definition J (s : fs) : Prop := Inv s /\ Extra s.

(* operations a participant may issue outside the write-then-rename pattern *)
Definition allowed (o : fsop) : Prop :=
  match o with
  | Stat _ | ReadAll _ | ListDir _ | Rmdir _ => True
  | Mkdir p => is_dir p = true
  | Unlink p => is_dir p = false
  | Creat p => p = PGit \/ p = PCode
  | Write p b => p = PGit \/ (p = PCode /\ codew b)
  | Rename _ _ => False
  end.

Hypothesis codeok_nil : codeok [].
Hypothesis codeok_overlay : forall b old, codew b -> codeok old -> codeok (overlay b old).

Ltac pe := repeat match goal with
  | H : path_eqb _ _ = true |- _ => apply path_eqb_eq in H; try discriminate H; subst
  end.

Lemma Tree_set : forall p b s, Tree s -> parent_present p s = true -> Tree (set p b s).
Proof.
  intros p b s HT Hpp q h Hq Hh. rewrite present_set in *.
  apply orb_true_iff in Hq. apply orb_true_iff. destruct Hq as [Hq|Hq].
  - apply path_eqb_eq in Hq; subst q. unfold parent_present in Hpp; rewrite Hh in Hpp. right; exact Hpp.
  - right; eapply HT; eauto.
Qed.

Lemma Tree_remove_leaf : forall p s, Tree s ->
  (forall q, present q s = true -> parent q = Some p -> False) -> Tree (remove p s).
Proof.
  intros p s HT Hleaf q h Hq Hh. rewrite present_remove in *.
  apply andb_true_iff in Hq; destruct Hq as [Hn Hq]. apply andb_true_iff; split.
  - destruct (path_eqb h p) eqn:E; [|reflexivity]. apply path_eqb_eq in E; subst h.
    exfalso; eapply Hleaf; eauto.
  - eapply HT; eauto.
Qed.

Lemma allowed_inv : forall o s, allowed o -> Inv s -> Inv (snd (exec o s)).
Proof.
  intros o s Ha (HT & HO & HM & HC). destruct o; simpl in *;
    try (destruct (present p s); simpl; repeat split; assumption);
    try (destruct (lookup p s); simpl; repeat split; assumption).
  - (* Mkdir *) destruct (present p s) eqn:Hp; simpl; [repeat split; assumption|].
    destruct (parent_present p s) eqn:Hpp; simpl; [|repeat split; assumption].
    split; [apply Tree_set; auto|]. repeat split; intros *; rewrite lookup_set;
      destruct (path_eqb _ p) eqn:E; pe; simpl in Ha; try discriminate; eauto.
  - (* Creat *) destruct (parent_present p s) eqn:Hpp; simpl; [|repeat split; assumption].
    split; [apply Tree_set; auto|]. repeat split; intros *; rewrite lookup_set;
      destruct (path_eqb _ p) eqn:E; pe; eauto; destruct Ha; try discriminate.
    intros Hx; inversion Hx; subst; exact codeok_nil.
  - (* Write *) destruct (lookup p s) as [old|] eqn:Hl; simpl; [|repeat split; assumption].
    split.
    { intros q h Hq Hh. rewrite present_set in *. apply orb_true_iff in Hq. apply orb_true_iff.
      destruct Hq as [Hq|Hq].
      - pe. right; eapply HT; eauto. apply present_lookup; eauto.
      - right; eapply HT; eauto. }
    repeat split; intros *; rewrite lookup_set; destruct (path_eqb _ p) eqn:E; pe; eauto;
      destruct Ha as [Ha|[Ha Hw]]; try discriminate.
    intros Hx; inversion Hx; subst. apply codeok_overlay; auto.
  - (* Rename *) contradiction.
  - (* Unlink *) destruct (present p s) eqn:Hp; simpl; [|repeat split; assumption].
    split.
    { apply Tree_remove_leaf; auto. intros q Hq Hpar. apply parent_is_dir in Hpar; congruence. }
    repeat split; intros *; rewrite lookup_remove; destruct (path_eqb _ p) eqn:E; try discriminate; eauto.
  - (* Rmdir *) destruct (is_dir p); simpl; [|repeat split; assumption].
    destruct (present p s) eqn:Hp; simpl; [|repeat split; assumption].
    destruct (children p s) eqn:Hc; simpl; [|repeat split; assumption].
    split.
    { apply Tree_remove_leaf; auto. intros q Hq Hpar.
      assert (In q (children p s)) by (apply in_children; auto). rewrite Hc in H; contradiction. }
    repeat split; intros *; rewrite lookup_remove; destruct (path_eqb _ p) eqn:E; try discriminate; eauto.
Qed.

(* a temporary name of writer [t] and the final name it is renamed to *)
Definition tmp_final (t : Z) (tmp final : path) (b : bytes) : Prop :=
  (exists k, tmp = POutT k t /\ final = POut k /\ outok k b) \/
  (exists k, tmp = PMetaT k t /\ final = PMeta k /\ metaok b).

Lemma tmp_final_is_tmp : forall t tmp final b, tmp_final t tmp final b -> is_tmp tmp = true /\ parent tmp = parent final.
Proof. intros t tmp final b [(k & -> & -> & _)|(k & -> & -> & _)]; split; reflexivity. Qed.

Lemma tmp_final_is_final : forall t tmp final b, tmp_final t tmp final b -> is_final final = true.
Proof. intros t tmp final b [(k & -> & -> & _)|(k & -> & -> & _)]; reflexivity. Qed.

(* writes (complete or torn) into a temporary name, and its creation, keep the invariant *)
Lemma tmp_set_inv : forall tmp b s, is_tmp tmp = true -> Inv s ->
  (present tmp s = true \/ parent_present tmp s = true) -> Inv (set tmp b s).
Proof.
  intros tmp b s Ht (HT & HO & HM & HC) Hp. split.
  - intros q h Hq Hh. rewrite present_set in *. apply orb_true_iff in Hq. apply orb_true_iff.
    destruct Hq as [Hq|Hq].
    + apply path_eqb_eq in Hq; subst q. right. destruct Hp as [Hp|Hp].
      * eapply HT; eauto.
      * unfold parent_present in Hp; rewrite Hh in Hp; exact Hp.
    + right; eapply HT; eauto.
  - repeat split; intros *; rewrite lookup_set; destruct (path_eqb _ tmp) eqn:E; eauto;
      apply path_eqb_eq in E; subst tmp; discriminate.
Qed.

Lemma creat_tmp_inv : forall tmp s, is_tmp tmp = true -> Inv s -> Inv (snd (exec (Creat tmp) s)).
Proof.
  intros tmp s Ht HI; simpl. destruct (parent_present tmp s) eqn:E; simpl; auto.
  apply tmp_set_inv; auto.
Qed.

Lemma write_tmp_inv : forall tmp b s, is_tmp tmp = true -> Inv s -> Inv (snd (exec (Write tmp b) s)).
Proof.
  intros tmp b s Ht HI; simpl. destruct (lookup tmp s) eqn:E; simpl; auto.
  apply tmp_set_inv; auto. left; apply present_lookup; eauto.
Qed.

Lemma rename_tmp_inv : forall t tmp final b s, tmp_final t tmp final b -> Inv s ->
  (lookup tmp s = None \/ lookup tmp s = Some b) -> Inv (snd (exec (Rename tmp final) s)).
Proof.
  intros t tmp final b s Htf HI Hl; simpl.
  destruct Hl as [Hl|Hl]; rewrite Hl; simpl; auto.
  destruct (parent_present final s) eqn:Hpp; simpl; auto.
  destruct HI as (HT & HO & HM & HC).
  assert (Hleaf : forall q, present q s = true -> parent q = Some tmp -> False).
  { intros q _ Hq. apply parent_is_dir in Hq.
    destruct Htf as [(k & -> & _)|(k & -> & _)]; discriminate. }
  split.
  - apply Tree_set.
    + apply Tree_remove_leaf; auto.
    + unfold parent_present in *. destruct (parent final) as [h|] eqn:Eh; auto.
      rewrite present_remove. rewrite Hpp, andb_true_r.
      destruct (path_eqb h tmp) eqn:E; auto. apply path_eqb_eq in E; subst h.
      apply parent_is_dir in Eh. destruct Htf as [(k & -> & _)|(k & -> & _)]; discriminate.
  - destruct Htf as [(k & -> & -> & Hok)|(k & -> & -> & Hok)].
    + split; [|split].
      * intros k0 b0. rewrite lookup_set, lookup_remove; simpl. destruct (k0 =? k) eqn:E.
        -- apply Z.eqb_eq in E; subst. intros Hx; inversion Hx; subst; auto.
        -- eauto.
      * intros k0 b0. rewrite lookup_set, lookup_remove; simpl. eauto.
      * intros b0. rewrite lookup_set, lookup_remove; simpl. eauto.
    + split; [|split].
      * intros k0 b0. rewrite lookup_set, lookup_remove; simpl. eauto.
      * intros k0 b0. rewrite lookup_set, lookup_remove; simpl. destruct (k0 =? k) eqn:E.
        -- apply Z.eqb_eq in E; subst. intros Hx; inversion Hx; subst; auto.
        -- eauto.
      * intros b0. rewrite lookup_set, lookup_remove; simpl. eauto.
Qed.

(* what an operation can do to a temporary name it does not target *)
Lemma other_tmp_stable : forall o p s,
  is_tmp p = true ->
  match o with
  | Creat q | Write q _ | Mkdir q => q <> p
  | Rename _ d => d <> p
  | _ => True
  end ->
  lookup p (snd (exec o s)) = lookup p s \/ lookup p (snd (exec o s)) = None.
Proof.
  intros o p s Ht Hne. destruct o as [p0|p0|p0|p0 b0|p0|src dst|p0|p0|p0]; simpl; auto;
    try (destruct (present p0 s); simpl; auto; fail); try (destruct (lookup p0 s); simpl; auto; fail).
  - destruct (present p0 s); simpl; auto. destruct (parent_present p0 s); simpl; auto.
    left. rewrite lookup_set. apply path_eqb_neq in Hne. rewrite path_eqb_sym, Hne; reflexivity.
  - destruct (parent_present p0 s); simpl; auto.
    left. rewrite lookup_set. apply path_eqb_neq in Hne. rewrite path_eqb_sym, Hne; reflexivity.
  - destruct (lookup p0 s); simpl; auto.
    left. rewrite lookup_set. apply path_eqb_neq in Hne. rewrite path_eqb_sym, Hne; reflexivity.
  - destruct (lookup src s); simpl; auto. destruct (parent_present dst s); simpl; auto.
    rewrite lookup_set, lookup_remove. apply path_eqb_neq in Hne. rewrite path_eqb_sym, Hne.
    destruct (path_eqb p src); auto.
  - destruct (present p0 s); simpl; auto. rewrite lookup_remove. destruct (path_eqb p p0); auto.
  - destruct (is_dir p0); simpl; auto. destruct (present p0 s); simpl; auto. destruct (children p0 s); simpl; auto.
    rewrite lookup_remove. destruct (path_eqb p p0); auto.
Qed.

End Inv.
