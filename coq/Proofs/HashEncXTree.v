(* C08 extension: without sharing the identity-aware model writes exactly what the tree model writes
   (tuples / lists / leaves; dict nodes are covered by the byte correspondence only).  Hence everything
   proved about Model/HashEnc.enc (order-insensitivity, injectivity) applies to values built from
   pairwise distinct objects, and the ONLY way identity shows in the stream is a memo hit
   (the hit lemmas of Proofs/HashEncXFacts). *)
From Coq Require Import ZArith List Bool Lia.
Require Import JV.Model.HashEnc JV.Model.HashEncX.
Import ListNotations.
Open Scope Z_scope.

Section XInd.
Variable P : xvalue -> Prop.
Hypothesis HLeaf : forall t, P (XLeaf t).
Hypothesis HArr : forall a, P (XArr a).
Hypothesis HGlobal : forall n, P (XGlobal n).
Hypothesis HTuple : forall id l, Forall P l -> P (XTuple id l).
Hypothesis HList : forall id l, Forall P l -> P (XList id l).
Hypothesis HDict : forall id items, Forall (fun kv => P (snd kv)) items -> P (XDict id items).
Fixpoint xvalue_ind' (v : xvalue) : P v :=
  let all := fix all (l : list xvalue) : Forall P l :=
    match l with [] => Forall_nil P | x :: t => Forall_cons x (xvalue_ind' x) (all t) end in
  match v with
  | XLeaf t => HLeaf t
  | XArr a => HArr a
  | XGlobal n => HGlobal n
  | XTuple id l => HTuple id l (all l)
  | XList id l => HList id l (all l)
  | XDict id items => HDict id items
      ((fix alld (l : list (value * xvalue)) : Forall (fun kv => P (snd kv)) l :=
          match l with [] => Forall_nil _ | (k, x) :: t => Forall_cons (k, x) (xvalue_ind' x) (alld t) end) items)
  end.
End XInd.

(* object ids of a value, and "no dict node" *)
Fixpoint xids (v : xvalue) : list Z :=
  match v with
  | XLeaf _ | XArr _ | XGlobal _ => []
  | XTuple id l | XList id l => id :: (fix go (l : list xvalue) := match l with [] => [] | x :: t => xids x ++ go t end) l
  | XDict id items => id :: (fix go (l : list (value * xvalue)) := match l with [] => [] | (_, x) :: t => xids x ++ go t end) items
  end.
Fixpoint dictfree (v : xvalue) : Prop :=
  match v with
  | XTuple _ l | XList _ l => (fix go (l : list xvalue) := match l with [] => True | x :: t => dictfree x /\ go t end) l
  | XDict _ _ => False
  | _ => True
  end.

Definition xids_list (l : list xvalue) : list Z := flat_map xids l.
Fixpoint erase_list (l : list xvalue) : option (list value) :=
  match l with
  | [] => Some []
  | x :: t => match erase x, erase_list t with Some a, Some b => Some (a :: b) | _, _ => None end
  end.

Lemma xids_XTuple id l : xids (XTuple id l) = id :: xids_list l.
Proof. first [reflexivity | cbn [xids]; f_equal; induction l; cbn; congruence]. Qed.
Lemma xids_XList id l : xids (XList id l) = id :: xids_list l.
Proof. first [reflexivity | cbn [xids]; f_equal; induction l; cbn; congruence]. Qed.
Lemma erase_XTuple id l : erase (XTuple id l) = option_map VTuple (erase_list l).
Proof. first [reflexivity | cbn [erase]; f_equal; induction l as [|x t IH]; cbn; [reflexivity|]; rewrite IH; reflexivity]. Qed.
Lemma erase_XList id l : erase (XList id l) = option_map VList (erase_list l).
Proof. first [reflexivity | cbn [erase]; f_equal; induction l as [|x t IH]; cbn; [reflexivity|]; rewrite IH; reflexivity]. Qed.
Lemma dictfree_XTuple id l : dictfree (XTuple id l) <-> Forall dictfree l.
Proof. cbn [dictfree]. induction l as [|x t IH]; [split; auto|]. rewrite Forall_cons_iff, <- IH. reflexivity. Qed.
Lemma dictfree_XList id l : dictfree (XList id l) <-> Forall dictfree l.
Proof. cbn [dictfree]. induction l as [|x t IH]; [split; auto|]. rewrite Forall_cons_iff, <- IH. reflexivity. Qed.

Definition fresh (ids : list Z) (objs : list (Z * Z)) : Prop := forall i, In i ids -> lookup_id i objs = None.
Definition grows (objs objs' : list (Z * Z)) (ids : list Z) : Prop :=
  forall i, lookup_id i objs' <> None -> lookup_id i objs <> None \/ In i ids.

Definition mkx (m : memo) (objs : list (Z * Z)) (g : list (list byte * Z)) : xmemo :=
  {| xm := m; xobjs := objs; xglobals := g |}.

Lemma xbatch_NO fuel one many os :
  xbatch fuel one many (map (map NO) os) = map NO (batch fuel one many os).
Proof.
  revert os. induction fuel as [|f IH]; intros os; [reflexivity|].
  cbn [xbatch batch]. rewrite !firstn_map, !skipn_map, !map_length, IH.
  rewrite map_app. f_equal.
  - destruct (firstn BATCHSIZE os) as [|x [|y t]]; cbn [map]; [reflexivity| |].
    + rewrite map_app. reflexivity.
    + f_equal. rewrite map_app. cbn [map]. f_equal.
      change (map NO x :: map NO y :: map (map NO) t) with (map (map NO) (x :: y :: t)). rewrite concat_map. reflexivity.
  - destruct (Nat.ltb _ _); reflexivity.
Qed.

Section Tree.
Variables (md5 : list byte -> list byte) (c : bool).

Definition agrees (v : xvalue) : Prop :=
  dictfree v -> forall t, erase v = Some t -> NoDup (xids v) ->
  forall m, fresh (xids v) (xobjs m) ->
  exists objs', grows (xobjs m) objs' (xids v) /\
    enc_x md5 c v m = match enc md5 t (xm m) with
                      | Some (ops, m') => Some (map NO ops, [], mkx m' objs' (xglobals m))
                      | None => None
                      end.

Lemma NoDup_app_l {A} (a b : list A) : NoDup (a ++ b) -> NoDup a.
Proof. induction a; cbn; intros H; [constructor|]. inversion H; subst. constructor; [intros Hin; apply H2; apply in_or_app; auto|auto]. Qed.
Lemma NoDup_app_r {A} (a b : list A) : NoDup (a ++ b) -> NoDup b.
Proof. induction a; cbn; intros H; auto. inversion H; auto. Qed.
Lemma NoDup_app_disj {A} (a b : list A) x : NoDup (a ++ b) -> In x a -> In x b -> False.
Proof.
  induction a as [|y a IH]; cbn; intros H Ha Hb; [contradiction|].
  inversion H; subst. destruct Ha as [->|Ha].
  - apply H2. apply in_or_app. auto.
  - eauto.
Qed.

Lemma seq_agrees l : Forall agrees l -> Forall dictfree l -> forall ts, erase_list l = Some ts ->
  NoDup (xids_list l) -> forall m, fresh (xids_list l) (xobjs m) ->
  exists objs', grows (xobjs m) objs' (xids_list l) /\
    xrun_seq (map (enc_x md5 c) l) m =
    match run_seq (map (enc md5) ts) (xm m) with
    | Some (os, m') => Some (map (map NO) os, [], mkx m' objs' (xglobals m))
    | None => None
    end.
Proof.
  induction 1 as [|x l Hx _ IH]; intros Hd ts He ND m Hf.
  - cbn in He. injection He as <-. exists (xobjs m). split; [intros i Hi; auto|]. destruct m; reflexivity.
  - inversion Hd as [|? ? Hdx Hdl]; subst. cbn [erase_list] in He.
    destruct (erase x) as [t|] eqn:Et; [|discriminate]. destruct (erase_list l) as [ts'|] eqn:Etl; [|discriminate].
    injection He as <-. unfold xids_list in *. cbn [flat_map] in *.
    destruct (Hx Hdx t Et (NoDup_app_l _ _ ND) m) as (o1 & G1 & E1).
    { intros i Hi. apply Hf. apply in_or_app. auto. }
    cbn [map xrun_seq run_seq]. rewrite E1.
    destruct (enc md5 t (xm m)) as [[ops m1]|]; [|exists (xobjs m); split; [intros i Hi; auto|reflexivity]].
    destruct (IH Hdl ts' eq_refl (NoDup_app_r _ _ ND) (mkx m1 o1 (xglobals m))) as (o2 & G2 & E2).
    { intros i Hi. cbn [xobjs mkx]. destruct (lookup_id i o1) eqn:El; [|reflexivity]. exfalso.
      destruct (G1 i) as [H1|H1]; [congruence| |].
      - apply H1. apply Hf. apply in_or_app. auto.
      - eapply NoDup_app_disj; eauto. }
    cbn [xm xobjs xglobals mkx] in E2. rewrite E2.
    destruct (run_seq (map (enc md5) ts') m1) as [[os m2]|].
    + exists o2. split; [|reflexivity]. intros i Hi. destruct (G2 i Hi) as [H2|H2].
      * destruct (G1 i H2) as [H1|H1]; [auto|right; apply in_or_app; auto].
      * right. apply in_or_app. auto.
    + exists (xobjs m). split; [intros i Hi; auto|reflexivity].
Qed.

Lemma concat_NO os : concat (map (map NO) os) = map NO (concat os).
Proof. rewrite concat_map. reflexivity. Qed.

Theorem x_tree : forall v, agrees v.
Proof.
  apply xvalue_ind'.
  - (* leaf *) intros t _ t' He _ m _. cbn in He. injection He as <-. exists (xobjs m). split; [intros i Hi; auto|].
    cbn [enc_x]. unfold xlift. destruct (enc md5 t (xm m)) as [[ops m']|]; reflexivity.
  - intros a _ t He. discriminate.
  - intros n _ t He. discriminate.
  - (* tuple *) intros id l IH Hd t He ND m Hf.
    rewrite erase_XTuple in He. destruct (erase_list l) as [ts|] eqn:Etl; [|discriminate]. injection He as <-.
    rewrite xids_XTuple in *. rewrite dictfree_XTuple in Hd. inversion ND as [|? ? Hnin ND']; subst.
    assert (Hid : lookup_id id (xobjs m) = None) by (apply Hf; left; reflexivity).
    change (enc_x md5 c (XTuple id l)) with (xtuple id (map (enc_x md5 c) l)).
    unfold xtuple. rewrite Hid.
    change (enc md5 (VTuple ts)) with (enc_tuple (map (enc md5) ts)). unfold enc_tuple.
    destruct l as [|x l'].
    + cbn in Etl. injection Etl as <-. exists (xobjs m). split; [intros i Hi; auto|]. destruct m; reflexivity.
    + assert (Hts : exists t0 ts0, ts = t0 :: ts0).
      { cbn in Etl. destruct (erase x), (erase_list l'); try discriminate. injection Etl as <-. eauto. }
      destruct Hts as (t0 & ts0 & ->).
      destruct (seq_agrees (x :: l') IH Hd (t0 :: ts0) Etl ND' m) as (o1 & G1 & E1).
      { intros i Hi. apply Hf. right. exact Hi. }
      change (map (enc_x md5 c) (x :: l')) with (enc_x md5 c x :: map (enc_x md5 c) l') in *.
      change (map (enc md5) (t0 :: ts0)) with (enc md5 t0 :: map (enc md5) ts0) in *.
      rewrite E1. destruct (run_seq (enc md5 t0 :: map (enc md5) ts0) (xm m)) as [[os m1]|].
      2:{ exists (xobjs m). split; [intros i Hi; auto|reflexivity]. }
      assert (Hno : lookup_id id o1 = None).
      { destruct (lookup_id id o1) eqn:El; [|reflexivity]. exfalso.
        destruct (G1 id) as [H|H]; [congruence|apply H; exact Hid|apply Hnin; exact H]. }
      cbn [xobjs mkx]. rewrite Hno.
      unfold xmemoize. cbn [xm xobjs xglobals mkx]. unfold memoize.
      exists ((id, mnext m1) :: o1). split.
      * intros i Hi. cbn [lookup_id] in Hi. destruct (id =? i) eqn:Ei.
        -- apply Z.eqb_eq in Ei. subst. right. left. reflexivity.
        -- destruct (G1 i Hi) as [H|H]; [auto|right; right; exact H].
      * cbn [length]. rewrite !map_length.
        assert (Hlen : length l' = length ts0).
        { clear - Etl. cbn in Etl. destruct (erase x); [|discriminate]. destruct (erase_list l') as [tt|] eqn:E; [|discriminate].
          injection Etl as _ <-. revert tt E. induction l' as [|y l IH]; intros tt E; cbn in E.
          - injection E as <-. reflexivity.
          - destruct (erase y); [|discriminate]. destruct (erase_list l) eqn:E2; [|discriminate]. injection E as <-. cbn. f_equal. eauto. }
        rewrite Hlen. rewrite concat_NO.
        destruct (Nat.leb (S (length ts0)) 3); rewrite ?map_app; cbn [map app]; rewrite ?map_app; cbn [map app]; reflexivity.
  - (* list *) intros id l IH Hd t He ND m Hf.
    rewrite erase_XList in He. destruct (erase_list l) as [ts|] eqn:Etl; [|discriminate]. injection He as <-.
    rewrite xids_XList in *. rewrite dictfree_XList in Hd. inversion ND as [|? ? Hnin ND']; subst.
    assert (Hid : lookup_id id (xobjs m) = None) by (apply Hf; left; reflexivity).
    change (enc_x md5 c (XList id l)) with (xlist id (map (enc_x md5 c) l)).
    unfold xlist. rewrite Hid. unfold xmemoize.
    change (enc md5 (VList ts)) with (enc_list (map (enc md5) ts)). unfold enc_list. unfold memoize.
    set (m1 := {| mnext := mnext (xm m) + 1; mset := mset (xm m); mfset := mfset (xm m) |}).
    destruct (seq_agrees l IH Hd ts Etl ND' (mkx m1 ((id, mnext (xm m)) :: xobjs m) (xglobals m))) as (o1 & G1 & E1).
    { intros i Hi. cbn [xobjs mkx lookup_id]. destruct (id =? i) eqn:Ei.
      - apply Z.eqb_eq in Ei. subst. contradiction.
      - apply Hf. right. exact Hi. }
    cbn [xm xobjs xglobals mkx] in E1, G1. subst m1. unfold mkx in E1 at 1. cbn [xm xobjs xglobals mkx]. rewrite E1.
    destruct (run_seq (map (enc md5) ts) _) as [[os m2]|].
    2:{ exists (xobjs m). split; [intros i Hi; auto|reflexivity]. }
    exists o1. split.
    + intros i Hi. destruct (G1 i Hi) as [H|H]; [|right; right; exact H].
      cbn [lookup_id] in H. destruct (id =? i) eqn:Ei; [apply Z.eqb_eq in Ei; subst; right; left; reflexivity|auto].
    + unfold xbatch_all, batch_all. rewrite map_length, xbatch_NO. cbn [map]. rewrite map_app. reflexivity.
  - (* dict *) intros id items _ Hd. contradiction.
Qed.
End Tree.
