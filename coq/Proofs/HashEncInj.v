(* C08, discrimination half: on the universe [good], the stream determines the value up to the
   iteration order of its dicts / sets / frozensets.  Proof device: a stack machine over opcodes (the
   unpickler restricted to what Hasher writes) that rebuilds [normv v] from [enc v]; structural
   recursion on the opcode list, no fuel.  Together with the unique decodability of the byte
   serialisation (Proofs/HashEncBytes.v) this gives injectivity of [enc_top]. *)
From Coq Require Import ZArith List Bool Lia Sorting.Permutation Sorting.Sorted.
Require Import JV.Model.HashEnc JV.Proofs.HashEncSort JV.Proofs.HashEncDefs JV.Proofs.HashEncOrder
               JV.Proofs.HashEncBytes JV.Proofs.HashEncKeys.
Import ListNotations.
Open Scope Z_scope.

(* ---------------------------------------------------------------- canonical form *)
Definition sorte (l : list value) : list value :=
  match py_sorted py_lt l with Some s => s | None => l end.
Definition kv_lt (a b : value * value) : option bool := py_lt (fst a) (fst b).
Definition sortk (l : list (value * value)) : list (value * value) :=
  match py_sorted kv_lt l with Some s => s | None => l end.

Fixpoint normv (v : value) : value :=
  match v with
  | VTuple l => VTuple ((fix go (l : list value) := match l with [] => [] | x :: t => normv x :: go t end) l)
  | VList l => VList ((fix go (l : list value) := match l with [] => [] | x :: t => normv x :: go t end) l)
  | VDict items =>
      VDict (sortk ((fix go (l : list (value * value)) :=
                       match l with [] => [] | (k, x) :: t => (k, normv x) :: go t end) items))
  | VSet l => VSet (sorte l)
  | VFrozenSet l => VFrozenSet (sorte l)
  | _ => v
  end.

Definition nkv (kv : value * value) : value * value := (fst kv, normv (snd kv)).
Lemma normv_VTuple l : normv (VTuple l) = VTuple (map normv l).
Proof. reflexivity. Qed.
Lemma normv_VList l : normv (VList l) = VList (map normv l).
Proof. reflexivity. Qed.
Lemma normv_VDict items : normv (VDict items) = VDict (sortk (map nkv items)).
Proof. cbn [normv]. do 2 f_equal. induction items as [|[k x] t IH]; cbn [map]; [reflexivity|]. f_equal. exact IH. Qed.

Lemma normv_plain : forall v, plain v -> normv v = v.
Proof.
  apply (value_ind' (fun v => plain v -> normv v = v)); try (intros; reflexivity); try (intros ? ? []; fail).
  intros l IH Hp. rewrite normv_VTuple. f_equal. rewrite plain_VTuple in Hp.
  induction l as [|x t IHt]; [reflexivity|]. inversion IH; subst. inversion Hp; subst. cbn [map]. f_equal; auto.
Qed.

(* ---------------------------------------------------------------- the stack machine *)
Inductive sitem := SV (v : value) | SMark | SCls (f : bool) | SObj (f : bool).
Record mst := { stk : list sitem; tset : option Z; tfset : option Z }.
Definition St (s : list sitem) (m : memo) : mst := {| stk := s; tset := mset m; tfset := mfset m |}.

Fixpoint pop_mark (s : list sitem) (acc : list value) : option (list value * list sitem) :=
  match s with
  | SMark :: r => Some (acc, r)
  | SV v :: r => pop_mark r (v :: acc)
  | _ => None
  end.

Fixpoint pairs_tot (l : list value) : list (value * value) :=
  match l with k :: v :: t => (k, v) :: pairs_tot t | _ => [] end.

Definition opt_is (o : option Z) (i : Z) : bool := match o with Some j => j =? i | None => false end.

Definition with_stk (st : mst) (s : list sitem) : mst := {| stk := s; tset := tset st; tfset := tfset st |}.

Definition step_put (i : Z) (st : mst) : option mst :=
  match stk st with
  | SCls false :: _ => Some {| stk := stk st; tset := Some i; tfset := tfset st |}
  | SCls true :: _ => Some {| stk := stk st; tset := tset st; tfset := Some i |}
  | _ => Some st
  end.
Definition step_get (i : Z) (st : mst) : option mst :=
  if opt_is (tset st) i then Some (with_stk st (SCls false :: stk st))
  else if opt_is (tfset st) i then Some (with_stk st (SCls true :: stk st))
  else None.

Definition step (o : op) (st : mst) : option mst :=
  let s := stk st in
  let push v := Some (with_stk st (SV v :: s)) in
  match o with
  | OProto | OStop => Some st
  | ONone => push VNone
  | OTrue => push (VBool true)
  | OFalse => push (VBool false)
  | OBinInt1 z | OBinInt2 z | OBinInt z => push (VInt z)
  | OLong1 bs | OLong4 bs => push (VInt (dec_long bs))
  | OBinFloat b => push (VFloat b)
  | OBinUnicode u => push (VStr u)
  | OShortBinBytes b | OBinBytes b => push (VBytes b)
  | OEmptyTuple => push (VTuple [])
  | OTuple1 => match s with SV a :: r => Some (with_stk st (SV (VTuple [a]) :: r)) | _ => None end
  | OTuple2 => match s with SV b :: SV a :: r => Some (with_stk st (SV (VTuple [a; b]) :: r)) | _ => None end
  | OTuple3 => match s with SV c :: SV b :: SV a :: r => Some (with_stk st (SV (VTuple [a; b; c]) :: r)) | _ => None end
  | OMark => Some (with_stk st (SMark :: s))
  | OTuple => match pop_mark s [] with Some (ws, r) => Some (with_stk st (SV (VTuple ws) :: r)) | None => None end
  | OEmptyList => push (VList [])
  | OAppend => match s with SV x :: SV (VList l) :: r => Some (with_stk st (SV (VList (l ++ [x])) :: r)) | _ => None end
  | OAppends => match pop_mark s [] with
                | Some (ws, SV (VList l) :: r) => Some (with_stk st (SV (VList (l ++ ws)) :: r))
                | _ => None
                end
  | OEmptyDict => push (VDict [])
  | OSetItem => match s with
                | SV v :: SV k :: SV (VDict d) :: r => Some (with_stk st (SV (VDict (d ++ [(k, v)])) :: r))
                | _ => None
                end
  | OSetItems => match pop_mark s [] with
                 | Some (ws, SV (VDict d) :: r) => Some (with_stk st (SV (VDict (d ++ pairs_tot ws)) :: r))
                 | _ => None
                 end
  | OBinPut i | OLongBinPut i => step_put i st
  | OBinGet i | OLongBinGet i => step_get i st
  | OGlobal f => Some (with_stk st (SCls f :: s))
  | ONewObj => match s with SV (VTuple []) :: SCls f :: r => Some (with_stk st (SObj f :: r)) | _ => None end
  | OBuild => match s with
              | SV (VDict [(VStr _, VList l)]) :: SObj f :: r =>
                  Some (with_stk st (SV (if f then VFrozenSet l else VSet l) :: r))
              | _ => None
              end
  end.

Fixpoint run (ops : list op) (st : mst) : option mst :=
  match ops with
  | [] => Some st
  | o :: t => match step o st with Some st' => run t st' | None => None end
  end.

Lemma run_app a b st : run (a ++ b) st = match run a st with Some st' => run b st' | None => None end.
Proof. revert st. induction a as [|o a IH]; intros st; cbn; [reflexivity|]. destruct (step o st); auto. Qed.

Lemma pop_mark_app l r acc : pop_mark (map SV l ++ SMark :: r) acc = Some (rev l ++ acc, r).
Proof.
  revert acc. induction l as [|v l IH]; intros acc; cbn; [reflexivity|].
  rewrite IH, <- app_assoc. reflexivity.
Qed.
Lemma pop_mark_rev ws r : pop_mark (map SV (rev ws) ++ SMark :: r) [] = Some (ws, r).
Proof. rewrite pop_mark_app, rev_involutive, app_nil_r. reflexivity. Qed.

(* ---------------------------------------------------------------- memo invariant *)
Definition memo_wf (m : memo) : Prop :=
  (forall i, mset m = Some i -> i < mnext m) /\ (forall i, mfset m = Some i -> i < mnext m) /\
  (forall i j, mset m = Some i -> mfset m = Some j -> i <> j).

Lemma memo_wf0 : memo_wf memo0.
Proof. repeat split; cbn; intros; discriminate. Qed.

Lemma memoize_wf m : memo_wf m -> memo_wf (snd (memoize m)).
Proof.
  intros (H1 & H2 & H3). repeat split; cbn; intros.
  - apply H1 in H. lia.
  - apply H2 in H. lia.
  - eauto.
Qed.

Lemma St_memoize s m : St s (snd (memoize m)) = St s m.
Proof. reflexivity. Qed.

(* running [ops] pushes the values [ws] (last on top) and moves the class table from m to m' *)
Definition pushes (ops : list op) (ws : list value) (m m' : memo) : Prop :=
  forall s, run ops (St s m) = Some (St (map SV (rev ws) ++ s) m').

Lemma pushes_app a b ws1 ws2 m m1 m2 : pushes a ws1 m m1 -> pushes b ws2 m1 m2 -> pushes (a ++ b) (ws1 ++ ws2) m m2.
Proof.
  intros Ha Hb s. rewrite run_app, Ha, Hb, rev_app_distr, map_app, app_assoc. reflexivity.
Qed.

Lemma pushes_nil m : pushes [] [] m m.
Proof. intros s. reflexivity. Qed.

Lemma step_put_val i v s m : step (put_op i) (St (SV v :: s) m) = Some (St (SV v :: s) m).
Proof. unfold put_op. destruct (i <? 256); reflexivity. Qed.
Lemma step_put_obj i f s m : step (put_op i) (St (SObj f :: s) m) = Some (St (SObj f :: s) m).
Proof. unfold put_op. destruct (i <? 256); reflexivity. Qed.

(* chains of element encodings *)
Inductive chain : list (list op) -> list (list value) -> memo -> memo -> Prop :=
| chain_nil m : chain [] [] m m
| chain_cons o ws os wss m m1 m2 : pushes o ws m m1 -> chain os wss m1 m2 -> chain (o :: os) (ws :: wss) m m2.

Lemma chain_concat os wss m m' : chain os wss m m' -> pushes (concat os) (concat wss) m m'.
Proof. induction 1; cbn [concat]; [apply pushes_nil|eapply pushes_app; eauto]. Qed.

Lemma chain_length os wss m m' : chain os wss m m' -> length os = length wss.
Proof. induction 1; cbn; congruence. Qed.

Lemma chain_split k : forall os wss m m', chain os wss m m' ->
  exists mk, chain (firstn k os) (firstn k wss) m mk /\ chain (skipn k os) (skipn k wss) mk m'.
Proof.
  induction k as [|k IH]; intros os wss m m' H.
  - exists m. split; [constructor|exact H].
  - destruct H as [m|o ws os wss m m1 m2 Hp Hc].
    + exists m. split; constructor.
    + destruct (IH _ _ _ _ Hc) as (mk & H1 & H2). exists mk. split; [econstructor; eauto|exact H2].
Qed.

Lemma chain_nil_inv wss m m' : chain [] wss m m' -> wss = [] /\ m = m'.
Proof. inversion 1; auto. Qed.

(* ---------------------------------------------------------------- batches *)
Section Batch.
Variables (one many : op) (okw : list value -> Prop) (C : Type) (emb : C -> value) (extc : C -> list value -> C).
Hypothesis Hone : forall c ws s m, okw ws ->
  step one (St (map SV (rev ws) ++ SV (emb c) :: s) m) = Some (St (SV (emb (extc c ws)) :: s) m).
Hypothesis Hmany : forall c wss s m, Forall okw wss ->
  step many (St (map SV (rev (concat wss)) ++ SMark :: SV (emb c) :: s) m) = Some (St (SV (emb (extc c (concat wss))) :: s) m).
Hypothesis Hnil : forall c, extc c [] = c.
Hypothesis Hext : forall c a b, Forall okw a -> extc (extc c (concat a)) (concat b) = extc c (concat a ++ concat b).

Lemma firstn_nil_inv {A} n (l : list A) : (0 < n)%nat -> firstn n l = [] -> l = [].
Proof. destruct n; [lia|]. destruct l; [auto|discriminate]. Qed.

Lemma batch_run : forall fuel os wss m m' c s, chain os wss m m' -> Forall okw wss -> (length os < fuel)%nat ->
  run (batch fuel one many os) (St (SV (emb c) :: s) m) = Some (St (SV (emb (extc c (concat wss))) :: s) m').
Proof.
  induction fuel as [|f IH]; intros os wss m m' c s Hc Hok Hf; [lia|].
  cbn [batch].
  destruct (chain_split BATCHSIZE _ _ _ _ Hc) as (mk & H1 & H2).
  assert (HB : (0 < BATCHSIZE)%nat) by (unfold BATCHSIZE; lia).
  assert (Hok1 : Forall okw (firstn BATCHSIZE wss)).
  { rewrite Forall_forall in *. intros x Hx. apply Hok. eapply my_in_firstn; eauto. }
  assert (Hok2 : Forall okw (skipn BATCHSIZE wss)).
  { rewrite Forall_forall in *. intros x Hx. apply Hok. eapply my_in_skipn; eauto. }
  assert (Hcat : concat wss = concat (firstn BATCHSIZE wss) ++ concat (skipn BATCHSIZE wss)).
  { rewrite <- concat_app, firstn_skipn. reflexivity. }
  rewrite run_app.
  (* the first chunk *)
  assert (Hfirst : run (match firstn BATCHSIZE os with
                        | [] => []
                        | [x] => x ++ [one]
                        | _ => OMark :: concat (firstn BATCHSIZE os) ++ [many]
                        end) (St (SV (emb c) :: s) m) = Some (St (SV (emb (extc c (concat (firstn BATCHSIZE wss)))) :: s) mk)).
  { remember (firstn BATCHSIZE wss) as W eqn:EW. clear EW Hcat.
    destruct (firstn BATCHSIZE os) as [|x [|y t]] eqn:Etmp.
    - apply chain_nil_inv in H1. destruct H1 as [-> ->]. cbn [concat]. rewrite Hnil. reflexivity.
    - inversion H1 as [|o ws os' wss' m0 m1 m2 Hp Hc']; subst. apply chain_nil_inv in Hc'. destruct Hc' as [-> ->].
      cbn [concat]. rewrite app_nil_r. rewrite run_app, Hp. cbn [run].
      inversion Hok1; subst. rewrite Hone by assumption. reflexivity.
    - cbn [run step stk with_stk St].
      change (run (concat (x :: y :: t) ++ [many]) (St (SMark :: SV (emb c) :: s) m) =
              Some (St (SV (emb (extc c (concat W))) :: s) mk)).
      rewrite run_app, (chain_concat _ _ _ _ H1). cbn [run]. rewrite Hmany by assumption. reflexivity. }
  rewrite Hfirst.
  destruct (Nat.ltb (length (firstn BATCHSIZE os)) BATCHSIZE) eqn:El.
  - (* last chunk *)
    apply Nat.ltb_lt in El. rewrite firstn_length in El.
    assert (Hs : skipn BATCHSIZE os = []) by (apply skipn_all2; lia).
    rewrite Hs in H2. apply chain_nil_inv in H2. destruct H2 as [Hw ->].
    cbn [run]. rewrite Hcat, Hw. cbn [concat]. rewrite app_nil_r. reflexivity.
  - apply Nat.ltb_ge in El. rewrite firstn_length in El.
    rewrite (IH _ _ _ _ _ _ H2 Hok2).
    + rewrite Hext by assumption. rewrite <- Hcat. reflexivity.
    + rewrite skipn_length. lia.
Qed.
End Batch.

(* ---------------------------------------------------------------- list / dict instances *)
Definition okw1 (ws : list value) : Prop := exists x, ws = [x].
Definition okw2 (ws : list value) : Prop := exists k v, ws = [k; v].

Lemma batch_list os wss m m' l s : chain os wss m m' -> Forall okw1 wss ->
  run (batch_all OAppend OAppends os) (St (SV (VList l) :: s) m) = Some (St (SV (VList (l ++ concat wss)) :: s) m').
Proof.
  intros Hc Hok. unfold batch_all.
  apply (batch_run OAppend OAppends okw1 (list value) VList (fun l ws => l ++ ws)); auto.
  - intros c ws s0 m0 [x ->]. reflexivity.
  - intros c wss0 s0 m0 _. cbn [step stk St]. rewrite pop_mark_rev. reflexivity.
  - intros c. apply app_nil_r.
  - intros c a b _. symmetry. apply app_assoc.
Qed.

Lemma pairs_tot_app a : Forall okw2 a -> forall x, pairs_tot (concat a ++ x) = pairs_tot (concat a) ++ pairs_tot x.
Proof.
  induction 1 as [|ws a (k & v & ->) _ IH]; intros x; [reflexivity|].
  cbn [concat app pairs_tot]. rewrite IH. reflexivity.
Qed.

Lemma batch_dict os wss m m' d s : chain os wss m m' -> Forall okw2 wss ->
  run (batch_all OSetItem OSetItems os) (St (SV (VDict d) :: s) m) =
  Some (St (SV (VDict (d ++ pairs_tot (concat wss))) :: s) m').
Proof.
  intros Hc Hok. unfold batch_all.
  apply (batch_run OSetItem OSetItems okw2 (list (value * value)) VDict (fun d ws => d ++ pairs_tot ws)); auto.
  - intros c ws s0 m0 (k & v & ->). reflexivity.
  - intros c wss0 s0 m0 _. cbn [step stk St]. rewrite pop_mark_rev. reflexivity.
  - intros c. apply app_nil_r.
  - intros c a b Ha. rewrite pairs_tot_app by assumption. symmetry. apply app_assoc.
Qed.

Lemma concat_map_single {A B} (f : A -> B) l : concat (map (fun x => [f x]) l) = map f l.
Proof. induction l; cbn; congruence. Qed.
Lemma pairs_tot_concat {A} (fk fv : A -> value) l :
  pairs_tot (concat (map (fun x => [fk x; fv x]) l)) = map (fun x => (fk x, fv x)) l.
Proof. induction l; cbn; congruence. Qed.

(* ---------------------------------------------------------------- enc pushes normv *)
Section Enc.
Variable md5 : list byte -> list byte.
Notation enc := (enc md5).

Definition encodes_as (e : encoder) (ws : list value) : Prop :=
  forall m, memo_wf m -> exists o m', e m = Some (o, m') /\ pushes o ws m m' /\ memo_wf m'.
Definition encodes (v : value) : Prop := encodes_as (enc v) [normv v].

Lemma run_seq_chain es wss : Forall2 encodes_as es wss ->
  forall m, memo_wf m -> exists os m', run_seq es m = Some (os, m') /\ chain os wss m m' /\ memo_wf m'.
Proof.
  induction 1 as [|e ws es wss He _ IH]; intros m Hm.
  - exists [], m. split; [reflexivity|split; [constructor|exact Hm]].
  - destruct (He m Hm) as (o & m1 & E1 & P1 & W1). destruct (IH m1 W1) as (os & m2 & E2 & C2 & W2).
    exists (o :: os), m2. cbn [run_seq]. rewrite E1, E2. split; [reflexivity|split; [econstructor; eauto|exact W2]].
Qed.

Lemma Forall_encodes_F2 l : Forall encodes l -> Forall2 encodes_as (map enc l) (map (fun x => [normv x]) l).
Proof. induction 1; cbn [map]; constructor; auto. Qed.

Lemma okw1_map {A} (f : A -> value) l : Forall okw1 (map (fun x => [f x]) l).
Proof. induction l; cbn; constructor; auto. eexists; reflexivity. Qed.

Lemma push1 o v : (forall s m, step o (St s m) = Some (St (SV v :: s) m)) ->
  forall m, memo_wf m -> exists ops m', Some ([o], m) = Some (ops, m') /\ pushes ops [v] m m' /\ memo_wf m'.
Proof. intros H m Hm. exists [o], m. split; [reflexivity|split; [|exact Hm]]. intros s. cbn [run]. rewrite H. reflexivity. Qed.

Lemma encodes_list l : Forall encodes l -> encodes (VList l).
Proof.
  intros H m Hm. unfold encodes. rewrite enc_VList, normv_VList. unfold enc_list.
  destruct (memoize m) as [p m1] eqn:Em.
  assert (Em1 : m1 = snd (memoize m)) by (rewrite Em; reflexivity).
  assert (Ep : p = [put_op (mnext m)]) by (unfold memoize in Em; congruence).
  assert (W1 : memo_wf m1) by (subst m1; apply memoize_wf; exact Hm).
  destruct (run_seq_chain _ _ (Forall_encodes_F2 l H) m1 W1) as (os & m2 & E & C & W2).
  rewrite E. eexists _, m2. split; [reflexivity|]. split; [|exact W2].
  intros s. subst p. cbn [run app step stk St with_stk].
  change (with_stk (St s m) (SV (VList []) :: s)) with (St (SV (VList []) :: s) m).
  rewrite step_put_val.
  assert (ES : St (SV (VList []) :: s) m = St (SV (VList []) :: s) m1) by (subst m1; reflexivity).
  rewrite ES, (batch_list os _ m1 m2 [] s C (okw1_map normv l)), concat_map_single. reflexivity.
Qed.

Lemma encodes_tuple l : Forall encodes l -> encodes (VTuple l).
Proof.
  intros H m Hm. unfold encodes. rewrite enc_VTuple, normv_VTuple. unfold enc_tuple.
  destruct l as [|a l']; [cbn [map]; apply (push1 OEmptyTuple (VTuple [])); auto|].
  destruct (run_seq_chain _ _ (Forall_encodes_F2 _ H) m Hm) as (os & m1 & E & C & W1).
  change (map enc (a :: l')) with (enc a :: map enc l') in *. rewrite E.
  pose proof (chain_concat _ _ _ _ C) as Pc. rewrite concat_map_single in Pc.
  destruct (memoize m1) as [p m2] eqn:Em.
  assert (Em2 : m2 = snd (memoize m1)) by (rewrite Em; reflexivity).
  assert (Ep : p = [put_op (mnext m1)]) by (unfold memoize in Em; congruence).
  eexists _, m2. split; [reflexivity|]. split; [|subst m2; apply memoize_wf; exact W1].
  assert (ES : forall s, St s m1 = St s m2) by (intros; subst m2; reflexivity).
  intros s. subst p.
  destruct l' as [|b [|c [|d t]]].
  - cbn [length map Nat.leb]. rewrite !run_app, Pc. cbn [map rev app run step stk St with_stk].
    change (with_stk (St (SV (normv a) :: s) m1) (SV (VTuple [normv a]) :: s)) with (St (SV (VTuple [normv a]) :: s) m1).
    rewrite step_put_val, ES. reflexivity.
  - cbn [length map Nat.leb]. rewrite !run_app, Pc. cbn [map rev app run step stk St with_stk].
    change (with_stk (St (SV (normv b) :: SV (normv a) :: s) m1) (SV (VTuple [normv a; normv b]) :: s))
      with (St (SV (VTuple [normv a; normv b]) :: s) m1).
    rewrite step_put_val, ES. reflexivity.
  - cbn [length map Nat.leb]. rewrite !run_app, Pc. cbn [map rev app run step stk St with_stk].
    change (with_stk (St (SV (normv c) :: SV (normv b) :: SV (normv a) :: s) m1) (SV (VTuple [normv a; normv b; normv c]) :: s))
      with (St (SV (VTuple [normv a; normv b; normv c]) :: s) m1).
    rewrite step_put_val, ES. reflexivity.
  - cbn [length map Nat.leb]. set (l := a :: b :: c :: d :: t) in *.
    cbn [app]. cbn [run].
    replace (step OMark (St s m)) with (Some (St (SMark :: s) m)) by reflexivity.
    rewrite !run_app, (Pc (SMark :: s)). cbn [run].
    replace (step OTuple (St (map SV (rev (map normv l)) ++ SMark :: s) m1))
      with (Some (St (SV (VTuple (map normv l)) :: s) m1))
      by (cbn [step stk St]; rewrite pop_mark_rev; reflexivity).
    rewrite step_put_val, ES. reflexivity.
Qed.
End Enc.

Section Enc2.
Variable md5 : list byte -> list byte.
Notation enc := (enc md5).
Notation encodes := (encodes md5).

Lemma plain_good : forall v, plain v -> good v.
Proof.
  apply (value_ind' (fun v => plain v -> good v)); try (intros; exact I); try (intros ? ? []; fail).
  intros l IH Hp. rewrite good_VTuple. rewrite plain_VTuple in Hp.
  rewrite Forall_forall in *. intros x Hx. apply IH; auto.
Qed.

Lemma save_class_spec f m : memo_wf m ->
  let (c, m1) := save_class f m in
  memo_wf m1 /\ forall s, run c (St s m) = Some (St (SCls f :: s) m1).
Proof.
  intros Hm. pose proof Hm as (H1 & H2 & H3). unfold save_class.
  destruct f; cbv iota.
  - case_eq (mfset m); [intros i E|intros E].
    + split; [exact Hm|]. intros s. cbn [run]. unfold get_op.
      assert (Hg : step_get i (St s m) = Some (St (SCls true :: s) m)).
      { unfold step_get. cbn [tset tfset St stk]. rewrite E.
        destruct (mset m) as [j|] eqn:Ej; cbn [opt_is].
        - assert (j <> i) by (eapply H3; eauto). destruct (j =? i) eqn:Eji; [apply Z.eqb_eq in Eji; contradiction|].
          rewrite Z.eqb_refl. reflexivity.
        - rewrite Z.eqb_refl. reflexivity. }
      destruct (i <? 256); cbn [step]; rewrite Hg; reflexivity.
    + split.
      * repeat split; cbn [mset mfset mnext]; intros.
        -- apply H1 in H. lia.
        -- injection H as <-. lia.
        -- injection H0 as <-. apply H1 in H. lia.
      * intros s. cbn [run step stk St with_stk]. unfold put_op.
        destruct (mnext m <? 256); reflexivity.
  - case_eq (mset m); [intros i E|intros E].
    + split; [exact Hm|]. intros s. cbn [run]. unfold get_op.
      assert (Hg : step_get i (St s m) = Some (St (SCls false :: s) m)).
      { unfold step_get. cbn [tset tfset St stk]. rewrite E. cbn [opt_is]. rewrite Z.eqb_refl. reflexivity. }
      destruct (i <? 256); cbn [step]; rewrite Hg; reflexivity.
    + split.
      * repeat split; cbn [mset mfset mnext]; intros.
        -- injection H as <-. lia.
        -- apply H2 in H. lia.
        -- injection H as <-. apply H2 in H0. lia.
      * intros s. cbn [run step stk St with_stk]. unfold put_op.
        destruct (mnext m <? 256); reflexivity.
Qed.

Lemma encodes_set f l : keys_ok l -> Forall (fun x => good x -> encodes x) l ->
  HashEncInj.encodes_as (enc_set md5 f (map (mk_selem md5) l)) [if f then VFrozenSet (sorte l) else VSet (sorte l)].
Proof.
  intros [Hpl Hk] IH m Hm. unfold enc_set.
  (* the sorted element list *)
  assert (Hkid : key_order_ok (map (fun x : value => x) l)) by (rewrite map_id; exact Hk).
  destruct (keyed_map (fun x : value => x) py_lt (fst : selem -> value) selem_lt (mk_selem md5) l Hkid)
    as (s0 & Hs0 & Hs & Hp0); auto.
  { intros x y _ _ _. reflexivity. }
  { apply selem_lt_by_key. }
  assert (Hso : set_order md5 (map (mk_selem md5) l) = Some (map snd (map (mk_selem md5) s0))).
  { unfold set_order. rewrite Hs. reflexivity. }
  rewrite Hso. rewrite map_map. cbn [mk_selem snd].
  assert (Hsorte : sorte l = s0) by (unfold sorte; rewrite Hs0; reflexivity). rewrite Hsorte.
  pose proof (save_class_spec f m Hm) as Hc. destruct (save_class f m) as [c m1]. destruct Hc as [W1 Rc].
  destruct (memoize m1) as [p_obj m2] eqn:Em2. destruct (memoize m2) as [p_state m3] eqn:Em3.
  assert (E2 : m2 = snd (memoize m1)) by (rewrite Em2; reflexivity).
  assert (E3 : m3 = snd (memoize m2)) by (rewrite Em3; reflexivity).
  assert (Ep2 : p_obj = [put_op (mnext m1)]) by (unfold memoize in Em2; congruence).
  assert (Ep3 : p_state = [put_op (mnext m2)]) by (unfold memoize in Em3; congruence).
  assert (W3 : memo_wf m3) by (subst m3 m2; apply memoize_wf, memoize_wf; exact W1).
  (* the element list is encoded like the list of its (plain) elements *)
  assert (Hgs : Forall encodes s0).
  { rewrite Forall_forall in *. intros x Hx.
    assert (In x l) by (eapply Permutation_in; eauto). apply IH; auto. apply plain_good. auto. }
  destruct (encodes_list md5 s0 Hgs m3 W3) as (lops & m4 & El & Pl & W4).
  rewrite enc_VList in El. change (fun x : value => HashEnc.enc md5 x) with (HashEnc.enc md5). rewrite El.
  eexists _, m4. split; [reflexivity|]. split; [|exact W4].
  assert (Hn : normv (VList s0) = VList s0).
  { rewrite normv_VList. f_equal. rewrite <- (map_id s0) at 2. apply map_ext_in. intros x Hx. apply normv_plain.
    rewrite Forall_forall in Hpl. apply Hpl. eapply Permutation_in; eauto. }
  rewrite Hn in Pl.
  intros s. subst p_obj p_state.
  rewrite run_app, Rc. cbn [app run].
  replace (step OEmptyTuple (St (SCls f :: s) m1)) with (Some (St (SV (VTuple []) :: SCls f :: s) m1)) by reflexivity.
  replace (step ONewObj (St (SV (VTuple []) :: SCls f :: s) m1)) with (Some (St (SObj f :: s) m1)) by reflexivity.
  rewrite step_put_obj.
  replace (step OEmptyDict (St (SObj f :: s) m1)) with (Some (St (SV (VDict []) :: SObj f :: s) m1)) by reflexivity.
  rewrite step_put_val.
  replace (step (OBinUnicode name_sequence) (St (SV (VDict []) :: SObj f :: s) m1))
    with (Some (St (SV (VStr name_sequence) :: SV (VDict []) :: SObj f :: s) m3)) by (subst m3 m2; reflexivity).
  rewrite run_app, Pl. cbn [map rev app run].
  replace (step OSetItem (St (SV (VList s0) :: SV (VStr name_sequence) :: SV (VDict []) :: SObj f :: s) m4))
    with (Some (St (SV (VDict [(VStr name_sequence, VList s0)]) :: SObj f :: s) m4)) by reflexivity.
  destruct f; reflexivity.
Qed.

Lemma encodes_dict items : keys_ok (map fst items) -> Forall (fun kv => good (snd kv)) items ->
  Forall (fun kv => (good (fst kv) -> encodes (fst kv)) /\ (good (snd kv) -> encodes (snd kv))) items ->
  encodes (VDict items).
Proof.
  intros [Hpl Hk] Hg IH m Hm. unfold HashEncInj.encodes. rewrite enc_VDict, normv_VDict. unfold enc_dict.
  destruct (memoize m) as [p m1] eqn:Em.
  assert (Em1 : m1 = snd (memoize m)) by (rewrite Em; reflexivity).
  assert (Ep : p = [put_op (mnext m)]) by (unfold memoize in Em; congruence).
  assert (W1 : memo_wf m1) by (subst m1; apply memoize_wf; exact Hm).
  set (its := map (mk_ditem md5) items).
  assert (Hk1 : key_order_ok (map dkey its)) by (unfold its; rewrite map_dkey_mk; exact Hk).
  set (f := fun it : ditem => match it with (k, v, _, _) => (k, normv v) end).
  destruct (keyed_map dkey ditem_lt (fst : value * value -> value) kv_lt f its Hk1) as (s & Hs & Hs' & Hp); auto.
  { intros [[[k v] ek] ev]. reflexivity. }
  { apply ditem_lt_by_key. exact Hk1. }
  { intros x y _ _ _. reflexivity. }
  assert (Hdo : dict_order md5 its = Some (map dproj s)) by (unfold dict_order; rewrite Hs; reflexivity).
  rewrite Hdo.
  assert (Hnk : map f its = map nkv items).
  { unfold its. rewrite map_map. apply map_ext. intros [k x]. reflexivity. }
  assert (Hsortk : sortk (map nkv items) = map f s) by (unfold sortk; rewrite <- Hnk, Hs'; reflexivity).
  rewrite Hsortk.
  (* every sorted item is an original item: its encoders push [k; normv v] *)
  assert (HF : Forall2 (HashEncInj.encodes_as) (map pair_encoder (map dproj s))
                       (map (fun it : ditem => [fst (f it); snd (f it)]) s)).
  { assert (Hin : forall it, In it s -> In it its) by (intros it Hi; eapply Permutation_in; eauto).
    clear - Hin IH Hg Hpl. induction s as [|it s IHs]; cbn [map]; constructor.
    - assert (Hi : In it its) by (apply Hin; left; reflexivity).
      unfold its in Hi. apply in_map_iff in Hi. destruct Hi as ([k x] & <- & Hkx).
      rewrite Forall_forall in IH, Hg, Hpl. destruct (IH _ Hkx) as [IHk IHx]. cbn [fst snd] in *.
      assert (Pk : plain k) by (apply Hpl; apply in_map_iff; exists (k, x); auto).
      pose proof (IHk (plain_good k Pk)) as Ek. pose proof (IHx (Hg _ Hkx)) as Ex.
      intros m Hm. unfold pair_encoder, mk_ditem, dproj, f. cbn [fst snd].
      destruct (Ek m Hm) as (ok & m1 & E1 & P1 & W1). rewrite (normv_plain k Pk) in P1.
      destruct (Ex m1 W1) as (ox & m2 & E2 & P2 & W2). rewrite E1, E2.
      eexists _, m2. split; [reflexivity|]. split; [|exact W2].
      eapply (pushes_app ok ox [k] [normv x]); eassumption.
    - apply IHs. intros it' Hi. apply Hin. right. exact Hi. }
  destruct (run_seq_chain _ _ HF m1 W1) as (os & m2 & E & C & W2). rewrite E.
  eexists _, m2. split; [reflexivity|]. split; [|exact W2].
  intros s0. subst p. cbn [run app].
  replace (step OEmptyDict (St s0 m)) with (Some (St (SV (VDict []) :: s0) m)) by reflexivity.
  rewrite step_put_val.
  assert (ES : St (SV (VDict []) :: s0) m = St (SV (VDict []) :: s0) m1) by (subst m1; reflexivity).
  rewrite ES, (batch_dict os _ m1 m2 [] s0 C).
  - rewrite pairs_tot_concat. cbn [app map rev].
    replace (map (fun x : ditem => (fst (f x), snd (f x))) s) with (map f s); [reflexivity|].
    apply map_ext. intros it. destruct (f it); reflexivity.
  - clear. induction s; cbn [map]; constructor; auto. eexists _, _. reflexivity.
Qed.

Theorem good_encodes : forall v, good v -> encodes v.
Proof.
  apply (value_ind' (fun v => good v -> encodes v)).
  - intros _. unfold HashEncInj.encodes, encodes_as. cbn [HashEnc.enc normv]. apply (push1 ONone VNone). reflexivity.
  - intros b _. unfold HashEncInj.encodes, encodes_as. cbn [HashEnc.enc normv]. destruct b; [apply (push1 OTrue (VBool true))|apply (push1 OFalse (VBool false))]; reflexivity.
  - intros z _. unfold HashEncInj.encodes, encodes_as. cbn [HashEnc.enc normv]. unfold enc_int.
    destruct ((0 <=? z) && (z <=? 255)); [apply (push1 (OBinInt1 z) (VInt z)); reflexivity|].
    destruct ((0 <=? z) && (z <=? 65535)); [apply (push1 (OBinInt2 z) (VInt z)); reflexivity|].
    destruct ((-2147483648 <=? z) && (z <=? 2147483647)); [apply (push1 (OBinInt z) (VInt z)); reflexivity|].
    destruct (zlen (encode_long z) <? 256).
    + apply (push1 (OLong1 (encode_long z)) (VInt z)). intros s m. cbn [step]. rewrite dec_enc_long. reflexivity.
    + apply (push1 (OLong4 (encode_long z)) (VInt z)). intros s m. cbn [step]. rewrite dec_enc_long. reflexivity.
  - intros b _. unfold HashEncInj.encodes, encodes_as. cbn [HashEnc.enc normv]. apply (push1 (OBinFloat b) (VFloat b)). reflexivity.
  - intros u _. unfold HashEncInj.encodes, encodes_as. cbn [HashEnc.enc normv enc_str]. apply (push1 (OBinUnicode u) (VStr u)). reflexivity.
  - intros b _. unfold HashEncInj.encodes, encodes_as. cbn [HashEnc.enc normv]. unfold enc_bytes.
    destruct (zlen b <=? 255); [apply (push1 (OShortBinBytes b) (VBytes b))|apply (push1 (OBinBytes b) (VBytes b))]; reflexivity.
  - intros l IH G. apply encodes_tuple. rewrite good_VTuple in G. rewrite Forall_forall in *. intros x Hx. apply IH; auto.
  - intros l IH G. apply encodes_list. rewrite good_VList in G. rewrite Forall_forall in *. intros x Hx. apply IH; auto.
  - intros items IH G. rewrite good_VDict in G. destruct G as [Hk Hg]. apply encodes_dict; auto.
  - intros l IH G. unfold HashEncInj.encodes. rewrite enc_VSet. apply (encodes_set false); auto.
  - intros l IH G. unfold HashEncInj.encodes. rewrite enc_VFrozenSet. apply (encodes_set true); auto.
Qed.
End Enc2.

(* ---------------------------------------------------------------- canonical form vs veq *)
Lemma sorte_perm l : key_order_ok l -> Permutation l (sorte l).
Proof.
  intros Hk. assert (Hkid : key_order_ok (map (fun x : value => x) l)) by (rewrite map_id; exact Hk).
  destruct (keyed_spec (fun x : value => x) py_lt l Hkid) as (s & Hs & _ & Hp).
  { intros x y _ _ _. reflexivity. }
  unfold sorte. rewrite Hs. apply Permutation_sym. exact Hp.
Qed.

Lemma sortk_perm l : key_order_ok (map fst l) -> Permutation l (sortk l).
Proof.
  intros Hk. destruct (keyed_spec (fst : value * value -> value) kv_lt l Hk) as (s & Hs & _ & Hp).
  { intros x y _ _ _. reflexivity. }
  unfold sortk. rewrite Hs. apply Permutation_sym. exact Hp.
Qed.

Lemma normv_veq : forall v, good v -> veq v (normv v).
Proof.
  apply (value_ind' (fun v => good v -> veq v (normv v))); try (intros; apply veq_refl).
  - intros l IH G. rewrite normv_VTuple. apply veq_tuple. rewrite good_VTuple in G.
    induction l as [|x t IHt]; cbn [map]; constructor; inversion IH; inversion G; subst; auto.
  - intros l IH G. rewrite normv_VList. apply veq_list. rewrite good_VList in G.
    induction l as [|x t IHt]; cbn [map]; constructor; inversion IH; inversion G; subst; auto.
  - intros items IH G. rewrite normv_VDict. rewrite good_VDict in G. destruct G as [[_ Hk] Hg].
    eapply veq_trans; [apply (veq_dict_vals items (map nkv items))|apply veq_dict_perm, sortk_perm].
    + clear Hk. induction items as [|[k x] t IHt]; cbn [map]; constructor; inversion IH; inversion Hg; subst.
      * cbn [nkv fst snd] in *. split; [reflexivity|]. tauto.
      * apply IHt; auto.
    + rewrite map_map. cbn [nkv fst]. exact Hk.
  - intros l _ G. cbn [normv good] in *. apply veq_set_perm, sorte_perm. apply G.
  - intros l _ G. cbn [normv good] in *. apply veq_fset_perm, sorte_perm. apply G.
Qed.

Definition same_kind (a b : value) : Prop :=
  match a, b with
  | VNone, VNone | VBool _, VBool _ | VInt _, VInt _ | VFloat _, VFloat _ | VStr _, VStr _ | VBytes _, VBytes _
  | VTuple _, VTuple _ | VList _, VList _ | VDict _, VDict _ | VSet _, VSet _ | VFrozenSet _, VFrozenSet _ => True
  | _, _ => False
  end.

Lemma veq_same_kind a b : veq a b -> same_kind a b.
Proof.
  revert a b. apply veq_ind'; try (intros; exact I).
  - intros v. destruct v; exact I.
  - intros a b _ H. destruct a, b; cbn in *; auto.
  - intros a b c _ H1 _ H2. destruct a, b; cbn in H1; try contradiction; destruct c; cbn in *; auto.
Qed.

(* ---------------------------------------------------------------- injectivity of the byte stream *)
Section Final.
Variable md5 : list byte -> list byte.

(* every length / int / memo index of the stream fits the field the protocol gives it *)
Definition fits (v : value) : Prop := forall ops, enc_top_ops md5 v = Some ops -> Forall op_wf ops.

Lemma enc_top_decode v : good v -> exists ops m',
  enc md5 v memo0 = Some (ops, m') /\ run ops (St [] memo0) = Some (St [SV (normv v)] m').
Proof.
  intros G. destruct (good_encodes md5 v G memo0 memo_wf0) as (ops & m' & E & P & _).
  exists ops, m'. split; [exact E|]. apply (P []).
Qed.

Theorem enc_top_total a : good a -> enc_top md5 a <> None.
Proof.
  intros G. destruct (enc_top_decode a G) as (ops & m' & E & _).
  unfold enc_top, enc_top_ops. rewrite E. discriminate.
Qed.

Theorem enc_top_inj a b s : good a -> good b -> fits a -> fits b ->
  enc_top md5 a = Some s -> enc_top md5 b = Some s -> veq a b.
Proof.
  intros Ga Gb Fa Fb Ha Hb.
  destruct (enc_top_decode a Ga) as (oa & ma & Ea & Ra). destruct (enc_top_decode b Gb) as (ob & mb & Eb & Rb).
  assert (Ha' : enc_top_ops md5 a = Some (OProto :: oa ++ [OStop])) by (unfold enc_top_ops; rewrite Ea; reflexivity).
  assert (Hb' : enc_top_ops md5 b = Some (OProto :: ob ++ [OStop])) by (unfold enc_top_ops; rewrite Eb; reflexivity).
  unfold enc_top in Ha, Hb. rewrite Ha' in Ha. rewrite Hb' in Hb. injection Ha as Ha. injection Hb as Hb.
  assert (Hops : OProto :: oa ++ [OStop] = OProto :: ob ++ [OStop]).
  { apply ser_all_inj; [apply Fa; exact Ha'|apply Fb; exact Hb'|transitivity s; [exact Ha|symmetry; exact Hb]]. }
  injection Hops as Hops. apply app_inj_tail in Hops. destruct Hops as [-> _].
  rewrite Ra in Rb. injection Rb as Hn _ _.
  eapply veq_trans; [apply normv_veq; exact Ga|]. rewrite Hn. apply veq_sym, normv_veq. exact Gb.
Qed.

Theorem enc_top_same_kind a b s : good a -> good b -> fits a -> fits b ->
  enc_top md5 a = Some s -> enc_top md5 b = Some s -> same_kind a b.
Proof. intros. apply veq_same_kind. eapply enc_top_inj; eauto. Qed.

Theorem types_list_tuple l s : good (VList l) -> fits (VList l) -> fits (VTuple l) ->
  enc_top md5 (VList l) = Some s -> enc_top md5 (VTuple l) <> Some s.
Proof.
  intros G F1 F2 H1 H2.
  assert (G2 : good (VTuple l)) by (rewrite good_VTuple; rewrite good_VList in G; exact G).
  exact (enc_top_same_kind _ _ _ G G2 F1 F2 H1 H2).
Qed.
End Final.

(* [fits] is satisfiable (and decidable by computation on a concrete value) *)
Lemma fits_example : forall md5, fits md5 (VDict [(VInt 300, VList [VInt (-5); VStr [97]]); (VInt 7, VSet [VInt 70000])]).
Proof.
  intros md5 ops H. vm_compute in H. injection H as <-. repeat constructor; cbn; try lia; auto.
Qed.

Definition inj_ex : value := VDict [(VInt 300, VList [VInt (-5); VStr [97]]); (VInt 7, VSet [VInt 70000])].
Lemma inj_example : good inj_ex /\ forall md5, fits md5 inj_ex.
Proof.
  split; [|exact fits_example].
  unfold inj_ex. rewrite good_VDict. split.
  - apply (JV.Proofs.HashEncKeys.ints_keys_ok [300; 7]).
    constructor; [cbn; intros [H|[]]; discriminate H|]. constructor; [intros []|constructor].
  - constructor; [cbn; tauto|]. constructor; [|constructor]. cbn [snd good].
    apply (JV.Proofs.HashEncKeys.ints_keys_ok [70000]). constructor; [intros []|constructor].
Qed.
