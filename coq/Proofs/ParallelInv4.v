(* M1 proofs, part 4: what the consumer receives (ordered mode), and the main C01 theorem. *)
From Coq Require Import List Bool Arith Lia PeanoNat.
Require Import JV.Model.ParallelCore JV.Proofs.ParallelLemmas JV.Proofs.ParallelInv1 JV.Proofs.ParallelTrk
               JV.Proofs.ParallelInv2 JV.Proofs.ParallelFrame2 JV.Proofs.ParallelInv3.
Import ListNotations.

Definition after_loop (ph : phase_t) : Prop := match ph with Draining _ | Finished => True | _ => False end.

Record Inv4 (s : st) : Prop := {
  o_out : mode (c s) = Ordered -> exception s = false -> abandoned s = false ->
          delivered s ++ pend_out s ++ concat (map (tasks_of s) (jobs s ++ rem_of s)) = concat (submitted s);
  o_exc_ab : exception s = true -> aborting s = true;
  o_drain_jobs : forall r, phase s = Draining r -> exception s = false -> jobs s = [];
  o_fin : phase s = Finished -> exception s = false -> jobs s = [] /\ pend_out s = [];
  o_drain_done : forall r, phase s = Draining r -> exception s = false -> forall t, In t r -> status_of s t = Done;
  o_fin_iter : after_loop (phase s) -> exception s = false -> iterating s = false;
  o_all_closed : after_loop (phase s) -> exception s = false -> forall t, is_cur s t = true -> In t (closed s)
}.

Definition Inv1234 (s : st) : Prop := Inv123 s /\ Inv4 s.

(* ---------------- when the counters agree, every batch of the call has completed ---------------- *)
Lemma all_current_closed s : Inv2 s -> exception s = false -> n_disp s <= n_comp s ->
  forall t, is_cur s t = true -> In t (closed s).
Proof.
  intros H2 Hx Hle t Hc. open2 H2.
  destruct (In_dec Nat.eq_dec t (closed s)) as [Hin|Hnin]; [exact Hin|exfalso].
  assert (Hto : In t (opens s)) by (apply opens_of_In; split; assumption).
  assert (Hz : sum_list (map (size_of s) (opens s)) = 0) by lia.
  apply sum_list_zero_all in Hz. rewrite Forall_forall in Hz.
  specialize (Hz (size_of s t) (in_map _ _ _ Hto)). unfold size_of in Hz.
  apply (Hne Hx t Hc). destruct (tasks_of s t); [reflexivity | discriminate].
Qed.

Lemma all_current_done s : Inv2 s -> exception s = false -> n_disp s <= n_comp s ->
  forall t, is_cur s t = true -> status_of s t = Done.
Proof.
  intros H2 Hx Hle t Hc. pose proof (all_current_closed s H2 Hx Hle t Hc) as Hin.
  destruct H2. auto.
Qed.

(* ---------------- tasks of old trackers are not affected by new trackers / status changes ---------------- *)
Lemma map_tasks_app_old tr k l : Forall (fun t => t < length tr) l ->
  map (tasks_in (tr ++ [k])) l = map (tasks_in tr) l.
Proof.
  intros H. apply map_ext_in. intros t Ht. rewrite Forall_forall in H. apply tasks_in_app_old. apply H. exact Ht.
Qed.

Ltac open4 H := destruct H as [Oout Oxa Odj Ofin Odd Ofi Oac].

(* after the retrieval loop of a clean call the input is exhausted *)
Lemma after_loop_exhausted s : Inv3 s -> Inv4 s -> after_loop (phase s) -> exception s = false -> aborting s = false ->
  exhausted s.
Proof.
  intros H3 H4 Hal Hx Hab. open4 H4. destruct H3 as [Hid Hio Hpa Hf HJ Hen Hea].
  pose proof (Ofi Hal Hx) as Hit.
  destruct (pre (c s)) as [|n] eqn:Hp.
  - apply Hea; auto. destruct (phase s); try destruct Hal; exact I.
  - apply (Hen n); auto. destruct (phase s); try destruct Hal; exact I.
Qed.

Lemma inv4_dispatch s b fo s' r : Inv123 s -> Inv4 s -> 1 <= n_jobs (c s) -> 1 <= b ->
  (rem_of s = [] \/ after_loop (phase s)) -> dispatch_shape s b fo s' r -> Inv4 s'.
Proof.
  intros [[H1 H2] H3] H4 Hnj Hb Hremc Hsh.
  assert (Hnosub : after_loop (phase s) -> aborting s = false -> exception s = false -> s' = s \/ aborting s' = true).
  { intros Hal Hab Hx. eapply exhausted_no_dispatch; try eassumption. apply after_loop_exhausted; assumption. }
  assert (Hph := dispatch_shape_phase _ _ _ _ _ Hsh).
  inversion Hsh; subst; try exact H4.
  - (* from the look-ahead queue *)
    open4 H4. open2 H2.
    assert (Hnal : after_loop (phase s) -> False).
    { intros Hal. destruct (exception s) eqn:Hx.
      - pose proof (Oxa eq_refl). congruence.
      - destruct (Hnosub Hal ltac:(assumption) eq_refl) as [E | E].
        + apply (f_equal ready) in E. cbn in E. match goal with Hr : ready s = _ :: _ |- _ => rewrite Hr in E end.
          destruct r0; [discriminate | injection E as _ E; apply (f_equal (@length _)) in E; cbn in E; lia].
        + cbn in E. congruence. }
    assert (Hr0 : rem_of s = []) by (destruct Hremc as [A|A]; [exact A | destruct (Hnal A)]).
    assert (Vjobs := allcur_valid _ _ Hjobs).
    constructor; cbn [mode c exception abandoned delivered pend_out jobs phase submitted aborting iterating closed
                      submit_state do_submit upd_dispatch rem_of].
    + intros Hm Hx Hab. specialize (Oout Hm Hx Hab). rewrite Hr0, app_nil_r in Oout.
      unfold is_ordered, rem_of. cbn [c mode phase trk upd_dispatch submit_state do_submit]. rewrite Hm.
      unfold rem_of in Hr0. rewrite Hr0. rewrite !app_nil_r.
      rewrite tasks_of_fun. cbn [trk submit_state do_submit upd_dispatch]. rewrite map_app. cbn [map]. rewrite tasks_in_app_new. cbn [tk_tasks].
      rewrite map_tasks_app_old by exact Vjobs. rewrite concat_app. cbn [concat]. rewrite app_nil_r.
      rewrite (concat_app (submitted s)). cbn [concat]. rewrite app_nil_r.
      rewrite <- Oout. rewrite tasks_of_fun. rewrite !app_assoc. reflexivity.
    + exact Oxa.
    + intros r1 Hp. exfalso. apply Hnal. rewrite Hp. exact I.
    + intros Hp. exfalso. apply Hnal. rewrite Hp. exact I.
    + intros r1 Hp. exfalso. apply Hnal. rewrite Hp. exact I.
    + intros Hal. exfalso. exact (Hnal Hal).
    + intros Hal. exfalso. exact (Hnal Hal).
  - (* iterator failure *)
    open4 H4. constructor; cbn; try (intros; discriminate); auto.
    all: try (intros; match goal with H : true = false |- _ => discriminate H end).
  - (* a new slice *)
    open4 H4. open2 H2.
    assert (Hnal : after_loop (phase s) -> False).
    { intros Hal. destruct (exception s) eqn:Hx.
      - pose proof (Oxa eq_refl). congruence.
      - destruct (Hnosub Hal ltac:(assumption) eq_refl) as [E | E].
        + apply (f_equal taken) in E. cbn in E. lia.
        + cbn in E. congruence. }
    assert (Hr0 : rem_of s = []) by (destruct Hremc as [A|A]; [exact A | destruct (Hnal A)]).
    assert (Vjobs := allcur_valid _ _ Hjobs).
    constructor; cbn [mode c exception abandoned delivered pend_out jobs phase submitted aborting iterating closed
                      submit_state do_submit upd_dispatch rem_of].
    + intros Hm Hx Hab. specialize (Oout Hm Hx Hab). rewrite Hr0, app_nil_r in Oout.
      unfold is_ordered, rem_of. cbn [c mode phase trk upd_dispatch submit_state do_submit]. rewrite Hm.
      unfold rem_of in Hr0. rewrite Hr0. rewrite !app_nil_r.
      rewrite tasks_of_fun. cbn [trk submit_state do_submit upd_dispatch]. rewrite map_app. cbn [map]. rewrite tasks_in_app_new. cbn [tk_tasks].
      rewrite map_tasks_app_old by exact Vjobs. rewrite concat_app. cbn [concat]. rewrite app_nil_r.
      rewrite (concat_app (submitted s)). cbn [concat]. rewrite app_nil_r.
      rewrite <- Oout. rewrite tasks_of_fun. rewrite !app_assoc. reflexivity.
    + exact Oxa.
    + intros r1 Hp. exfalso. apply Hnal. rewrite Hp. exact I.
    + intros Hp. exfalso. apply Hnal. rewrite Hp. exact I.
    + intros r1 Hp. exfalso. apply Hnal. rewrite Hp. exact I.
    + intros Hal. exfalso. exact (Hnal Hal).
    + intros Hal. exfalso. exact (Hnal Hal).
Qed.

(* transformations that do not touch anything Inv4 talks about *)
Lemma inv4_same s s' : Inv4 s ->
  c s' = c s -> exception s' = exception s -> abandoned s' = abandoned s -> delivered s' = delivered s ->
  pend_out s' = pend_out s -> trk s' = trk s -> cid s' = cid s -> jobs s' = jobs s -> phase s' = phase s ->
  submitted s' = submitted s -> aborting s' = aborting s -> iterating s' = iterating s -> closed s' = closed s ->
  Inv4 s'.
Proof.
  intros H4 Ec Ex Ea Ed Ep Et Ei Ej Eph Es Eab Eit Ecl. open4 H4.
  constructor; unfold rem_of, is_cur; rewrite ?tasks_of_fun, ?status_of_fun;
    rewrite ?Ec, ?Ex, ?Ea, ?Ed, ?Ep, ?Et, ?Ei, ?Ej, ?Eph, ?Es, ?Eab, ?Eit, ?Ecl; auto.
Qed.
Ltac same4 := eapply inv4_same; [eassumption | reflexivity ..].

Lemma inv4_call s cf n f : Inv4 (do_call s cf n f).
Proof.
  constructor; cbn; auto; try discriminate; try (intros; contradiction).
  all: try (intros r H; discriminate H).
Qed.

(* flag updates inside _start, and the exhaustion update of a callback *)
Lemma inv4_flags s i o ph : Inv4 s -> (phase s = StartFirst \/ phase s = StartLoop) ->
  (ph = StartLoop \/ ph = Retrieving) -> Inv4 (set_flags s i o ph).
Proof.
  intros H4 Hs Hp. open4 H4.
  assert (Hr : rem_of s = []) by (unfold rem_of; destruct Hs as [-> | ->]; reflexivity).
  constructor; unfold rem_of; cbn [c exception abandoned delivered pend_out jobs phase submitted aborting iterating closed set_flags];
    rewrite ?tasks_of_fun, ?status_of_fun; cbn [trk set_flags]; auto.
  - intros A B C. specialize (Oout A B C). rewrite Hr in Oout. destruct Hp as [-> | ->]; exact Oout.
  - intros r E. destruct Hp as [-> | ->]; discriminate E.
  - intros E. destruct Hp as [-> | ->]; discriminate E.
  - intros r E. destruct Hp as [-> | ->]; discriminate E.
  - destruct Hp as [-> | ->]; intros [].
  - destruct Hp as [-> | ->]; intros [].
Qed.

Lemma inv4_exhaust s : Inv4 s -> Inv4 (set_flags s false false (phase s)).
Proof.
  intros H4. open4 H4.
  constructor; unfold rem_of, is_cur; cbn [c exception abandoned delivered pend_out jobs phase submitted aborting iterating closed set_flags];
    rewrite ?tasks_of_fun, ?status_of_fun; cbn [trk cid set_flags]; auto.
Qed.

Lemma inv4_end_start s : Inv4 s -> phase s = StartLoop -> Inv4 (end_start s).
Proof. intros H Hp. unfold end_start. apply inv4_flags; auto. Qed.

Lemma is_cur_set_status s t x u : cur_of (set_status s t x) (cid s) u = is_cur s u.
Proof. rewrite set_status_eq. unfold is_cur. apply cur_of_set_status. Qed.

Lemma inv4_cb_start s t o : Inv2 s -> Inv4 s -> Inv4 (cb_start s t o).
Proof.
  intros H2 H4. unfold cb_start.
  destruct (get_trk s t) as [k|] eqn:Hk; [|exact H4]. unfold get_trk in Hk.
  destruct (mem_id t (inflight s)) eqn:Hti; cbn [negb]; [|exact H4]. apply mem_id_In in Hti.
  destruct (negb (tk_cid k =? cid s) || aborting s) eqn:Hdrop; [same4|].
  apply orb_false_iff in Hdrop as [Hcur Hab]. apply negb_false_iff in Hcur.
  assert (Hct : is_cur s t = true) by (unfold is_cur, cur_of; rewrite Hk; exact Hcur).
  open4 H4. open2 H2.
  assert (Hxs : exception s = false) by (destruct (exception s); [specialize (Oxa eq_refl); congruence | reflexivity]).
  assert (Hnal : after_loop (phase s) -> False).
  { intros Hal. pose proof (Oac Hal Hxs t Hct) as Hin. destruct (Hclm t Hin) as [_ B]. exact (B Hti). }
  assert (Hst : tk_status k = Pending).
  { pose proof (Hip Hxs t Hti Hct) as A. unfold status_of, get_trk in A. rewrite Hk in A. exact A. }
  rewrite Hst. cbn [orb].
  constructor; unfold rem_of, is_cur;
    cbn [c exception abandoned delivered pend_out jobs phase submitted aborting iterating closed trk cid];
    rewrite ?tasks_of_fun, ?status_of_fun; cbn [trk cid].
  - intros Hm Hx Ha. rewrite Hxs in Hx. cbn [orb] in Hx.
    unfold is_ordered. rewrite Hm. rewrite set_status_eq.
    specialize (Oout Hm Hxs Ha). rewrite tasks_of_fun in Oout. rewrite <- Oout.
    do 3 f_equal. apply map_ext. intros u. apply tasks_in_set_status.
  - rewrite Hxs, Hab. cbn [orb]. auto.
  - intros r E. exfalso. apply Hnal. rewrite E. exact I.
  - intros E. exfalso. apply Hnal. rewrite E. exact I.
  - intros r E. exfalso. apply Hnal. rewrite E. exact I.
  - intros Hal. exfalso. exact (Hnal Hal).
  - intros Hal. exfalso. exact (Hnal Hal).
Qed.

Lemma inv4_cb_close s t k : Inv4 s -> Inv4 (mark_closed (add_comp s (length (tk_tasks k)) (remove_id t (cbmid s))) t).
Proof.
  intros H4. open4 H4.
  constructor; unfold rem_of, is_cur;
    cbn [c exception abandoned delivered pend_out jobs phase submitted aborting iterating closed trk cid mark_closed add_comp];
    rewrite ?tasks_of_fun, ?status_of_fun; cbn [trk cid mark_closed add_comp]; auto.
  intros Hal Hx u Hu. apply in_or_app. left. exact (Oac Hal Hx u Hu).
Qed.

(* ---------------- consumer side ---------------- *)
Ltac c4 := constructor; unfold rem_of, is_cur;
  cbn [c exception abandoned delivered pend_out jobs phase submitted aborting iterating closed trk cid
       finalize set_out deliver abandon do_timeout set_want];
  rewrite ?tasks_of_fun, ?status_of_fun;
  cbn [trk cid finalize set_out deliver abandon do_timeout set_want].

Lemma inv4_want s : Inv4 s -> Inv4 (set_want s).
Proof. intros H4. unfold set_want. same4. Qed.

(* any transition into Finished with the exception flag set *)
Lemma inv4_failed s s' : Inv4 s -> exception s' = true -> aborting s' = true -> Inv4 s'.
Proof.
  intros _ Hx Ha. constructor; rewrite ?Hx, ?Ha; auto; intros; discriminate.
Qed.

Lemma inv4_close_drain s r : Inv4 s -> phase s = Draining r ->
  Inv4 (abandon (set_out s (jobs s) (jset s) [] false Finished)).
Proof.
  intros H4 Hp. open4 H4. c4; auto; try discriminate.
  - intros _ Hx. split; [exact (Odj r Hp Hx) | reflexivity].
  - intros _. apply Ofi. rewrite Hp. exact I.
  - intros _. apply Oac. rewrite Hp. exact I.
Qed.

Lemma inv4_yield s v r : Inv4 s -> pend_out s = v :: r ->
  Inv4 (deliver (set_out s (jobs s) (jset s) r false (phase s)) v).
Proof.
  intros H4 Hp. open4 H4. c4; auto.
  - intros A B C. specialize (Oout A B C). unfold rem_of in Oout. rewrite Hp in Oout. rewrite tasks_of_fun in Oout.
    rewrite <- Oout. rewrite <- app_assoc. reflexivity.
  - intros E Hx. destruct (Ofin E Hx) as [_ A]. rewrite Hp in A. discriminate.
Qed.

Lemma inv4_loop_exit s : Inv2 s -> Inv4 s -> phase s = Retrieving -> pend_out s = [] ->
  (aborting s = true /\ first_failed s = None \/
   aborting s = false /\ iterating s = false /\ n_disp s <= n_comp s) ->
  Inv4 (finalize s (Draining (if exception s then [] else jobs s)) (exception s) false).
Proof.
  intros H2 H4 Hp Hpo Hc. open4 H4.
  assert (Hclean : exception s = false -> iterating s = false /\ n_disp s <= n_comp s).
  { intros Hx. destruct Hc as [[A _] | (_ & B & C)]; [|auto].
    pose proof (j_abexc s H2 A) as B. rewrite B in Hx. discriminate. }
  c4.
  - intros A B C. rewrite B. specialize (Oout A B C). unfold rem_of in Oout. rewrite Hpo, Hp in Oout. cbn [app] in *.
    rewrite app_nil_r in Oout. rewrite tasks_of_fun in Oout. exact Oout.
  - rewrite orb_false_r. exact Oxa.
  - reflexivity.
  - discriminate.
  - intros r E Hx t Hin. injection E as <-. rewrite Hx in Hin.
    destruct (Hclean Hx) as [_ Hle]. rewrite <- status_of_fun. apply (all_current_done s H2 Hx Hle).
    pose proof (j_jobs s H2) as Hj. unfold allcur in Hj. rewrite Forall_forall in Hj. apply Hj. exact Hin.
  - intros _ Hx. apply (Hclean Hx).
  - intros _ Hx t Hc'. destruct (Hclean Hx) as [_ Hle]. apply (all_current_closed s H2 Hx Hle t Hc').
Qed.

Lemma inv4_pop_done s j js : Inv4 s -> phase s = Retrieving -> pend_out s = [] -> jobs s = j :: js ->
  Inv4 (set_out s js (remove_id j (jset s)) (tasks_of s j) true Retrieving).
Proof.
  intros H4 Hp Hpo Hj. open4 H4. c4; auto; try discriminate.
  - intros A B C. specialize (Oout A B C). unfold rem_of in Oout. rewrite Hpo, Hp, Hj in Oout. cbn [app map concat] in *.
    rewrite tasks_of_fun in Oout. rewrite app_nil_r in *. exact Oout.
  - intros [].
  - intros [].
Qed.

Lemma inv4_drain_end s : Inv4 s -> phase s = Draining [] -> pend_out s = [] ->
  Inv4 (set_out s (jobs s) (jset s) [] false Finished).
Proof.
  intros H4 Hp Hpo. open4 H4. c4; auto; try discriminate.
  - intros A B C. specialize (Oout A B C). unfold rem_of in Oout. rewrite Hp, Hpo in Oout. exact Oout.
  - intros _ Hx. split; [exact (Odj [] Hp Hx) | reflexivity].
  - intros _. apply Ofi. rewrite Hp. exact I.
  - intros _. apply Oac. rewrite Hp. exact I.
Qed.

Lemma inv4_drain_pop s j js : Inv4 s -> phase s = Draining (j :: js) -> pend_out s = [] ->
  Inv4 (set_out s (jobs s) (jset s) (tasks_of s j) true (Draining js)).
Proof.
  intros H4 Hp Hpo. open4 H4. c4; auto.
  - intros A B C. specialize (Oout A B C). unfold rem_of in Oout. rewrite Hp, Hpo in Oout. rewrite (Odj _ Hp B) in *.
    cbn [app map concat] in *. rewrite tasks_of_fun in Oout. exact Oout.
  - intros r E. injection E as <-. exact (Odj _ Hp).
  - discriminate.
  - intros r E Hx t Hin. injection E as <-. rewrite <- status_of_fun. apply (Odd _ Hp Hx). right. exact Hin.
  - intros _. apply Ofi. rewrite Hp. exact I.
  - intros _. apply Oac. rewrite Hp. exact I.
Qed.

(* a pending or failed job in the drain list is impossible in a clean call *)
Lemma inv4_drain_bad s j js : Inv4 s -> phase s = Draining (j :: js) -> status_of s j <> Done ->
  Inv4 (set_out s (jobs s) (jset s) [] false Finished).
Proof.
  intros H4 Hp Hst. open4 H4.
  assert (Hx : exception s = true).
  { destruct (exception s) eqn:E; [reflexivity|]. exfalso. apply Hst. apply (Odd _ Hp eq_refl). left. reflexivity. }
  c4; rewrite ?Hx; auto; try discriminate; intros; discriminate.
Qed.

(* ---------------- all four invariant groups in every reachable state ---------------- *)
Lemma inv1234_init : Inv1234 init.
Proof.
  split; [exact inv123_init|]. constructor; cbn; auto; try discriminate; try (intros; contradiction).
Qed.

Lemma inv1234_call : forall s cf n f, Inv1234 s -> wf_cfg cf -> running s = false ->
  (phase s = Idle \/ phase s = Finished) -> Inv1234 (do_call s cf n f).
Proof.
  intros s cf n f [H123 H4] Hcf Hr Hp. split; [apply inv123_call; assumption | apply inv4_call].
Qed.

Lemma inv1234_start_first : forall s b s1 r, Inv1234 s -> 1 <= n_jobs (c s) -> 1 <= b -> phase s = StartFirst ->
  dispatch_shape s b false s1 r -> Inv1234 (start_first_next s1 r).
Proof.
  (* start_first *)
    intros s b s1 r [H123 H4] Hnj Hb Hph Hsh. split; [eapply inv123_start_first; eassumption|].
    assert (H4' : Inv4 s1).
    { eapply inv4_dispatch; try eassumption. left. unfold rem_of. rewrite Hph. reflexivity. }
    pose proof (dispatch_shape_phase _ _ _ _ _ Hsh) as Hp1. rewrite Hph in Hp1.
    unfold start_first_next.
    pose proof (inv4_flags s1 (if r then orig s1 else iterating s1) (orig s1) StartLoop H4' (or_introl Hp1) (or_introl eq_refl)) as Hf.
    destruct (aborting _); [apply inv4_end_start; [exact Hf | reflexivity] | exact Hf].
Qed.

Lemma inv1234_start_loop : forall s b s1 r, Inv1234 s -> 1 <= n_jobs (c s) -> 1 <= b -> phase s = StartLoop ->
  dispatch_shape s b false s1 r -> Inv1234 (start_loop_next s1 r).
Proof.
  (* start_loop *)
    intros s b s1 r [H123 H4] Hnj Hb Hph Hsh. split; [eapply inv123_start_loop; eassumption|].
    assert (H4' : Inv4 s1).
    { eapply inv4_dispatch; try eassumption. left. unfold rem_of. rewrite Hph. reflexivity. }
    pose proof (dispatch_shape_phase _ _ _ _ _ Hsh) as Hp1. rewrite Hph in Hp1.
    unfold start_loop_next. destruct r; [destruct (aborting s1)|]; try exact H4'; apply inv4_end_start; assumption.
Qed.

Lemma inv1234_cb_dispatch : forall s b s' r, Inv1234 s -> 1 <= n_jobs (c s) -> 1 <= b -> orig s = true ->
  closed s <> [] -> dispatch_shape s b true s' r -> Inv1234 s'.
Proof.
  (* dispatch from a callback *)
    intros s b s' r [H123 H4] Hnj Hb Ho Hcl Hsh. split; [eapply inv123_cb_dispatch; eassumption|].
    eapply inv4_dispatch; try eassumption.
    unfold rem_of. destruct (phase s); try (left; reflexivity); right; exact I.
Qed.

Lemma inv1234_cb_start : forall s t o, Inv1234 s -> Inv1234 (cb_start s t o).
Proof.
  intros s t o [H123 H4]. split; [apply inv123_cb_start; exact H123|].
    destruct H123 as [[_ H2] _]. apply inv4_cb_start; assumption.
Qed.

Lemma inv1234_cb_close : forall s t k, Inv1234 s -> nth_error (trk s) t = Some k -> In t (cbmid s) ->
  tk_cid k = cid s -> Inv1234 (mark_closed (add_comp s (length (tk_tasks k)) (remove_id t (cbmid s))) t).
Proof.
  intros s t k [H123 H4] Hk Hin Hc. split; [apply inv123_cb_close; assumption | apply inv4_cb_close; exact H4].
Qed.

Lemma inv1234_cb_stale : forall s t k, Inv1234 s -> nth_error (trk s) t = Some k -> In t (cbmid s) ->
  tk_cid k <> cid s -> Inv1234 (add_comp s 0 (remove_id t (cbmid s))).
Proof.
  intros s t k [H123 H4] Hk Hin Hc. split; [eapply inv123_cb_stale; eassumption | same4].
Qed.

Lemma inv1234_exhaust : forall s, Inv1234 s -> orig s = true -> closed s <> [] ->
  (aborting s = true \/ (ready s = [] /\ N s <= taken s)) -> Inv1234 (set_flags s false false (phase s)).
Proof.
  intros s [H123 H4] Ho Hcl Hx. split; [apply inv123_exhaust; assumption | apply inv4_exhaust; exact H4].
Qed.

Lemma inv1234_want : forall s, Inv1234 s -> Inv1234 (set_want s).
Proof.
  intros s [H123 H4]. split; [apply inv123_want; exact H123 | apply inv4_want; exact H4].
Qed.

Lemma inv1234_close_try : forall s, Inv1234 s -> phase s = Retrieving -> Inv1234 (abandon (finalize s Finished true true)).
Proof.
  intros s [H123 H4] Hp. split; [apply inv123_close_try; assumption|].
    eapply inv4_failed; [exact H4 | reflexivity | cbn; apply orb_true_r].
Qed.

Lemma inv1234_refuse : forall s b s1, Inv1234 s -> 1 <= n_jobs (c s) -> 1 <= b ->
  (phase s = StartFirst \/ phase s = StartLoop) -> dispatch_shape s b false s1 true ->
  Inv1234 (finalize s1 Finished true true).
Proof.
  intros s b s1 [H123 H4] Hnj Hb Hph Hsh. split; [eapply inv123_refuse; eassumption|].
  assert (H4' : Inv4 s1).
  { eapply inv4_dispatch; try eassumption. left. unfold rem_of. destruct Hph as [-> | ->]; reflexivity. }
  eapply inv4_failed; [exact H4' | reflexivity | cbn; apply orb_true_r].
Qed.

Lemma inv1234_close_drain : forall s r, Inv1234 s -> phase s = Draining r -> Inv1234 (abandon (set_out s (jobs s) (jset s) [] false Finished)).
Proof.
  intros s r [H123 H4] Hp. split; [eapply inv123_close_drain; eassumption | eapply inv4_close_drain; eassumption].
Qed.

Lemma inv1234_timeout : forall s j, Inv1234 s -> want s = true -> timeout_target s = Some j -> status_of s j = Pending ->
  Inv1234 (do_timeout s j).
Proof.
  intros s j [H123 H4] Hw Ht Hst. split; [apply inv123_timeout; assumption|].
    eapply inv4_failed; [exact H4 | reflexivity | reflexivity].
Qed.

Lemma inv1234_yield : forall s v r, Inv1234 s -> pend_out s = v :: r ->
  Inv1234 (deliver (set_out s (jobs s) (jset s) r false (phase s)) v).
Proof.
  intros s v r [H123 H4] Hp. split; [eapply inv123_yield; eassumption | apply inv4_yield; assumption].
Qed.

Lemma inv1234_raise_fast : forall s e, Inv1234 s -> phase s = Retrieving -> pend_out s = [] -> aborting s = true ->
  first_failed s = Some e -> Inv1234 (finalize s Finished true true).
Proof.
  intros s e [H123 H4] Hp Hpo Hab Hff. split; [eapply inv123_raise_fast; eassumption|].
    eapply inv4_failed; [exact H4 | reflexivity | cbn; apply orb_true_r].
Qed.

Lemma inv1234_loop_exit : forall s, Inv1234 s -> phase s = Retrieving -> pend_out s = [] ->
  (aborting s = true /\ first_failed s = None \/
   aborting s = false /\ iterating s = false /\ n_disp s <= n_comp s) ->
  Inv1234 (finalize s (Draining (if exception s then [] else jobs s)) (exception s) false).
Proof.
  intros s [H123 H4] Hp Hpo Hc. split; [apply inv123_loop_exit; assumption|].
    destruct H123 as [[_ H2] _]. apply inv4_loop_exit; assumption.
Qed.

Lemma inv1234_pop_done : forall s j js, Inv1234 s -> phase s = Retrieving -> pend_out s = [] -> aborting s = false ->
  jobs s = j :: js -> status_of s j = Done ->
  Inv1234 (set_out s js (remove_id j (jset s)) (tasks_of s j) true Retrieving).
Proof.
  intros s j js [H123 H4] Hp Hpo Hab Hj Hst. split; [eapply inv123_pop_done; eassumption | apply inv4_pop_done; assumption].
Qed.

Lemma inv1234_pop_failed : forall s j js e, Inv1234 s -> phase s = Retrieving -> pend_out s = [] -> aborting s = false ->
  jobs s = j :: js -> status_of s j = Failed e ->
  Inv1234 (finalize (set_out s js (remove_id j (jset s)) [] true Retrieving) Finished true true).
Proof.
  intros s j js e [H123 H4] Hp Hpo Hab Hj Hst. split; [eapply inv123_pop_failed; eassumption|].
    eapply inv4_failed; [exact H4 | reflexivity | cbn; apply orb_true_r].
Qed.

Lemma inv1234_drain_end : forall s, Inv1234 s -> phase s = Draining [] -> pend_out s = [] ->
  Inv1234 (set_out s (jobs s) (jset s) [] false Finished).
Proof.
  intros s [H123 H4] Hp Hpo. split; [apply inv123_drain_end; assumption | apply inv4_drain_end; assumption].
Qed.

Lemma inv1234_drain_pop : forall s j js, Inv1234 s -> phase s = Draining (j :: js) -> pend_out s = [] ->
  status_of s j = Done -> Inv1234 (set_out s (jobs s) (jset s) (tasks_of s j) true (Draining js)).
Proof.
  intros s j js [H123 H4] Hp Hpo Hst. split; [eapply inv123_drain_pop; eassumption | apply inv4_drain_pop; assumption].
Qed.

Lemma inv1234_drain_bad : forall s j js, Inv1234 s -> phase s = Draining (j :: js) -> pend_out s = [] ->
  status_of s j <> Done -> Inv1234 (set_out s (jobs s) (jset s) [] false Finished).
Proof.
  intros s j js [H123 H4] Hp Hpo Hst. split; [eapply inv123_drain_bad; eassumption | eapply inv4_drain_bad; eassumption].
Qed.

Lemma inv1234_wf : forall s, Inv1234 s -> 1 <= n_jobs (c s).
Proof.
  intros s [H123 _]. apply inv123_wf. exact H123.
Qed.

Theorem reach_inv1234 : forall s, reach s -> Inv1234 s.
Proof.
  apply (ParallelFrame2.P_reach Inv1234).
  - exact inv1234_init.
  - exact inv1234_call.
  - exact inv1234_start_first.
  - exact inv1234_start_loop.
  - exact inv1234_cb_dispatch.
  - exact inv1234_cb_start.
  - exact inv1234_cb_close.
  - exact inv1234_cb_stale.
  - exact inv1234_exhaust.
  - exact inv1234_want.
  - exact inv1234_close_try.
  - intros s b s1 H Hnj Hb Hph Hsh. eapply inv1234_refuse; eauto.
  - intros s b s1 H Hnj Hb Hph Hsh. eapply inv1234_refuse; eauto.
  - exact inv1234_close_drain.
  - exact inv1234_timeout.
  - exact inv1234_yield.
  - exact inv1234_raise_fast.
  - exact inv1234_loop_exit.
  - exact inv1234_pop_done.
  - exact inv1234_pop_failed.
  - exact inv1234_drain_end.
  - exact inv1234_drain_pop.
  - exact inv1234_drain_bad.
  - exact inv1234_wf.
Qed.

(* ---------------- Theorem E: the results of a call ---------------- *)
(* In ordered mode, as long as nothing failed and the consumer did not abandon the generator, what has
   been delivered so far is a prefix of the sequential results ... *)
Theorem ordered_output_is_prefix s : reach s -> mode (c s) = Ordered -> ifail s = None ->
  exception s = false -> abandoned s = false ->
  exists rest, delivered s ++ rest = seq 0 (taken s) /\ taken s <= N s.
Proof.
  intros Hr Hm Hi Hx Ha. destruct (reach_inv1234 s Hr) as [[[H1 H2] H3] H4].
  destruct H1 as [_ Hpart Hle _ _]. destruct H4 as [Oout _ _ _ _ _ _].
  specialize (Oout Hm Hx Ha). specialize (Hpart Hi).
  exists (pend_out s ++ concat (map (tasks_of s) (jobs s ++ rem_of s)) ++ concat (ready s)).
  split; [|exact Hle]. rewrite <- Hpart, <- Oout. rewrite <- !app_assoc. reflexivity.
Qed.

(* ... and when the generator is exhausted normally, it is exactly the sequential results. *)
Theorem ordered_output_complete s : reach s -> mode (c s) = Ordered -> ifail s = None ->
  phase s = Finished -> exception s = false -> abandoned s = false ->
  delivered s = seq 0 (N s).
Proof.
  intros Hr Hm Hi Hp Hx Ha. destruct (reach_inv1234 s Hr) as [[[H1 H2] H3] H4].
  assert (Hab : aborting s = false).
  { destruct (aborting s) eqn:E; [|reflexivity]. rewrite (j_abexc s H2 E) in Hx. discriminate. }
  assert (Hex : exhausted s).
  { apply after_loop_exhausted; auto. rewrite Hp. exact I. }
  destruct Hex as [Hrd Htk].
  destruct H1 as [_ Hpart _ _ _]. destruct H4 as [Oout _ _ Ofin _ _ _].
  specialize (Oout Hm Hx Ha). specialize (Hpart Hi). destruct (Ofin Hp Hx) as [Hj Hpo].
  unfold rem_of in Oout. rewrite Hp, Hj, Hpo in Oout. cbn in Oout. rewrite app_nil_r in Oout.
  rewrite Hrd in Hpart. cbn in Hpart. rewrite app_nil_r in Hpart. rewrite Oout, Hpart, Htk. reflexivity.
Qed.
