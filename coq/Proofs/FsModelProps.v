(* M5, part 6: the statements the property files quote, and the witnesses of the refuted ones. *)
From Coq Require Import ZArith List Bool Lia.
Require Import JV.Base.PyPrelude JV.Model.FsModel JV.Proofs.FsModelBase JV.Proofs.FsModelRG
               JV.Proofs.FsModelWf JV.Proofs.FsModelSeq JV.Proofs.FsModelThm.
Import ListNotations.
Open Scope Z_scope.

Section P.
Variable pickle : Z -> bytes.
Variable unpickle : bytes -> option Z.
Variable meta : bytes.
Variable parse_meta : bytes -> bool.
Variable code : Z -> bytes.
Variable code_eq : bytes -> Z -> bool.
Variable decodes : bytes -> bool.
Variable gitbytes : bytes.
Variable f : Z -> Z -> Z.

Notation sess := (sess pickle unpickle meta parse_meta code code_eq decodes gitbytes f).
Notation session := (session pickle unpickle meta parse_meta code code_eq decodes gitbytes f).
Notation InvA := (InvA pickle meta).
Notation InvB := (InvB pickle meta code f).

Lemma atomic_global : forall (sps : list spec) evs s,
  NoDup (map spec_tid sps) -> InvA s ->
  InvA (fst (grun evs (s, map (fun sp => Some (sess sp)) sps))).
Proof.
  intros sps evs s Hnd H.
  destruct (global_A pickle unpickle meta parse_meta code code_eq decodes gitbytes f sps evs s Hnd H) as [[HI _] _].
  exact HI.
Qed.

Lemma fresh_global : forall cur (sps : list spec) evs s,
  NoDup (map spec_tid sps) -> Forall (same_version cur) sps -> InvB cur s ->
  InvB cur (fst (grun evs (s, map (fun sp => Some (sess sp)) sps))).
Proof.
  intros cur sps evs s Hnd Hv H.
  destruct (global_B pickle unpickle meta parse_meta code code_eq decodes gitbytes f cur sps evs s Hnd Hv H) as [[HI _] _].
  exact HI.
Qed.

Lemma values_global : forall cur (sps : list spec) evs s i sp outs,
  (forall v, unpickle (pickle v) = Some v) ->
  NoDup (map spec_tid sps) -> Forall (same_version cur) sps -> InvB cur s ->
  nth_error sps i = Some sp ->
  nth_error (snd (grun evs (s, map (fun sp => Some (sess sp)) sps))) i = Some (Some (Ret outs)) ->
  (exists e, outs = [OExn e]) \/ Forall2 (call_ok f cur) (spec_acts sp) outs.
Proof.
  intros cur sps evs s i sp outs Hup Hnd Hv H Hsp Hout.
  pose proof (global_B pickle unpickle meta parse_meta code code_eq decodes gitbytes f cur sps evs s Hnd Hv H) as HG.
  eapply sessok_B; eauto.
  eapply ginv_result; [exact HG | | exact Hout].
  rewrite nth_error_map, Hsp; reflexivity.
Qed.

Lemma single_winner_global : forall cur (sps : list spec) evs s k b,
  NoDup (map spec_tid sps) -> Forall (same_version cur) sps -> InvB cur s ->
  (lookup (POut k) (fst (grun evs (s, map (fun sp => Some (sess sp)) sps))) = Some b -> b = pickle (f cur k)) /\
  (lookup (PMeta k) (fst (grun evs (s, map (fun sp => Some (sess sp)) sps))) = Some b -> b = meta).
Proof.
  intros cur sps evs s k b Hnd Hv H.
  destruct (fresh_global cur sps evs s Hnd Hv H) as (_ & HO & HM & _). split; intros Hl; eauto.
  - apply (HO k b Hl).
  - apply (HM k b Hl).
Qed.

Lemma recover_after_crash : forall cur sp n torn s t cb ks,
  (forall v, unpickle (pickle v) = Some v) -> (forall j, decodes (firstn j (code cur)) = true) ->
  same_version cur sp -> InvB cur s ->
  let s' := crash_run (sess sp) n torn s in
  Forall2 (fun k o => exists c, o = OVal (f cur k) c) ks (fst (run (session cur t cb (map ACall ks)) s')) /\
  InvB cur (snd (run (session cur t cb (map ACall ks)) s')).
Proof.
  intros cur sp n torn s t cb ks Hup Hdec Hv H s'.
  apply recover_B; auto. apply crash_B; auto.
Qed.

Lemma recover_after_history : forall cur (sps : list spec) evs s t cb ks,
  (forall v, unpickle (pickle v) = Some v) -> (forall j, decodes (firstn j (code cur)) = true) ->
  NoDup (map spec_tid sps) -> Forall (same_version cur) sps -> InvB cur s ->
  let s' := fst (grun evs (s, map (fun sp => Some (sess sp)) sps)) in
  Forall2 (fun k o => exists c, o = OVal (f cur k) c) ks (fst (run (session cur t cb (map ACall ks)) s')) /\
  InvB cur (snd (run (session cur t cb (map ACall ks)) s')).
Proof.
  intros cur sps evs s t cb ks Hup Hdec Hnd Hv H s'.
  apply recover_B; auto. apply fresh_global; auto.
Qed.

Lemma readers_complete : forall (sps : list spec) evs s k,
  NoDup (map spec_tid sps) -> InvA s ->
  let s' := fst (grun evs (s, map (fun sp => Some (sess sp)) sps)) in
  match fst (exec (ReadAll (POut k)) s') with
  | RBytes b => exists v, b = pickle v | RErr e => e = ENOENT | _ => False end /\
  match fst (exec (ReadAll (PMeta k)) s') with
  | RBytes b => b = meta | RErr e => e = ENOENT | _ => False end.
Proof.
  intros sps evs s k Hnd H s'. destruct (atomic_global sps evs s Hnd H) as (_ & HO & HM & _). fold s' in HO, HM.
  simpl. split.
  - destruct (lookup (POut k) s') eqn:E; simpl; auto. apply (HO k b E).
  - destruct (lookup (PMeta k) s') eqn:E; simpl; auto. apply (HM k b E).
Qed.

Lemma InvB_empty : forall cur, InvB cur [].
Proof. intros cur. repeat split; intros *; simpl; try discriminate. Qed.

Lemma InvA_empty : InvA [].
Proof. repeat split; intros *; simpl; try discriminate. Qed.
End P.

Lemma writer_id_inj : forall pid th pid' th',
  0 <= th < 18446744073709551616 -> 0 <= th' < 18446744073709551616 ->
  writer_id pid th = writer_id pid' th' -> pid = pid' /\ th = th'.
Proof. unfold writer_id. intros. lia. Qed.

Lemma NoDup_writer_ids : forall (l : list (Z * Z)),
  (forall pt, In pt l -> 0 <= snd pt < 18446744073709551616) -> NoDup l ->
  NoDup (map (fun pt => writer_id (fst pt) (snd pt)) l).
Proof.
  induction l as [|[p t] tl IH]; intros Hb Hnd; simpl; constructor.
  - inversion Hnd as [|? ? Hnin _]; subst. intros Hin. apply in_map_iff in Hin.
    destruct Hin as ([p' t'] & E & Hin'). simpl in E.
    apply writer_id_inj in E; [|apply (Hb (p', t')); right; auto | apply (Hb (p, t)); left; auto].
    destruct E; subst. contradiction.
  - inversion Hnd; subst. apply IH; auto. intros pt Hpt; apply Hb; right; auto.
Qed.

(* ------------------------------------------------------------- witnesses *)
Definition toy_s1 : fs := snd (run (Toy.session 1 1 None [ACall 1; ACall 2]) []).

(* F23: crash inside rmtree(func_dir) of the source-change clear, right after unlink(func_code.py) *)
Definition f23_crashed : fs := crash_run (Toy.session 2 2 None [ACall 1]) 3 None toy_s1.
Lemma f23_witness :
  lookup PCode f23_crashed = None /\ lookup (POut 2) f23_crashed = Some (Toy.pickle (Toy.f 1 2)) /\
  fst (run (Toy.session 2 3 None [ACall 1; ACall 2]) f23_crashed) = [OVal (Toy.f 2 1) true; OVal (Toy.f 1 2) false] /\
  Toy.f 1 2 <> Toy.f 2 2.
Proof. vm_compute. repeat split; try reflexivity. discriminate. Qed.

(* F24: func_code.py torn inside a two-byte utf-8 character *)
Definition f24_crashed : fs := crash_run (Toy.session 100 1 None [ACall 1]) 7 (Some 3%nat) [].
Lemma f24_witness :
  lookup PCode f24_crashed = Some (firstn 3 (Toy.code 100)) /\
  Toy.decodes (firstn 3 (Toy.code 100)) = false /\
  fst (run (Toy.session 100 2 None [ACall 1]) f24_crashed) = [OExn ValueError].
Proof. vm_compute. repeat split; reflexivity. Qed.

(* F14: a first call racing with Memory.clear() of another process *)
Definition f14_sched : list event :=
  repeat (Run 1%nat) 12 ++ repeat (Run 0%nat) 6 ++ repeat (Run 1%nat) 40 ++ repeat (Run 0%nat) 40.
Definition f14_specs : list spec := [(1, 5, None, [ACall 1]); (1, 6, None, [AClear])].
Definition toy_sess (sp : spec) :=
  Toy.session (spec_ver sp) (spec_tid sp) (spec_cb sp) (spec_acts sp).
Lemma f14_witness :
  snd (grun f14_sched (toy_s1, map (fun sp => Some (toy_sess sp)) f14_specs))
  = [Some (Ret [OExn FileNotFoundError]); Some (Ret [ODone])].
Proof. vm_compute. reflexivity. Qed.

(* F14c: a call whose func_code.py vanished rebuilds the function directory while the clearer removes its parent *)
Definition f14c_sched : list event :=
  repeat (Run 0%nat) 6 ++ repeat (Run 1%nat) 20 ++ repeat (Run 0%nat) 4 ++ [Run 1%nat] ++ repeat (Run 0%nat) 60 ++ repeat (Run 1%nat) 20.
Definition f14c_specs : list spec := [(1, 5, None, [AReduce []; ACall 1]); (1, 6, None, [AClear])].
Lemma f14c_witness :
  snd (grun f14c_sched (toy_s1, map (fun sp => Some (toy_sess sp)) f14c_specs))
  = [Some (Ret [ODone; OExn FileNotFoundError]); Some (Ret [ODone])].
Proof. vm_compute. reflexivity. Qed.

Lemma toy_unpickle_pickle : forall v, Toy.unpickle (Toy.pickle v) = Some v.
Proof. intros v; reflexivity. Qed.

Lemma toy_decodes_prefix : forall v j, v < 100 -> Toy.decodes (firstn j (Toy.code v)) = true.
Proof.
  intros v j Hv. unfold Toy.code. destruct (100 <=? v) eqn:E; [apply Z.leb_le in E; lia|].
  destruct j as [|[|[|[|[|j]]]]]; try reflexivity;
    unfold Toy.decodes; cbn [firstn]; rewrite ?firstn_nil; cbn [rev app]; try reflexivity; apply negb_true_iff; apply Z.eqb_neq; lia.
Qed.
