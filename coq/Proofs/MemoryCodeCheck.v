(* Proofs about the decision procedure of _check_previous_func_code (Model/MemoryCodeCheck.v) and its link to
   check_code of Model/MemoryCore.v. *)
From Coq Require Import ZArith List Bool Arith.
Require Import JV.Base.PyPrelude JV.Model.MemoryCore JV.Model.MemoryCodeCheck JV.Proofs.MemoryCore.
Import ListNotations.

Section CodeCheckProofs.
  Context {src : Type}.
  Variable src_eqb : src -> src -> bool.
  Hypothesis src_eqb_spec : forall a b, src_eqb a b = true <-> a = b.

  (* "same code" is answered only when the stored text and the current text are EQUAL -- and always then *)
  Lemma decide_same_iff : forall (stored : option (stored_file src)) (c : current src),
    fst (decide src_eqb stored c) = Same <-> exists f, stored = Some f /\ body f = cur_code c.
  Proof.
    intros stored c. unfold decide. destruct stored as [f|]; cbn.
    - assert (E : extract_first_line f = (body f, snd (extract_first_line f))).
      { unfold extract_first_line. destruct (hdr f) as [[n|]|]; reflexivity. }
      rewrite E. destruct (src_eqb (body f) (cur_code c)) eqn:Eq; cbn.
      + apply src_eqb_spec in Eq. split; [intros _; exists f; auto | reflexivity].
      + split; [discriminate|]. intros [f' [H1 H2]]. inversion H1. subst f'.
        apply src_eqb_spec in H2. congruence.
    - split; [discriminate | intros [f [H _]]; discriminate].
  Qed.

  (* the function's directory is cleared exactly when a func_code.py exists whose text differs *)
  Lemma decide_changed_iff : forall (stored : option (stored_file src)) (c : current src),
    fst (decide src_eqb stored c) = Changed <-> exists f, stored = Some f /\ body f <> cur_code c.
  Proof.
    intros stored c. unfold decide. destruct stored as [f|]; cbn.
    - assert (E : extract_first_line f = (body f, snd (extract_first_line f))).
      { unfold extract_first_line. destruct (hdr f) as [[n|]|]; reflexivity. }
      rewrite E. destruct (src_eqb (body f) (cur_code c)) eqn:Eq; cbn.
      + apply src_eqb_spec in Eq. split; [discriminate|]. intros [f' [H1 H2]]. inversion H1. subst. contradiction.
      + split; [intros _; exists f; split; [reflexivity|] | reflexivity].
        intros H. apply src_eqb_spec in H. congruence.
    - split; [discriminate | intros [f [H _]]; discriminate].
  Qed.

  Lemma decide_first_write_iff : forall (stored : option (stored_file src)) (c : current src),
    fst (decide src_eqb stored c) = FirstWrite <-> stored = None.
  Proof.
    intros stored c. unfold decide. destruct stored as [f|]; cbn.
    - assert (E : extract_first_line f = (body f, snd (extract_first_line f))).
      { unfold extract_first_line. destruct (hdr f) as [[n|]|]; reflexivity. }
      rewrite E. destruct (src_eqb (body f) (cur_code c)); cbn; split; discriminate.
    - split; reflexivity.
  Qed.

  (* warnings never accompany "same" or a first write; entries survive unless the text changed *)
  Lemma decide_warnings_only_when_changed : forall (stored : option (stored_file src)) (c : current src),
    snd (decide src_eqb stored c) <> [] -> fst (decide src_eqb stored c) = Changed.
  Proof.
    intros stored c. unfold decide. destruct stored as [f|]; cbn; [|intros H; exfalso; apply H; reflexivity].
    destruct (extract_first_line f) as [oc ol]. destruct (src_eqb oc (cur_code c)); cbn; [|reflexivity].
    intros H; exfalso; apply H; reflexivity.
  Qed.

  (* after any run, func_code.py holds the current text (so the next run answers Same), and what was written
     is read back exactly by extract_first_line *)
  Lemma after_then_same : forall (stored : option (stored_file src)) (c : current src),
    fst (decide src_eqb (fst (after src_eqb stored c)) c) = Same.
  Proof.
    intros stored c. apply decide_same_iff. unfold after.
    destruct (fst (decide src_eqb stored c)) eqn:E; cbn.
    - apply decide_same_iff in E. exact E.
    - eexists. split; reflexivity.
    - eexists. split; reflexivity.
  Qed.

  Lemma written_read_back : forall c : current src,
    extract_first_line (written c) = (cur_code c, cur_line c).
  Proof. reflexivity. Qed.

  Lemma after_keeps_entries_iff : forall (stored : option (stored_file src)) (c : current src),
    snd (after src_eqb stored c) = false <-> fst (decide src_eqb stored c) = Changed.
  Proof.
    intros stored c. unfold after. destruct (fst (decide src_eqb stored c)); cbn; split; congruence.
  Qed.

End CodeCheckProofs.

(* ------------------------------------------------------------------ link to M4 (Model/MemoryCore.v) *)
Section Link.
  Context {call key_input digest binding kbinding value src : Type}.
  Variable C : cfg call key_input digest binding kbinding value src.

  (* func_code.py of the M4 state seen as a stored file (M4 keeps the text only) *)
  Definition stored_of (d : option src) : option (stored_file src) :=
    match d with Some s => Some {| hdr := Some (Some 0%Z); body := s |} | None => None end.

  Definition cur_of (s : src) : current src :=
    {| cur_code := s; cur_line := 0%Z; has_source_file := true; file_exists := true; is_doctest := false;
       is_lambda := false; disk_has_old := false |}.

  (* the slow path of check_code IS the decision procedure: same answer, same effect on func_code.py and entries *)
  Lemma check_code_slow_is_decide : forall (st : state call digest value src) k s st1,
    mem_nat k (table st) = false -> source_of C st k = Some (s, st1) ->
    check_code C st k =
      match fst (decide (src_eqb C) (stored_of (disk st1)) (cur_of s)) with
      | Same => Some (true, st1)
      | FirstWrite => Some (false, write_func_code C st1 k s (entries st1))
      | Changed => Some (false, write_func_code C st1 k s [])
      end.
  Proof.
    intros st k s st1 Ht Hs. unfold check_code. rewrite Ht, Hs.
    destruct (disk st1) as [old|]; cbn; [|reflexivity].
    destruct (src_eqb C old s); reflexivity.
  Qed.

  (* the fast path never consults func_code.py: whatever it holds, the answer is "same" *)
  Lemma check_code_fast_ignores_disk : forall (st : state call digest value src) k,
    mem_nat k (table st) = true -> check_code C st k = Some (true, st).
  Proof. intros st k H. unfold check_code. rewrite H. reflexivity. Qed.

End Link.
