(* The loops of joblib.func_inspect.filter_args, REGENERATED from the live source on every run
   (Gen/T_filter_args.v, harness/gen_c07.py), are equal to the hand-written model of Model/FilterArgs.v.
   This file is built separately from Props/C07.v: when the source changes shape the translator or these
   proofs fail, the check reports that the source tie is lost and relies on the behavioural tie alone. *)
From Coq Require Import ZArith List Bool.
Require Import JV.Base.PyPrelude JV.Model.FilterArgs JV.Gen.T_filter_args.
Import ListNotations.
Open Scope Z_scope.

Lemma scan_param_gen_eq st p : scan_param_gen st p = scan_param st p.
Proof. destruct st, p as [k n d]; destruct k, d; reflexivity. Qed.

Lemma named_step_gen_eq args kw ko dflts nlen i nm d :
  named_step_gen args kw ko dflts nlen i nm d = named_step args kw ko dflts nlen i nm d.
Proof.
  unfold named_step_gen, named_step, kw_mem, py_getitem.
  destruct (i <? len args); [destruct (negb (name_mem nm ko)); reflexivity|].
  destruct (kw_lookup nm kw); [reflexivity|].
  destruct (py_index dflts (i - nlen)) as [v|e]; [reflexivity | destruct e; reflexivity].
Qed.

(* the loops, re-assembled from the generated bodies *)
Fixpoint named_loop_gen (args : list value) (kw : list (name * value)) (ko : list name) (dflts : list value)
    (nlen : Z) (names : list name) (i : Z) (d : adict) : result adict :=
  match names with
  | [] => Ok d
  | nm :: t => bind (named_step_gen args kw ko dflts nlen i nm d) (named_loop_gen args kw ko dflts nlen t (i + 1))
  end.
Fixpoint kw_loop_gen (varkw : option name) (items : list (name * value)) (d : adict) (vk : list (name * value))
  : result (adict * list (name * value)) :=
  match items with
  | [] => Ok (d, vk)
  | (k, v) :: t => bind (kw_step_gen varkw k v d vk) (fun r => kw_loop_gen varkw t (fst r) (snd r))
  end.
Fixpoint ignore_loop_gen (ign : list key) (d : adict) : result adict :=
  match ign with
  | [] => Ok d
  | k :: t => bind (ignore_step_gen k d) (ignore_loop_gen t)
  end.

Lemma named_loop_gen_eq args kw ko dflts nlen names : forall i d,
  named_loop_gen args kw ko dflts nlen names i d = named_loop args kw ko dflts nlen names i d.
Proof.
  induction names as [|nm t IH]; intros i d; cbn [named_loop_gen named_loop]; [reflexivity|].
  rewrite named_step_gen_eq. destruct (named_step args kw ko dflts nlen i nm d); cbn [bind]; [apply IH | reflexivity].
Qed.

Lemma kw_loop_gen_eq varkw items : forall d vk, kw_loop_gen varkw items d vk = kw_loop varkw items d vk.
Proof.
  induction items as [|[k v] t IH]; intros d vk; cbn [kw_loop_gen kw_loop]; [reflexivity|].
  unfold kw_step_gen, is_some_name. destruct (dmem (KName k) d); cbn [bind fst snd]; [apply IH|].
  destruct varkw; cbn [bind fst snd]; [apply IH | reflexivity].
Qed.

Lemma ignore_loop_gen_eq ign : forall d, ignore_loop_gen ign d = ignore_loop ign d.
Proof.
  induction ign as [|k t IH]; intros d; cbn [ignore_loop_gen ignore_loop]; [reflexivity|].
  unfold ignore_step_gen. destruct (dmem k d); cbn [bind]; [apply IH | reflexivity].
Qed.

(* the model, with every loop body taken from the regenerated source *)
Definition filter_args_gen (s : sig) (ign : list key) (meth : option (name * value)) (c : call) : result adict :=
  let sc := fold_left scan_param_gen s (mkScan [] [] [] None None) in
  let kwargs := ckw c in
  let args := match meth with Some (_, sv) => sv :: cpos c | None => cpos c end in
  let arg_names := match meth with Some (sn, _) => sn :: sc_names sc | None => sc_names sc end in
  bind (named_loop_gen args kwargs (sc_kwonly sc) (sc_defaults sc) (len arg_names) arg_names 0 [])
    (fun d1 =>
       let arg_position := len arg_names - 1 in
       bind (kw_loop_gen (sc_varkw sc) (sort_by fst kwargs) d1 [])
         (fun d2vk =>
            let set_kw d := match sc_varkw sc with Some _ => dset KStarStar (VDict (snd d2vk)) d | None => d end in
            let set_star d := match sc_varargs sc with
                              | Some _ => dset KStar (VTuple (py_slice_from args (arg_position + 1))) d
                              | None => d end in
            let d4 := fold_left (fun d o => if o =? 1 then set_kw d else if o =? 2 then set_star d else d)
                                tail_order_gen (fst d2vk) in
            ignore_loop_gen ign d4)).

(* the test that sends a callable to the {'*': args, '**': kwargs} fallback, regenerated from the source *)
Lemma takes_fallback_gen_eq m f : takes_fallback_gen m f = takes_fallback m f.
Proof. destruct m, f; reflexivity. Qed.

Theorem source_matches_model : forall s ign meth c,
  filter_args_gen s ign meth c = filter_args_model s ign meth c.
Proof.
  intros s ign meth c. unfold filter_args_gen, filter_args_model, scan_sig.
  assert (E : forall st, fold_left scan_param_gen s st = fold_left scan_param s st).
  { induction s as [|p t IH]; intros st; cbn [fold_left]; [reflexivity|]. rewrite scan_param_gen_eq. apply IH. }
  rewrite E. cbv zeta. rewrite named_loop_gen_eq.
  match goal with |- bind ?X _ = _ => destruct X as [d1|e]; [|reflexivity] end. cbn [bind].
  rewrite kw_loop_gen_eq.
  match goal with |- bind ?X _ = _ => destruct X as [[d2 vk]|e]; [|reflexivity] end. cbn [bind fst snd].
  rewrite ignore_loop_gen_eq. reflexivity.
Qed.
Print Assumptions source_matches_model.
Print Assumptions takes_fallback_gen_eq.
