(* C08: the model of sorted() (Model/HashEnc.py_sorted: count_run + binary insertion) returns THE
   strictly sorted permutation whenever the comparison is a strict total order on the (pairwise
   distinct) elements; two strictly sorted permutations of one list are equal. *)
From Coq Require Import ZArith List Bool Lia Arith PeanoNat Sorting.Permutation Sorting.Sorted.
Require Import JV.Model.HashEnc.
Import ListNotations.
Local Open Scope nat_scope.

Section SortFacts.
Context {A : Type} (lt : A -> A -> option bool) (R : A -> A -> bool) (P : A -> Prop).

Hypothesis Hlt : forall x y, P x -> P y -> x <> y -> lt x y = Some (R x y).
Hypothesis Rirr : forall x, P x -> R x x = false.
Hypothesis Rtrans : forall x y z, P x -> P y -> P z -> R x y = true -> R y z = true -> R x z = true.
Hypothesis Rtot : forall x y, P x -> P y -> x <> y -> R x y = true \/ R y x = true.

Definition Rp (x y : A) : Prop := R x y = true.
Definition ssorted (l : list A) : Prop := StronglySorted Rp l.

Lemma Rasym x y : P x -> P y -> R x y = true -> R y x = false.
Proof.
  intros Px Py H. destruct (R y x) eqn:E; [|reflexivity].
  rewrite <- (Rirr x Px). symmetry. eapply Rtrans; eauto.
Qed.

Lemma Rneg x y : P x -> P y -> x <> y -> R x y = false -> R y x = true.
Proof. intros Px Py N H. destruct (Rtot x y Px Py N) as [H1|H1]; congruence. Qed.

(* ---------------------------------------------------------------- sortedness toolkit *)
Lemma ssorted_app_inv a x b : ssorted (a ++ x :: b) ->
  ssorted a /\ ssorted b /\ Forall (fun y => Rp y x) a /\ Forall (fun y => Rp x y) b /\
  (forall y z, In y a -> In z b -> Rp y z).
Proof.
  unfold ssorted. induction a as [|h a IH]; cbn; intros H.
  - inversion H; subst. repeat split; auto; try constructor. intros y z [].
  - inversion H as [|? ? Hs Hall]; subst. destruct (IH Hs) as (Sa & Sb & Fa & Fb & Fab).
    rewrite Forall_app in Hall. destruct Hall as [Ha Hxb]. inversion Hxb; subst.
    repeat split; auto.
    + constructor; auto.
    + intros y z [->|Hy] Hz; [|auto]. rewrite Forall_forall in H3. apply H3. exact Hz.
Qed.

Lemma ssorted_insert a x b : Forall P (a ++ x :: b) ->
  ssorted (a ++ b) -> Forall (fun y => Rp y x) a -> Forall (fun y => Rp x y) b -> ssorted (a ++ x :: b).
Proof.
  unfold ssorted. induction a as [|h a IH]; cbn; intros HP Hs Fa Fb.
  - constructor; auto.
  - inversion Hs as [|? ? Hs' Hall]; subst. inversion Fa; subst. inversion HP; subst.
    constructor; [apply IH; auto|].
    rewrite Forall_app in *. destruct Hall as [Ha Hb]. split; [exact Ha|]. constructor; [assumption|exact Hb].
Qed.

Lemma ssorted_snoc a x : ssorted a -> Forall (fun y => Rp y x) a -> ssorted (a ++ [x]).
Proof.
  unfold ssorted. induction a as [|h a IH]; cbn; intros Hs Fa.
  - constructor; constructor.
  - inversion Hs; subst. inversion Fa; subst. constructor; [apply IH; auto|].
    rewrite Forall_app. split; [assumption|]. constructor; [assumption|constructor].
Qed.

(* ---------------------------------------------------------------- uniqueness *)
Lemma ssorted_perm_unique s : forall s', Forall P s -> Permutation s s' -> ssorted s -> ssorted s' -> s = s'.
Proof.
  induction s as [|a s IH]; intros s' HP Hperm Hs Hs'.
  - apply Permutation_nil in Hperm. subst. reflexivity.
  - destruct s' as [|a' s']; [apply Permutation_sym, Permutation_nil in Hperm; discriminate|].
    inversion Hs as [|? ? Hs1 Ha]; subst. inversion Hs' as [|? ? Hs1' Ha']; subst.
    inversion HP as [|? ? Pa HPs]; subst.
    assert (HP' : Forall P (a' :: s')) by (eapply Permutation_Forall; eauto).
    inversion HP' as [|? ? Pa' HPs']; subst.
    assert (Ea : a = a').
    { assert (I1 : In a (a' :: s')) by (eapply Permutation_in; [exact Hperm|left; reflexivity]).
      assert (I2 : In a' (a :: s)) by (eapply Permutation_in; [apply Permutation_sym; exact Hperm|left; reflexivity]).
      destruct I1 as [E|I1]; [auto|]. destruct I2 as [E|I2]; [auto|].
      rewrite Forall_forall in Ha, Ha'. pose proof (Ha _ I2) as H1. pose proof (Ha' _ I1) as H2.
      unfold Rp in *. rewrite (Rasym _ _ Pa Pa' H1) in H2. discriminate. }
    subst a'. f_equal. apply IH; auto. eapply Permutation_cons_inv; eauto.
Qed.

(* ---------------------------------------------------------------- count_run *)
(* acc = reversed run; invariant for the ascending scan: rev acc is sorted and ends in prev *)
Lemma run_asc_spec t : forall prev acc,
  NoDup (rev acc ++ t) -> Forall P (rev acc ++ t) ->
  (exists acc', acc = prev :: acc') -> ssorted (rev acc) ->
  exists run rest, run_asc lt prev t acc = Some (run, rest) /\ ssorted run /\ run ++ rest = rev acc ++ t /\ run <> [].
Proof.
  induction t as [|x t IH]; intros prev acc ND HP [acc' ->] Hs; cbn [run_asc].
  - exists (rev (prev :: acc')), []. repeat split; auto. cbn. destruct (rev acc'); discriminate.
  - assert (Px : P x). { rewrite Forall_forall in HP. apply HP. apply in_or_app. right. left. reflexivity. }
    assert (Pp : P prev). { rewrite Forall_forall in HP. apply HP. apply in_or_app. left. apply in_rev. rewrite rev_involutive. left. reflexivity. }
    assert (Nxp : x <> prev).
    { intros ->. apply NoDup_remove_2 in ND. apply ND. apply in_or_app. left. apply in_rev. rewrite rev_involutive. left. reflexivity. }
    rewrite (Hlt x prev Px Pp Nxp). destruct (R x prev) eqn:E.
    + exists (rev (prev :: acc')), (x :: t). repeat split; auto. cbn. destruct (rev acc'); discriminate.
    + assert (Rpx : R prev x = true) by (apply Rneg; auto).
      destruct (IH x (x :: prev :: acc')) as (run & rest & H1 & H2 & H3 & H4).
      * cbn [rev]. rewrite <- app_assoc. exact ND.
      * cbn [rev]. rewrite <- app_assoc. exact HP.
      * eexists; reflexivity.
      * cbn [rev]. apply ssorted_snoc; [exact Hs|].
        (* everything in rev (prev::acc') is <= prev < x *)
        cbn [rev] in Hs |- *. apply ssorted_app_inv in Hs. destruct Hs as (_ & _ & Fa & _ & _).
        rewrite Forall_app. split.
        -- rewrite Forall_forall in *. intros y Hy. unfold Rp. eapply Rtrans; [| | |apply Fa; exact Hy|exact Rpx]; auto.
           apply HP. apply in_or_app. left. apply in_or_app. left. exact Hy.
        -- constructor; [exact Rpx|constructor].
      * exists run, rest. repeat split; auto. rewrite H3. cbn [rev]. rewrite <- app_assoc. reflexivity.
Qed.

(* descending scan: acc itself (newest first) is sorted ascending and starts with prev *)
Lemma run_desc_spec t : forall prev acc,
  NoDup (rev acc ++ t) -> Forall P (rev acc ++ t) ->
  (exists acc', acc = prev :: acc') -> ssorted acc ->
  exists run rest, run_desc lt prev t acc = Some (run, rest) /\ ssorted run /\
                   Permutation (run ++ rest) (rev acc ++ t) /\ run <> [].
Proof.
  induction t as [|x t IH]; intros prev acc ND HP [acc' ->] Hs; cbn [run_desc].
  - exists (prev :: acc'), []. repeat split; auto; [|discriminate].
    rewrite !app_nil_r. apply Permutation_rev.
  - assert (Px : P x). { rewrite Forall_forall in HP. apply HP. apply in_or_app. right. left. reflexivity. }
    assert (Pp : P prev). { rewrite Forall_forall in HP. apply HP. apply in_or_app. left. apply in_rev. rewrite rev_involutive. left. reflexivity. }
    assert (Nxp : x <> prev).
    { intros ->. apply NoDup_remove_2 in ND. apply ND. apply in_or_app. left. apply in_rev. rewrite rev_involutive. left. reflexivity. }
    rewrite (Hlt x prev Px Pp Nxp). destruct (R x prev) eqn:E.
    + destruct (IH x (x :: prev :: acc')) as (run & rest & H1 & H2 & H3 & H4).
      * cbn [rev]. rewrite <- app_assoc. exact ND.
      * cbn [rev]. rewrite <- app_assoc. exact HP.
      * eexists; reflexivity.
      * constructor; [exact Hs|]. inversion Hs as [|? ? Hs' Hall]; subst.
        constructor; [exact E|]. rewrite Forall_forall in *. intros y Hy. unfold Rp.
        eapply Rtrans; [| | |exact E|apply Hall; exact Hy]; auto.
        apply HP. apply in_or_app. left. apply in_rev. rewrite rev_involutive. right. exact Hy.
      * exists run, rest. repeat split; auto. rewrite H3. cbn [rev]. rewrite <- app_assoc. reflexivity.
    + exists (prev :: acc'), (x :: t). repeat split; auto; [|discriminate].
      apply Permutation_app_tail. apply Permutation_rev.
Qed.

Lemma count_run_spec l : NoDup l -> Forall P l ->
  exists run rest, count_run lt l = Some (run, rest) /\ ssorted run /\ Permutation (run ++ rest) l.
Proof.
  intros ND HP. destruct l as [|a [|b t]]; cbn [count_run].
  - exists [], []. repeat split; auto. constructor.
  - exists [a], []. repeat split; auto. constructor; constructor.
  - inversion HP as [|? ? Pa HP']; subst. inversion HP' as [|? ? Pb HP'']; subst.
    assert (Nba : b <> a). { intros ->. inversion ND; subst. apply H1. left. reflexivity. }
    rewrite (Hlt b a Pb Pa Nba). destruct (R b a) eqn:E.
    + destruct (run_desc_spec t b [b; a]) as (run & rest & H1 & H2 & H3 & _); auto.
      * eexists; reflexivity.
      * constructor; [constructor; constructor|]. constructor; [exact E|constructor].
      * exists run, rest. repeat split; auto.
    + destruct (run_asc_spec t b [b; a]) as (run & rest & H1 & H2 & H3 & _); auto.
      * eexists; reflexivity.
      * cbn. constructor; [constructor; constructor|]. constructor; [|constructor]. apply Rneg; auto.
      * exists run, rest. repeat split; auto. rewrite H3. reflexivity.
Qed.

(* ---------------------------------------------------------------- binary search *)
Lemma firstn_S_nth {B} (l : list B) p x : nth_error l p = Some x -> firstn (S p) l = firstn p l ++ [x].
Proof.
  revert p. induction l as [|h l IH]; intros [|p] H; cbn in *; try discriminate.
  - inversion H; subst. reflexivity.
  - f_equal. apply IH. exact H.
Qed.

Lemma skipn_nth {B} (l : list B) p x : nth_error l p = Some x -> skipn p l = x :: skipn (S p) l.
Proof.
  revert p. induction l as [|h l IH]; intros [|p] H; cbn in *; try discriminate.
  - inversion H; subst. reflexivity.
  - apply IH. exact H.
Qed.

Lemma split_nth {B} (l : list B) p x : nth_error l p = Some x -> l = firstn p l ++ x :: skipn (S p) l.
Proof. intros H. rewrite <- (skipn_nth _ _ _ H). symmetry. apply firstn_skipn. Qed.

Lemma my_in_firstn {B} n (l : list B) x : In x (firstn n l) -> In x l.
Proof. revert l. induction n; intros [|h l]; cbn; auto; [intros []|]. intros [->|H]; auto. Qed.
Lemma my_in_skipn {B} n (l : list B) x : In x (skipn n l) -> In x l.
Proof. revert l. induction n; intros [|h l]; cbn; auto. Qed.

Lemma div2_le n : Nat.div2 n <= n.
Proof. apply Nat.lt_eq_cases. destruct n; [right; reflexivity|left; apply Nat.lt_div2; lia]. Qed.
Lemma div2_lt n : 0 < n -> Nat.div2 n < n.
Proof. intros. apply Nat.lt_div2. assumption. Qed.

Lemma bsearch_spec pivot pre : ssorted pre -> Forall P pre -> P pivot -> ~ In pivot pre ->
  forall fuel l r, l <= r <= length pre -> r - l < fuel ->
  Forall (fun y => Rp y pivot) (firstn l pre) -> Forall (fun y => Rp pivot y) (skipn r pre) ->
  exists pos, bsearch lt fuel pivot pre l r = Some pos /\ pos <= length pre /\
              Forall (fun y => Rp y pivot) (firstn pos pre) /\ Forall (fun y => Rp pivot y) (skipn pos pre).
Proof.
  intros Hs HP Pp Nin. induction fuel as [|f IH]; intros l r Hlr Hf Fl Fr; [lia|].
  cbn [bsearch]. destruct (Nat.ltb l r) eqn:E.
  - apply Nat.ltb_lt in E. set (p := l + Nat.div2 (r - l)).
    assert (Hp : l <= p < r). { unfold p. pose proof (div2_lt (r - l)). lia. }
    destruct (nth_error pre p) as [x|] eqn:Ex.
    2:{ apply nth_error_None in Ex. lia. }
    assert (Ix : In x pre) by (eapply nth_error_In; eauto).
    assert (Px : P x) by (rewrite Forall_forall in HP; auto).
    assert (Npx : pivot <> x) by (intros ->; auto).
    rewrite (Hlt pivot x Pp Px Npx).
    pose proof (split_nth _ _ _ Ex) as Hsplit. rewrite Hsplit in Hs.
    apply ssorted_app_inv in Hs. destruct Hs as (_ & _ & Fa & Fb & _).
    destruct (R pivot x) eqn:Epx.
    + apply IH; [lia|lia|exact Fl|].
      rewrite (skipn_nth _ _ _ Ex). constructor; [exact Epx|].
      rewrite Forall_forall in *. intros y Hy. unfold Rp. eapply Rtrans; [| | |exact Epx|apply Fb; exact Hy]; auto.
      apply HP. eapply (my_in_skipn (S p)). exact Hy.
    + assert (Rxp : R x pivot = true) by (apply Rneg; auto).
      apply IH; [lia|lia| |exact Fr].
      rewrite (firstn_S_nth _ _ _ Ex). rewrite Forall_app. split; [|constructor; [exact Rxp|constructor]].
      rewrite Forall_forall in *. intros y Hy. unfold Rp. eapply Rtrans; [| | |apply Fa; exact Hy|exact Rxp]; auto.
      apply HP. eapply (my_in_firstn p). exact Hy.
  - apply Nat.ltb_ge in E. assert (l = r) by lia. subst r.
    exists l. repeat split; auto. lia.
Qed.

Lemma binsert_spec pre pivot : ssorted pre -> Forall P pre -> P pivot -> ~ In pivot pre ->
  exists pre', binsert lt pre pivot = Some pre' /\ ssorted pre' /\ Permutation pre' (pivot :: pre).
Proof.
  intros Hs HP Pp Nin. unfold binsert.
  destruct (bsearch_spec pivot pre Hs HP Pp Nin (S (length pre)) 0 (length pre)) as (pos & Hb & Hle & Fa & Fb).
  - lia.
  - lia.
  - cbn. constructor.
  - rewrite skipn_all. constructor.
  - rewrite Hb. eexists; split; [reflexivity|]. split.
    + apply ssorted_insert; auto.
      * rewrite Forall_app. split; [|constructor; auto].
        -- rewrite Forall_forall in *. intros y Hy. apply HP. eapply my_in_firstn; eauto.
        -- rewrite Forall_forall in *. intros y Hy. apply HP. eapply my_in_skipn; eauto.
      * rewrite firstn_skipn. exact Hs.
    + apply Permutation_sym. rewrite <- (firstn_skipn pos pre) at 1. apply Permutation_middle.
Qed.

Lemma binarysort_spec rest : forall pre, ssorted pre -> NoDup (pre ++ rest) -> Forall P (pre ++ rest) ->
  exists s, binarysort lt pre rest = Some s /\ ssorted s /\ Permutation s (pre ++ rest).
Proof.
  induction rest as [|x t IH]; intros pre Hs ND HP; cbn [binarysort].
  - exists pre. rewrite app_nil_r. repeat split; auto.
  - assert (HPp : Forall P pre) by (rewrite Forall_app in HP; tauto).
    assert (Px : P x) by (rewrite Forall_forall in HP; apply HP; apply in_or_app; right; left; reflexivity).
    assert (Nin : ~ In x pre).
    { intros Hin. apply NoDup_remove_2 in ND. apply ND. apply in_or_app. left. exact Hin. }
    destruct (binsert_spec pre x Hs HPp Px Nin) as (pre' & Hb & Hs' & Hperm). rewrite Hb.
    assert (Hperm2 : Permutation (pre' ++ t) (pre ++ x :: t)).
    { rewrite Hperm. cbn. apply Permutation_middle. }
    destruct (IH pre' Hs') as (s & H1 & H2 & H3).
    + eapply Permutation_NoDup; [apply Permutation_sym; exact Hperm2|exact ND].
    + eapply Permutation_Forall; [apply Permutation_sym; exact Hperm2|exact HP].
    + exists s. repeat split; auto. rewrite H3. exact Hperm2.
Qed.

Theorem py_sorted_spec l : NoDup l -> Forall P l ->
  exists s, py_sorted lt l = Some s /\ ssorted s /\ Permutation s l.
Proof.
  intros ND HP. unfold py_sorted.
  destruct (count_run_spec l ND HP) as (run & rest & Hc & Hs & Hperm). rewrite Hc.
  destruct (binarysort_spec rest run Hs) as (s & H1 & H2 & H3).
  - eapply Permutation_NoDup; [apply Permutation_sym; exact Hperm|exact ND].
  - eapply Permutation_Forall; [apply Permutation_sym; exact Hperm|exact HP].
  - exists s. repeat split; auto. rewrite H3. exact Hperm.
Qed.

(* the result is determined by the SET of elements: iteration order is irrelevant *)
Theorem py_sorted_perm l l' : NoDup l -> Forall P l -> Permutation l l' -> py_sorted lt l = py_sorted lt l'.
Proof.
  intros ND HP Hperm.
  assert (ND' : NoDup l') by (eapply Permutation_NoDup; eauto).
  assert (HP' : Forall P l') by (eapply Permutation_Forall; eauto).
  destruct (py_sorted_spec l ND HP) as (s & -> & Hs & Hp).
  destruct (py_sorted_spec l' ND' HP') as (s' & -> & Hs' & Hp'). f_equal.
  apply ssorted_perm_unique; auto.
  - eapply Permutation_Forall; [apply Permutation_sym; exact Hp|exact HP].
  - rewrite Hp, Hperm. apply Permutation_sym. exact Hp'.
Qed.
End SortFacts.
