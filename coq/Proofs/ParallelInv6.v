(* M1 proofs, part 7: progress -- a consumer that waits is waiting for a batch that is really in flight. *)
From Coq Require Import List Bool Arith Lia PeanoNat.
Require Import JV.Model.ParallelCore JV.Proofs.ParallelLemmas JV.Proofs.ParallelInv1 JV.Proofs.ParallelTrk
               JV.Proofs.ParallelInv2 JV.Proofs.ParallelFrame2 JV.Proofs.ParallelInv3 JV.Proofs.ParallelInv4
               JV.Proofs.ParallelInv5 JV.Proofs.ParallelFrame3.
Import ListNotations.

Record Inv6 (s : st) : Prop := {
  q_iter_open : iterating s = true -> aborting s = false -> (phase s = StartLoop \/ phase s = Retrieving) ->
                opens s <> []
}.
Definition InvAll (s : st) : Prop := Inv12345 s /\ Inv6 s.

Lemma inv6_same s s' : Inv6 s -> iterating s' = iterating s -> (aborting s' = false -> aborting s = false) ->
  trk s' = trk s -> cid s' = cid s -> closed s' = closed s ->
  ((phase s' = StartLoop \/ phase s' = Retrieving) -> (phase s = StartLoop \/ phase s = Retrieving)) -> Inv6 s'.
Proof.
  intros [H] Ei Ea Et Ec Ecl Ep. constructor. unfold opens. rewrite Et, Ec, Ecl, Ei. intros A B C. apply H; auto.
Qed.
Ltac same6 := eapply inv6_same; [eassumption | try reflexivity ..]; cbn; auto.

Lemma inv6_off s : iterating s = false -> Inv6 s.
Proof. intros H. constructor. intros A. congruence. Qed.
Lemma inv6_aborting s : aborting s = true -> Inv6 s.
Proof. intros H. constructor. intros _ A. congruence. Qed.
Lemma inv6_phase s : ~ (phase s = StartLoop \/ phase s = Retrieving) -> Inv6 s.
Proof. intros H. constructor. intros _ _ A. contradiction. Qed.

Lemma opens_submit_nonempty s tk pl rdy t : Inv2 s -> opens (submit_state s tk pl rdy t) <> [].
Proof.
  intros H2. unfold opens. cbn [trk cid closed submit_state do_submit upd_dispatch].
  assert (Hidc : ~ In (length (trk s)) (closed s)) by (apply not_in_valid, allcur_valid, (j_closed s H2)).
  rewrite opens_of_app_new by (try reflexivity; exact Hidc).
  destruct (opens_of (trk s) (cid s) (closed s)); discriminate.
Qed.

Lemma inv6_after_dispatch s b fo s' r : Inv2 s -> dispatch_shape s b fo s' r -> r = true -> Inv6 s'.
Proof.
  intros H2 Hsh ->. inversion Hsh; subst.
  - constructor. intros _ _ _. apply opens_submit_nonempty. exact H2.
  - apply inv6_aborting. reflexivity.
  - constructor. intros _ _ _. apply opens_submit_nonempty. exact H2.
Qed.

(* the combined steps preserve Inv12345 *)
Lemma inv12345_cb_finish_noorig s t k : Inv12345 s -> nth_error (trk s) t = Some k -> In t (cbmid s) ->
  tk_cid k = cid s -> Inv12345 (closed_state s t k).
Proof. intros. apply inv12345_cb_close; assumption. Qed.

Lemma inv12345_cb_finish_orig s t k b s2 r : Inv12345 s -> 1 <= n_jobs (c s) -> 1 <= b ->
  nth_error (trk s) t = Some k -> In t (cbmid s) -> tk_cid k = cid s -> orig s = true ->
  dispatch_shape (closed_state s t k) b true s2 r ->
  Inv12345 (if r then s2 else set_flags s2 false false (phase s2)).
Proof.
  intros H Hnj Hb Hk Hin Hc Ho Hsh.
  pose proof (inv12345_cb_close s t k H Hk Hin Hc) as H1. fold (closed_state s t k) in H1.
  assert (Hcl : closed (closed_state s t k) <> []) by (cbn; destruct (closed s); discriminate).
  pose proof (inv12345_cb_dispatch (closed_state s t k) b s2 r H1 Hnj Hb Ho Hcl Hsh) as H2.
  destruct r; [exact H2|].
  inversion Hsh; subst.
  - apply inv12345_exhaust; [exact H2 | exact Ho | exact Hcl | left; assumption].
  - apply inv12345_exhaust; [exact H2 | exact Ho | exact Hcl |]. right. split; [assumption|].
    match goal with Hx : _ \/ _ \/ _ |- _ => destruct Hx as [Hy | [[Hy _] | Hy]];
      [exact Hy | discriminate Hy | exfalso; change (n_jobs (c (closed_state s t k))) with (n_jobs (c s)) in Hy; nia] end.
Qed.

Lemma invall_init : InvAll init.
Proof.
  split; [exact inv12345_init | apply inv6_off; reflexivity].
Qed.

Lemma invall_call : forall s cf n f, InvAll s -> wf_cfg cf -> running s = false ->
  (phase s = Idle \/ phase s = Finished) -> InvAll (do_call s cf n f).
Proof.
  intros s cf n f [H H6] Hcf Hr Hp. split; [apply inv12345_call; assumption | apply inv6_off; reflexivity].
Qed.

Lemma invall_start_first : forall s b s1 r, InvAll s -> 1 <= n_jobs (c s) -> 1 <= b -> phase s = StartFirst ->
  dispatch_shape s b false s1 r -> InvAll (ParallelFrame3.start_first_next s1 r).
Proof.
  (* start_first *)
    intros s b s1 r [H H6] Hnj Hb Hph Hsh. split; [eapply inv12345_start_first; eassumption|].
    destruct H as [[[[_ H2] H3] _] _].
    destruct (k_first s H3 Hph) as (_ & _ & _ & _ & Hit & _).
    unfold ParallelFrame3.start_first_next.
    destruct r.
    + pose proof (inv6_after_dispatch _ _ _ _ _ H2 Hsh eq_refl) as H6'.
      assert (Hf : Inv6 (set_flags s1 (orig s1) (orig s1) StartLoop)).
      { destruct H6' as [Q]. constructor. cbn. intros _ A _. inversion Hsh; subst.
        - apply opens_submit_nonempty. exact H2.
        - discriminate A.
        - apply opens_submit_nonempty. exact H2. }
      destruct (aborting _) eqn:Hab; [apply inv6_aborting; exact Hab | exact Hf].
    + assert (Hit1 : iterating s1 = false) by (inversion Hsh; subst; exact Hit).
      destruct (aborting _); apply inv6_off; cbn; rewrite ?Hit1; try reflexivity; destruct (pre (c s1)); auto.
Qed.

Lemma invall_start_loop : forall s b s1 r, InvAll s -> 1 <= n_jobs (c s) -> 1 <= b -> phase s = StartLoop ->
  dispatch_shape s b false s1 r -> InvAll (ParallelFrame3.start_loop_next s1 r).
Proof.
  (* start_loop *)
    intros s b s1 r [H H6] Hnj Hb Hph Hsh. split; [eapply inv12345_start_loop; eassumption|].
    destruct H as [[[[_ H2] H3] _] _].
    unfold ParallelFrame3.start_loop_next. destruct r.
    + pose proof (inv6_after_dispatch _ _ _ _ _ H2 Hsh eq_refl) as H6'.
      destruct (aborting s1) eqn:Hab; [apply inv6_aborting; exact Hab | exact H6'].
    + inversion Hsh; subst.
      * apply inv6_aborting. assumption.
      * unfold end_start. destruct H6 as [Q]. constructor. cbn. intros A B _.
        apply Q; [|exact B | left; exact Hph]. destruct (pre (c s1)); [discriminate A | exact A].
Qed.

Lemma invall_cb_start : forall s t o, InvAll s -> InvAll (cb_start s t o).
Proof.
  intros s t o [H H6]. split; [apply inv12345_cb_start; exact H|].
    destruct (cb_start_fields3 s t o) as (A1 & A2 & A3 & A4 & A5 & A6 & A7 & A8 & A9 & A10 & A11).
    destruct H6 as [Q]. constructor. unfold opens in *. intros A B C.
    assert (E : opens_of (trk (cb_start s t o)) (cid (cb_start s t o)) (closed (cb_start s t o)) = opens_of (trk s) (cid s) (closed s)).
    { unfold opens_of. rewrite A9. unfold curids in A8. rewrite A8. reflexivity. }
    rewrite E. apply Q; [rewrite <- A3; exact A | apply A10; exact B | rewrite <- A11; exact C].
Qed.

Lemma invall_cb_finish_noorig : forall s t k, InvAll s -> nth_error (trk s) t = Some k -> In t (cbmid s) ->
  tk_cid k = cid s -> orig s = false -> InvAll (ParallelFrame3.closed_state s t k).
Proof.
  (* cb_finish, input known to be exhausted *)
    intros s t k [H H6] Hk Hin Hc Ho. split; [apply inv12345_cb_finish_noorig; assumption|].
    destruct H as [[[_ H3] _] _]. apply inv6_off. cbn.
    destruct (iterating s) eqn:E; [|reflexivity]. rewrite (k_iter_orig s H3 E) in Ho. discriminate.
Qed.

Lemma invall_cb_finish_orig : forall s t k b s2 r, InvAll s -> 1 <= n_jobs (c s) -> 1 <= b ->
  nth_error (trk s) t = Some k -> In t (cbmid s) -> tk_cid k = cid s -> orig s = true ->
  dispatch_shape (ParallelFrame3.closed_state s t k) b true s2 r ->
  InvAll (if r then s2 else set_flags s2 false false (phase s2)).
Proof.
  (* cb_finish with dispatch_next *)
    intros s t k b s2 r [H H6] Hnj Hb Hk Hin Hc Ho Hsh. split; [eapply inv12345_cb_finish_orig; eassumption|].
    destruct r.
    + eapply inv6_after_dispatch; [|exact Hsh | reflexivity].
      pose proof (inv12345_cb_close s t k H Hk Hin Hc) as H1. destruct H1 as [[[[_ H2] _] _] _]. exact H2.
    + apply inv6_off. reflexivity.
Qed.

Lemma invall_cb_stale : forall s t k, InvAll s -> nth_error (trk s) t = Some k -> In t (cbmid s) ->
  tk_cid k <> cid s -> InvAll (add_comp s 0 (remove_id t (cbmid s))).
Proof.
  intros s t k [H H6] Hk Hin Hc. split; [eapply inv12345_cb_stale; eassumption | same6].
Qed.

Lemma invall_want : forall s, InvAll s -> InvAll (set_want s).
Proof.
  intros s [H H6]. split; [apply inv12345_want; exact H | unfold set_want; same6].
Qed.

Lemma invall_close_try : forall s, InvAll s -> phase s = Retrieving -> InvAll (abandon (finalize s Finished true true)).
Proof.
  intros s [H H6] Hp. split; [apply inv12345_close_try; assumption|]. apply inv6_phase. cbn. intros [A|A]; discriminate.
Qed.

Lemma invall_refuse : forall s b s1, InvAll s -> 1 <= n_jobs (c s) -> 1 <= b ->
  (phase s = StartFirst \/ phase s = StartLoop) -> dispatch_shape s b false s1 true ->
  InvAll (finalize s1 Finished true true).
Proof.
  intros s b s1 [H H6] Hnj Hb Hph Hsh. split; [eapply inv12345_refuse; eassumption|]. apply inv6_phase. cbn. intros [A|A]; discriminate.
Qed.

Lemma invall_close_drain : forall s r, InvAll s -> phase s = Draining r -> InvAll (abandon (set_out s (jobs s) (jset s) [] false Finished)).
Proof.
  intros s r [H H6] Hp. split; [eapply inv12345_close_drain; eassumption|]. apply inv6_phase. cbn. intros [A|A]; discriminate.
Qed.

Lemma invall_timeout : forall s j, InvAll s -> want s = true -> timeout_target s = Some j -> status_of s j = Pending ->
  InvAll (do_timeout s j).
Proof.
  intros s j [H H6] Hw Ht Hst. split; [apply inv12345_timeout; assumption | apply inv6_aborting; reflexivity].
Qed.

Lemma invall_yield : forall s v r, InvAll s -> pend_out s = v :: r ->
  InvAll (deliver (set_out s (jobs s) (jset s) r false (phase s)) v).
Proof.
  intros s v r [H H6] Hp. split; [eapply inv12345_yield; eassumption | same6].
Qed.

Lemma invall_raise_fast : forall s e, InvAll s -> phase s = Retrieving -> pend_out s = [] -> aborting s = true ->
  first_failed s = Some e -> InvAll (finalize s Finished true true).
Proof.
  intros s e [H H6] Hp Hpo Hab Hff. split; [eapply inv12345_raise_fast; eassumption|]. apply inv6_phase. cbn. intros [A|A]; discriminate.
Qed.

Lemma invall_loop_exit : forall s, InvAll s -> phase s = Retrieving -> pend_out s = [] ->
  (aborting s = true /\ first_failed s = None \/
   aborting s = false /\ iterating s = false /\ n_disp s <= n_comp s) ->
  InvAll (finalize s (Draining (if exception s then [] else jobs s)) (exception s) false).
Proof.
  intros s [H H6] Hp Hpo Hc. split; [apply inv12345_loop_exit; assumption|]. apply inv6_phase. cbn. intros [A|A]; discriminate.
Qed.

Lemma invall_pop_done : forall s j js, InvAll s -> phase s = Retrieving -> pend_out s = [] -> aborting s = false ->
  jobs s = j :: js -> status_of s j = Done ->
  InvAll (set_out s js (remove_id j (jset s)) (tasks_of s j) true Retrieving).
Proof.
  intros s j js [H H6] Hp Hpo Hab Hj Hst. split; [eapply inv12345_pop_done; eassumption|].
    eapply inv6_same; [exact H6 | reflexivity | auto | reflexivity | reflexivity | reflexivity |]. cbn. intros _. right. exact Hp.
Qed.

Lemma invall_pop_failed : forall s j js e, InvAll s -> phase s = Retrieving -> pend_out s = [] -> aborting s = false ->
  jobs s = j :: js -> status_of s j = Failed e ->
  InvAll (finalize (set_out s js (remove_id j (jset s)) [] true Retrieving) Finished true true).
Proof.
  intros s j js e [H H6] Hp Hpo Hab Hj Hst. split; [eapply inv12345_pop_failed; eassumption|]. apply inv6_phase. cbn. intros [A|A]; discriminate.
Qed.

Lemma invall_drain_end : forall s, InvAll s -> phase s = Draining [] -> pend_out s = [] ->
  InvAll (set_out s (jobs s) (jset s) [] false Finished).
Proof.
  intros s [H H6] Hp Hpo. split; [apply inv12345_drain_end; assumption|]. apply inv6_phase. cbn. intros [A|A]; discriminate.
Qed.

Lemma invall_drain_pop : forall s j js, InvAll s -> phase s = Draining (j :: js) -> pend_out s = [] ->
  status_of s j = Done -> InvAll (set_out s (jobs s) (jset s) (tasks_of s j) true (Draining js)).
Proof.
  intros s j js [H H6] Hp Hpo Hst. split; [eapply inv12345_drain_pop; eassumption|]. apply inv6_phase. cbn. intros [A|A]; discriminate.
Qed.

Lemma invall_drain_bad : forall s j js, InvAll s -> phase s = Draining (j :: js) -> pend_out s = [] ->
  status_of s j <> Done -> InvAll (set_out s (jobs s) (jset s) [] false Finished).
Proof.
  intros s j js [H H6] Hp Hpo Hst. split; [eapply inv12345_drain_bad; eassumption|]. apply inv6_phase. cbn. intros [A|A]; discriminate.
Qed.

Lemma invall_wf : forall s, InvAll s -> 1 <= n_jobs (c s).
Proof.
  intros s [H _]. apply inv12345_wf. exact H.
Qed.

Theorem reach_invall : forall s, reach s -> InvAll s.
Proof.
  apply (ParallelFrame3.P_reach InvAll).
  - exact invall_init.
  - exact invall_call.
  - exact invall_start_first.
  - exact invall_start_loop.
  - exact invall_cb_start.
  - exact invall_cb_finish_noorig.
  - exact invall_cb_finish_orig.
  - exact invall_cb_stale.
  - exact invall_want.
  - exact invall_close_try.
  - intros s b s1 H Hnj Hb Hph Hsh. eapply invall_refuse; eauto.
  - intros s b s1 H Hnj Hb Hph Hsh. eapply invall_refuse; eauto.
  - exact invall_close_drain.
  - exact invall_timeout.
  - exact invall_yield.
  - exact invall_raise_fast.
  - exact invall_loop_exit.
  - exact invall_pop_done.
  - exact invall_pop_failed.
  - exact invall_drain_end.
  - exact invall_drain_pop.
  - exact invall_drain_bad.
  - exact invall_wf.
Qed.

(* ---------------- the drain phase always answers ---------------- *)
Lemma advance_pend fuel s v r : pend_out s = v :: r -> snd (advance (S fuel) s) = Some (Val v).
Proof. intros H. cbn [advance]. rewrite H. reflexivity. Qed.

Lemma drain_answers : forall rem fuel s, phase s = Draining rem -> length rem < fuel ->
  snd (advance fuel s) <> None.
Proof.
  induction rem as [|j js IH]; intros fuel s Hp Hf; (destruct fuel as [|fuel]; [cbn in Hf; lia|]); cbn [advance].
  - destruct (pend_out s); [|discriminate]. rewrite Hp. discriminate.
  - destruct (pend_out s); [|discriminate]. rewrite Hp.
    destruct (status_of s j); try discriminate.
    apply IH; [reflexivity | cbn [length] in Hf; lia].
Qed.

(* ---------------- progress ---------------- *)
Theorem waiting_means_work_in_flight s : reach s -> want s = true -> phase s = Retrieving ->
  snd (try_advance s) = None ->
  aborting s = false /\ exists t, is_cur s t = true /\ (In t (inflight s) \/ In t (cbmid s)).
Proof.
  intros Hr Hw Hp Hnone. destruct (reach_invall s Hr) as [[[[[H1 H2] H3] H4] H5] [H6]].
  unfold try_advance in Hnone. rewrite Hw in Hnone.
  assert (Hfuel : adv_fuel s = S (3 + length (jobs s))) by (unfold adv_fuel; rewrite Hp; lia).
  rewrite Hfuel in Hnone. remember (3 + length (jobs s)) as fu eqn:Hfu. cbn [advance] in Hnone.
  destruct (pend_out s) as [|v r] eqn:Hpo; [|discriminate].
  rewrite Hp in Hnone.
  destruct (aborting s) eqn:Hab; cbn [orb] in Hnone.
  { exfalso. destruct (first_failed s); [discriminate|].
    revert Hnone. apply (drain_answers (if exception s then [] else jobs s)); [reflexivity|].
    subst fu. destruct (exception s); cbn [length]; lia. }
  split; [reflexivity|].
  assert (Hx : exception s = false).
  { destruct (exception s) eqn:E; [|reflexivity]. pose proof (o_exc_ab s H4 E). congruence. }
  assert (Hwit : opens s <> [] -> exists t, is_cur s t = true /\ (In t (inflight s) \/ In t (cbmid s))).
  { intros Hne. destruct (opens s) as [|t l] eqn:Ho; [contradiction|].
    assert (Hin : In t (opens s)) by (rewrite Ho; left; reflexivity).
    exists t. split; [apply opens_of_In in Hin; tauto | exact (j_open_where s H2 Hx t Hin)]. }
  destruct (iterating s) eqn:Hit; cbn [orb] in Hnone.
  - apply Hwit. apply H6; auto.
  - destruct (n_comp s <? n_disp s) eqn:Hlt.
    + apply Nat.ltb_lt in Hlt. apply Hwit. intros Ho. pose proof (j_cnt s H2) as Hc. rewrite Ho in Hc. cbn in Hc. lia.
    + exfalso. revert Hnone. apply (drain_answers (if exception s then [] else jobs s)); [reflexivity|].
      subst fu. destruct (exception s); cbn [length]; lia.
Qed.

(* the number of completion callbacks a call can still absorb is bounded by its input *)
Theorem completions_bounded s : reach s -> ifail s = None -> n_comp s <= n_disp s /\ n_disp s <= taken s /\ taken s <= N s.
Proof.
  intros Hr Hi. destruct (reach_invall s Hr) as [[[[[H1 H2] H3] H4] H5] H6].
  pose proof (j_cnt s H2) as Hc. pose proof (j_ndisp s H2) as Hd.
  destruct H1 as [_ Hpart Hle _ _]. specialize (Hpart Hi).
  split; [lia|]. split; [|exact Hle].
  apply (f_equal (@length nat)) in Hpart. rewrite app_length, seq_length in Hpart. lia.
Qed.
