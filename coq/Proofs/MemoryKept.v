(* Proofs about M4, part 2: entries are KEPT (C06_complete, C12_unchanged_kept),
   check_call_in_cache agrees with the next call (C06_check), the wrapper accepts what the
   canonicaliser accepts (C06_accepts), and the converse directions: each interface hypothesis
   is NECESSARY (a counterexample to it is a counterexample to the property). *)
From Coq Require Import List Bool Arith Lia.
Require Import JV.Base.PyPrelude JV.Model.MemoryCore JV.Proofs.MemoryCore.
Import ListNotations.

Arguments set_nat : simpl never.
Arguments remove_nat : simpl never.
Arguments mem_nat : simpl never.
Arguments dset : simpl never.

Ltac destruct_inner :=
  match goal with
  | |- context [match ?x with _ => _ end] =>
      lazymatch x with
      | context [match _ with _ => _ end] => fail
      | _ => destruct x
      end
  end.

Ltac destruct_inner_in H :=
  match type of H with
  | context [match ?x with _ => _ end] =>
      lazymatch x with
      | context [match _ with _ => _ end] => fail
      | _ => destruct x
      end
  end.

Ltac lz := lazy -[Nat.eqb canonicalise bind_spec digest_of digest_eqb src_eqb code path_of named f restrict].

Section Kept.
  Context {call key_input digest binding kbinding value src : Type}.
  Variable C : cfg call key_input digest binding kbinding value src.
  Hypothesis digest_eqb_spec : forall a b, digest_eqb C a b = true <-> a = b.
  Hypothesis src_eqb_spec : forall a b, src_eqb C a b = true <-> a = b.

  Notation state := (state call digest value src).
  Notation event := (event call digest).
  Notation outcome := (outcome value).

  Let deqb_refl := deqb_refl C digest_eqb_spec.
  Let seqb_refl := seqb_refl C src_eqb_spec.

  Lemma final_app : forall h1 h2 (st : state), final C st (h1 ++ h2) = final C (final C st h1) h2.
  Proof. induction h1 as [|e t IH]; intros; cbn; [reflexivity | apply IH]. Qed.

  (* the store holds an entry for digest d, written under source text s *)
  Definition Kept (s : src) (d : digest) (st : state) : Prop :=
    disk st = Some s /\ dlookup C d (entries st) <> None.

  (* every function object of the current process has source text s, and so has its file *)
  Definition Clean (s : src) (st : state) : Prop :=
    (forall k, In k (live st) -> code C k = s /\ lookup_nat (path_of C k) (files st) = Some s) /\
    (forall k w, lookup_nat k (wraps st) = Some w -> In k (live st) /\ (w = None \/ w = Some s)).

  Lemma clean_source_of : forall s st k,
    Clean s st ->
    source_of C st k = None \/
    exists st1, source_of C st k = Some (s, st1) /\ Clean s st1 /\ disk st1 = disk st /\
                entries st1 = entries st /\ table st1 = table st /\ code C k = s.
  Proof.
    intros s st k [CL CW]. unfold source_of.
    destruct (lookup_nat k (wraps st)) as [w|] eqn:El; [|left; reflexivity].
    destruct (CW k w El) as [Hl Hw]. destruct (CL k Hl) as [Hc Hf].
    destruct Hw as [->| ->].
    - rewrite Hf. right. eexists. split; [reflexivity|]. split; [|isplit; auto].
      split; cbn; [exact CL|]. intros k' w'. rewrite lookup_set_nat.
      destruct (Nat.eqb k' k) eqn:E.
      + apply Nat.eqb_eq in E. subst. intros H. inversion H. split; [exact Hl | right; reflexivity].
      + apply CW.
    - right. exists st. isplit; auto. split; assumption.
  Qed.

  (* with the store on text s and only text-s objects alive, the code check passes and changes nothing *)
  Lemma clean_check_code : forall s st k,
    Clean s st -> disk st = Some s ->
    check_code C st k = None \/
    exists st1, check_code C st k = Some (true, st1) /\ Clean s st1 /\ disk st1 = Some s /\
                entries st1 = entries st.
  Proof.
    intros s st k CLN Hd. unfold check_code. destruct (mem_nat k (table st)).
    - right. exists st. isplit; auto.
    - destruct (clean_source_of s st k CLN) as [->|[st1 [-> [C1 [Hd1 [He1 [Ht1 Hc]]]]]]]; [left; reflexivity|].
      right. rewrite Hd1, Hd, seqb_refl. exists st1. isplit; auto. congruence.
  Qed.

  Lemma Kept_ext : forall s d (st st' : state),
    disk st' = disk st -> entries st' = entries st -> Kept s d st -> Kept s d st'.
  Proof. intros s d st st' H1 H2 [A B]. split; rewrite ?H1, ?H2; assumption. Qed.

  Lemma Clean_ext : forall s (st st' : state),
    files st' = files st -> live st' = live st -> wraps st' = wraps st -> Clean s st -> Clean s st'.
  Proof. intros s st st' H1 H2 H3 [A B]. split; rewrite ?H1, ?H2, ?H3; assumption. Qed.

  Lemma Kept_dset : forall s d (st st' : state) d' v,
    disk st' = disk st -> entries st' = dset C d' v (entries st) -> Kept s d st -> Kept s d st'.
  Proof.
    intros s d st st' d' v H1 H2 [A B]. split; rewrite ?H1, ?H2; [assumption|].
    apply (dlookup_dset_some C digest_eqb_spec). assumption.
  Qed.

  Lemma kept_cached_call : forall s d st k c vld sh,
    Clean s st -> Kept s d st -> vld = true ->
    Clean s (snd (cached_call C st k c vld sh)) /\ Kept s d (snd (cached_call C st k c vld sh)).
  Proof.
    intros s d st k c vld sh CLN K ->. pose proof K as [Hd Hl]. unfold cached_call.
    destruct (lookup_nat k (wraps st)); [|cbn; split; assumption].
    destruct (canonicalise C c) as [ki|e]; [|cbn; split; assumption].
    unfold in_cache_and_valid.
    destruct (clean_check_code s st k CLN Hd) as [->|[st1 [-> [C1 [Hd1 He1]]]]];
      [cbn; split; assumption|].
    assert (K1 : Kept s d st1) by (split; [assumption | rewrite He1; assumption]).
    destruct (dlookup C (digest_of C ki) (entries st1)) as [v|] eqn:E.
    - destruct sh; cbn; (split; [eapply Clean_ext; [| | |exact C1]; reflexivity
                                | eapply Kept_ext; [| |exact K1]; reflexivity]).
    - destruct (bind_spec C c) as [b|]; [|cbn; split; assumption].
      destruct sh; cbn; (split; [eapply Clean_ext; [| | |exact C1]; reflexivity
                                | eapply Kept_dset; [| |exact K1]; reflexivity]).
  Qed.

  Ltac clean_crush H :=
    cbn; repeat (destruct_inner; cbn);
    first [exact H | eapply Clean_ext; [| | |exact H]; reflexivity].

  Lemma clean_step : forall s st e,
    (forall j, e = Define j -> code C j = s) -> Clean s st -> Clean s (snd (step C st e)).
  Proof.
    intros s st e HD CLN. pose proof CLN as [CL CW].
    assert (Hcc : forall k c vld sh, Clean s (snd (cached_call C st k c vld sh))).
    { intros k c vld sh. unfold cached_call.
      destruct (lookup_nat k (wraps st)); [|exact CLN].
      destruct (canonicalise C c) as [ki|]; [|exact CLN].
      unfold in_cache_and_valid, check_code.
      destruct (mem_nat k (table st)).
      - clean_crush CLN.
      - destruct (clean_source_of s st k CLN) as [->|[st1 [-> [C1 _]]]]; [exact CLN|].
        clean_crush C1. }
    destruct e as [j|k|k c vld|k c vld|k c vld|r|r|k| |ds| |ok]; cbn.
    - specialize (HD j eq_refl). split; cbn.
      + intros k Hin. rewrite lookup_set_nat. destruct (Nat.eqb (path_of C k) (path_of C j)) eqn:E.
        * destruct Hin as [<-|Hin]; [split; [exact HD | rewrite HD; reflexivity]|].
          apply remove_nat_In in Hin. destruct (CL k (proj1 Hin)) as [Hc _].
          split; [exact Hc | rewrite HD; reflexivity].
        * destruct Hin as [<-|Hin]; [rewrite Nat.eqb_refl in E; discriminate|].
          apply remove_nat_In in Hin. apply CL. tauto.
      + intros k w Hl. destruct (Nat.eq_dec k j) as [->|Hne].
        * rewrite lookup_remove_key_eq in Hl. discriminate.
        * rewrite lookup_remove_key_neq in Hl by exact Hne. destruct (CW k w Hl) as [A B].
          split; [right; apply remove_nat_In; split; assumption | exact B].
    - destruct (mem_nat k (live st)) eqn:El; [|exact CLN]. apply mem_nat_In in El.
      split; cbn; [exact CL|]. intros k' w. rewrite lookup_set_nat. destruct (Nat.eqb k' k) eqn:E.
      + apply Nat.eqb_eq in E. subst. intros H. inversion H. split; [exact El | left; reflexivity].
      + apply CW.
    - apply Hcc.
    - apply Hcc.
    - destruct (lookup_nat k (wraps st)); [|exact CLN].
      destruct (canonicalise C c) as [ki|]; [|exact CLN].
      unfold in_cache_and_valid, check_code.
      destruct (mem_nat k (table st)).
      + clean_crush CLN.
      + destruct (clean_source_of s st k CLN) as [->|[st1 [-> [C1 _]]]]; [exact CLN|].
        clean_crush C1.
    - destruct (nth_error (refs st) r) as [[d ?]|]; [|exact CLN].
      destruct (dlookup C d (entries st)); exact CLN.
    - destruct (nth_error (refs st) r) as [[d ?]|]; exact CLN.
    - destruct (clean_source_of s st k CLN) as [->|[st1 [-> [C1 _]]]]; [exact CLN|]. exact C1.
    - exact CLN.
    - exact CLN.
    - split; cbn; [tauto | discriminate].
    - exact CLN.
  Qed.

  Lemma quiet_step : forall s d st e,
    quiet C s e = true -> Clean s st -> Kept s d st ->
    Clean s (snd (step C st e)) /\ Kept s d (snd (step C st e)).
  Proof.
    intros s d st e Q CLN K.
    destruct e as [j|k|k c vld|k c vld|k c vld|r|r|k| |ds| |ok]; cbn in Q; try discriminate.
    - split; [apply clean_step; auto; intros j' H; inversion H; subst; apply src_eqb_spec; exact Q|].
      exact K.
    - split; [apply clean_step; auto; discriminate|]. cbn. destruct (mem_nat k (live st)); exact K.
    - cbn. apply kept_cached_call; assumption.
    - cbn. apply kept_cached_call; assumption.
    - subst vld. destruct K as [Hd Hl]. cbn.
      destruct (lookup_nat k (wraps st)); [|split; [assumption | split; assumption]].
      destruct (canonicalise C c) as [ki|]; [|split; [assumption | split; assumption]].
      unfold in_cache_and_valid.
      destruct (clean_check_code s st k CLN Hd) as [->|[st1 [-> [C1 [Hd1 He1]]]]];
        [split; [assumption | split; assumption]|].
      destruct (dlookup C (digest_of C ki) (entries st1)); cbn;
        (split; [exact C1 | split; [assumption | rewrite He1; assumption]]).
    - split; [apply clean_step; auto; discriminate|]. cbn.
      destruct (nth_error (refs st) r) as [[d' ?]|]; [|exact K]. destruct (dlookup C d' (entries st)); exact K.
    - split; [apply clean_step; auto; discriminate|]. exact K.
    - split; [apply clean_step; auto; discriminate|]. exact K.
  Qed.

  Lemma quiet_final : forall s d h st,
    forallb (quiet C s) h = true -> Clean s st -> Kept s d st ->
    Clean s (final C st h) /\ Kept s d (final C st h).
  Proof.
    induction h as [|e t IH]; intros st Q CLN K; cbn; [split; assumption|].
    cbn in Q. apply andb_true_iff in Q. destruct Q as [Q1 Q2].
    destruct (quiet_step s d st e Q1 CLN K) as [C1 K1]. apply IH; assumption.
  Qed.

  (* in a Kept + Clean state a call with that digest is served from the store *)
  Lemma kept_call_hit : forall s d st k c ki,
    Clean s st -> Kept s d st -> canonicalise C c = Ok ki -> digest_of C ki = d ->
    fst (step C st (Call k c true)) = OSkip \/ exists v, fst (step C st (Call k c true)) = OHit v.
  Proof.
    intros s d st k c ki CLN [Hd Hl] Hc Hk. cbn. unfold cached_call.
    destruct (lookup_nat k (wraps st)); [|left; reflexivity].
    rewrite Hc, Hk. unfold in_cache_and_valid.
    destruct (clean_check_code s st k CLN Hd) as [->|[st1 [-> [C1 [Hd1 He1]]]]]; [left; reflexivity|].
    rewrite He1. destruct (dlookup C d (entries st)) as [v|]; [|congruence].
    right. exists v. reflexivity.
  Qed.

  (* ---------------------------------------------------------------- after a completed call *)
  Lemma completed_call_kept : forall st m m' k c vld v ki,
    Inv C st m -> adm_step C m (Call k c vld) = Some m' ->
    canonicalise C c = Ok ki ->
    (fst (step C st (Call k c vld)) = OHit v \/ fst (step C st (Call k c vld)) = OMiss v) ->
    Kept (code C k) (digest_of C ki) (snd (step C st (Call k c vld))).
  Proof.
    intros st m m' k c vld v ki I Ha Hc Ho. cbn in *. rewrite Hc in Ha.
    unfold cached_call in *. rewrite Hc in *.
    apply (use_cases C src_eqb_spec) in Ha. destruct Ha as [[Hnw ->]|[U ->]].
    - rewrite (not_wrapped_skip C st m k I Hnw) in Ho. cbn in Ho. destruct Ho; discriminate.
    - destruct (lookup_nat k (wraps st)); [|cbn in Ho; destruct Ho; discriminate].
      destruct (in_cache_and_valid_ok C src_eqb_spec st m k (digest_of C ki) vld I U)
        as [ov [st1 [Hv [I1 [Hd [Hr [Hov _]]]]]]].
      rewrite Hv in *. destruct ov as [v0|].
      + cbn. split; cbn; [exact Hd|]. rewrite (Hov v0 eq_refl). discriminate.
      + destruct (bind_spec C c) as [b|]; [|cbn in Ho; destruct Ho; discriminate].
        cbn. split; cbn; [exact Hd|]. rewrite (dlookup_dset_eq C digest_eqb_spec). discriminate.
  Qed.

  (* ------------------------------------------------------------- general store invariants *)
  (* hold along EVERY history (no admissibility needed) *)
  Definition Gen (st : state) : Prop :=
    (disk st = None -> entries st = []) /\ (disk st = None -> table st = []).

  Lemma gen_of_disk : forall st : state, disk st <> None -> Gen st.
  Proof. intros st H. split; intros; congruence. Qed.

  Lemma source_of_frame : forall (st : state) k s st0,
    source_of C st k = Some (s, st0) ->
    disk st0 = disk st /\ entries st0 = entries st /\ table st0 = table st /\ refs st0 = refs st /\
    lookup_nat k (wraps st0) = Some (Some s) /\ source_of C st0 k = Some (s, st0).
  Proof.
    intros st k s st0 H. unfold source_of in *.
    destruct (lookup_nat k (wraps st)) as [[s'|]|] eqn:Ew; [| |discriminate].
    - inversion H; subst. rewrite Ew. isplit; auto.
    - destruct (lookup_nat (path_of C k) (files st)) as [s'|]; [|discriminate].
      inversion H; subst. cbn. rewrite lookup_set_nat, Nat.eqb_refl. isplit; auto.
  Qed.

  Lemma check_code_disk : forall (st : state) k b st1,
    Gen st -> check_code C st k = Some (b, st1) -> disk st1 <> None.
  Proof.
    intros st k b st1 [G1 G2] H. unfold check_code in H.
    destruct (mem_nat k (table st)) eqn:Et.
    - inversion H; subst. intros Hn. rewrite (G2 Hn) in Et. discriminate.
    - destruct (source_of C st k) as [[s st0]|] eqn:Es; [|discriminate].
      destruct (disk st0) as [old|] eqn:Ed.
      + destruct (src_eqb C old s); inversion H; subst; cbn; congruence.
      + inversion H; subst; cbn; congruence.
  Qed.

  Lemma in_cache_disk : forall (st : state) k d vld ov st1,
    Gen st -> in_cache_and_valid C st k d vld = Some (ov, st1) -> disk st1 <> None.
  Proof.
    intros st k d vld ov st1 G H. unfold in_cache_and_valid in H.
    destruct (check_code C st k) as [[b st0]|] eqn:Ec; [|discriminate].
    pose proof (check_code_disk st k b st0 G Ec) as Hd.
    destruct b; [|inversion H; subst; exact Hd].
    destruct (dlookup C d (entries st0)); [destruct vld|]; inversion H; subst; cbn; exact Hd.
  Qed.

  Lemma gen_step : forall st e, Gen st -> Gen (snd (step C st e)).
  Proof.
    intros st e G. pose proof G as [G1 G2].
    assert (Hcc : forall k c vld sh, Gen (snd (cached_call C st k c vld sh))).
    { intros k c vld sh. unfold cached_call.
      destruct (lookup_nat k (wraps st)); [|exact G].
      destruct (canonicalise C c) as [ki|]; [|exact G].
      destruct (in_cache_and_valid C st k (digest_of C ki) vld) as [[ov st1]|] eqn:Ev; [|exact G].
      pose proof (in_cache_disk _ _ _ _ _ _ G Ev) as Hd.
      apply gen_of_disk.
      destruct ov; [destruct sh; exact Hd|]. destruct (bind_spec C c); [destruct sh|]; exact Hd. }
    destruct e as [j|k|k c vld|k c vld|k c vld|r|r|k| |ds| |ok]; cbn.
    - split; cbn; [exact G1|]. intros H. rewrite (G2 H). reflexivity.
    - destruct (mem_nat k (live st)); exact G.
    - apply Hcc.
    - apply Hcc.
    - destruct (lookup_nat k (wraps st)); [|exact G].
      destruct (canonicalise C c) as [ki|]; [|exact G].
      destruct (in_cache_and_valid C st k (digest_of C ki) vld) as [[ov st1]|] eqn:Ev; [|exact G].
      pose proof (in_cache_disk _ _ _ _ _ _ G Ev) as Hd.
      apply gen_of_disk. destruct ov; exact Hd.
    - destruct (nth_error (refs st) r) as [[d ?]|]; [|exact G].
      destruct (dlookup C d (entries st)); exact G.
    - destruct (nth_error (refs st) r) as [[d ?]|]; [|exact G]. cbn.
      split; cbn; [|exact G2]. intros H. rewrite (G1 H). reflexivity.
    - destruct (source_of C st k) as [[s st0]|]; [|exact G].
      apply gen_of_disk. cbn. discriminate.
    - split; reflexivity.
    - split; cbn; [|exact G2]. intros H. rewrite (G1 H). reflexivity.
    - split; cbn; [exact G1 | reflexivity].
    - split; cbn; [exact G1|]. intros H. rewrite (G2 H). destruct ok; reflexivity.
  Qed.

  Lemma gen_final : forall h st, Gen st -> Gen (final C st h).
  Proof.
    induction h as [|e t IH]; intros st G; cbn; [exact G|]. apply IH. apply gen_step. exact G.
  Qed.

  Lemma gen_init : Gen init.
  Proof. split; reflexivity. Qed.

  (* --------------------------------------------------------------------------- C06_check *)
  (* same state: check_call_in_cache says True exactly when a call there would be a Hit *)
  Lemma check_same_state : forall (st : state) k c vld,
    fst (step C st (Check k c vld)) = OCheck true <-> exists v, fst (step C st (Call k c vld)) = OHit v.
  Proof.
    intros st k c vld. cbn. unfold cached_call.
    destruct (lookup_nat k (wraps st)); [|cbn; split; [discriminate | intros [v H]; discriminate]].
    destruct (canonicalise C c) as [ki|]; [|cbn; split; [discriminate | intros [v H]; discriminate]].
    destruct (in_cache_and_valid C st k (digest_of C ki) vld) as [[[v|] st1]|]; cbn.
    - split; [intros _; exists v; reflexivity | reflexivity].
    - split; [discriminate|]. intros [v H]. destruct (bind_spec C c); discriminate.
    - split; [discriminate | intros [v H]; discriminate].
  Qed.

  Lemma source_of_cached : forall (st : state) k s,
    lookup_nat k (wraps st) = Some (Some s) -> source_of C st k = Some (s, st).
  Proof. intros st k s H. unfold source_of. rewrite H. reflexivity. Qed.

  Lemma mem_nat_cons_eq : forall k l, mem_nat k (k :: l) = true.
  Proof. intros. unfold mem_nat. cbn. rewrite Nat.eqb_refl. reflexivity. Qed.

  (* once answered, the code check answers True from then on, whatever happens to the entries *)
  Lemma check_code_twice : forall (st : state) k b st0,
    Gen st -> check_code C st k = Some (b, st0) ->
    (b = false -> entries st0 = []) /\
    (lookup_nat k (wraps st) <> None -> lookup_nat k (wraps st0) <> None) /\
    (forall en, exists st', check_code C (with_entries st0 en) k = Some (true, st') /\ entries st' = en /\
                            wraps st' = wraps st0).
  Proof.
    intros st k b st0 [G1 G2] H. unfold check_code in H.
    destruct (mem_nat k (table st)) eqn:Et.
    - inversion H; subst. split; [discriminate|]. split; [auto|]. intros en. unfold check_code. cbn. rewrite Et.
      eexists. isplit; reflexivity.
    - destruct (source_of C st k) as [[s sta]|] eqn:Es; [|discriminate].
      destruct (source_of_frame st k s sta Es) as [Hd [He [Ht [Hr [Hw _]]]]].
      assert (W : forall en dk, named C k = false \/ True ->
                  forall tb, (tb = table sta \/ tb = k :: table sta) -> (named C k = false -> tb = table sta) ->
                  (tb = table sta -> src_eqb C dk s = true) ->
                  exists st', check_code C (with_entries (with_store sta (Some dk) (entries sta) tb) en) k
                              = Some (true, st') /\ entries st' = en /\ wraps st' = wraps sta).
      { intros en dk _ tb Htb _ Hq. unfold check_code. cbn. destruct Htb as [->| ->].
        - rewrite Ht, Et. rewrite (source_of_cached _ k s) by exact Hw. cbn. rewrite (Hq eq_refl).
          eexists. isplit; reflexivity.
        - rewrite mem_nat_cons_eq. eexists. isplit; reflexivity. }
      destruct (disk sta) as [old|] eqn:Ed.
      + destruct (src_eqb C old s) eqn:Eq; inversion H; subst; clear H.
        * split; [discriminate|]. split; [intros _; congruence|]. intros en. unfold check_code. cbn. rewrite Ht, Et.
          rewrite (source_of_cached _ k s) by exact Hw. cbn. rewrite Ed, Eq. eexists. isplit; reflexivity.
        * split; [reflexivity|]. split; [intros _; cbn; congruence|]. intros en. unfold write_func_code.
          destruct (named C k) eqn:En.
          -- unfold check_code. cbn. rewrite mem_nat_cons_eq. eexists. isplit; reflexivity.
          -- unfold check_code. cbn. rewrite Ht, Et. rewrite (source_of_cached _ k s) by exact Hw. cbn.
             rewrite seqb_refl. eexists. isplit; reflexivity.
      + inversion H; subst; clear H. split; [intros _; cbn; rewrite He; apply G1; congruence|].
        split; [intros _; cbn; congruence|]. intros en. unfold write_func_code.
        destruct (named C k) eqn:En.
        * unfold check_code. cbn. rewrite mem_nat_cons_eq. eexists. isplit; reflexivity.
        * unfold check_code. cbn. rewrite Ht, Et. rewrite (source_of_cached _ k s) by exact Hw. cbn.
          rewrite seqb_refl. eexists. isplit; reflexivity.
  Qed.

  Lemma with_entries_same : forall st : state, with_entries st (entries st) = st.
  Proof. intros []. reflexivity. Qed.

  (* the state after an answered check: the very next identical lookup gives the same answer *)
  Lemma in_cache_twice : forall (st : state) k d vld ov st1,
    Gen st -> in_cache_and_valid C st k d vld = Some (ov, st1) ->
    (lookup_nat k (wraps st) <> None -> lookup_nat k (wraps st1) <> None) /\
    exists st2, in_cache_and_valid C st1 k d vld = Some (ov, st2).
  Proof.
    intros st k d vld ov st1 G H. unfold in_cache_and_valid in H.
    destruct (check_code C st k) as [[b st0]|] eqn:Ec; [|discriminate].
    destruct (check_code_twice st k b st0 G Ec) as [Hf [Hw Ht]].
    destruct b.
    - destruct (dlookup C d (entries st0)) as [v|] eqn:El.
      + destruct vld; inversion H; subst; clear H.
        * split; [exact Hw|]. destruct (Ht (entries st1)) as [st' [Hc [He _]]].
          rewrite with_entries_same in Hc. unfold in_cache_and_valid. rewrite Hc, He, El.
          eexists; reflexivity.
        * split; [exact Hw|]. destruct (Ht (dremove C d (entries st0))) as [st' [Hc [He _]]].
          unfold in_cache_and_valid. rewrite Hc, He, (dlookup_dremove_eq C). eexists; reflexivity.
      + inversion H; subst; clear H. split; [exact Hw|].
        destruct (Ht (entries st1)) as [st' [Hc [He _]]].
        rewrite with_entries_same in Hc. unfold in_cache_and_valid. rewrite Hc, He, El.
        eexists; reflexivity.
    - inversion H; subst; clear H. split; [exact Hw|].
      destruct (Ht (entries st1)) as [st' [Hc [He _]]].
      rewrite with_entries_same in Hc. unfold in_cache_and_valid. rewrite Hc, He, (Hf eq_refl).
      eexists; reflexivity.
  Qed.

  Lemma check_then_call : forall (st : state) k c vld b st1,
    Gen st -> step C st (Check k c vld) = (OCheck b, st1) ->
    (b = true -> exists v, fst (step C st1 (Call k c vld)) = OHit v) /\
    (b = false -> (exists v, fst (step C st1 (Call k c vld)) = OMiss v) \/
                  fst (step C st1 (Call k c vld)) = ORaise TypeError).
  Proof.
    intros st k c vld b st1 G H. cbn in H.
    destruct (lookup_nat k (wraps st)) as [w|] eqn:Ew; [|discriminate].
    destruct (canonicalise C c) as [ki|] eqn:Ec; [|discriminate].
    destruct (in_cache_and_valid C st k (digest_of C ki) vld) as [[ov st1']|] eqn:Ev; [|discriminate].
    destruct (in_cache_twice st k (digest_of C ki) vld ov st1' G Ev) as [Hw1 [st2 Hv2]].
    assert (Hw1' : lookup_nat k (wraps st1') <> None) by (apply Hw1; congruence).
    cbn. unfold cached_call.
    destruct ov as [v|]; inversion H; subst b st1'; clear H.
    - split; [intros _|discriminate].
      destruct (lookup_nat k (wraps st1)); [|congruence]. rewrite Ec, Hv2. exists v. reflexivity.
    - split; [discriminate|intros _].
      destruct (lookup_nat k (wraps st1)); [|congruence]. rewrite Ec, Hv2.
      destruct (bind_spec C c) as [b0|]; [left; eexists; reflexivity | right; reflexivity].
  Qed.

  (* --------------------------------------------------------------------------- C06_accepts *)
  Lemma call_accepts : forall (st : state) k c vld b,
    accepts C -> bind_spec C c = Some b ->
    fst (step C st (Call k c vld)) = OSkip \/
    exists v, fst (step C st (Call k c vld)) = OHit v \/ fst (step C st (Call k c vld)) = OMiss v.
  Proof.
    intros st k c vld b A Hb. cbn. unfold cached_call.
    destruct (lookup_nat k (wraps st)); [|left; reflexivity].
    destruct (A c b Hb) as [ki ->].
    destruct (in_cache_and_valid C st k (digest_of C ki) vld) as [[[v|] st1]|]; [| |left; reflexivity].
    - right. exists v. left. reflexivity.
    - rewrite Hb. right. eexists. right. reflexivity.
  Qed.

  (* ------------------------------------------------ the interface hypotheses are necessary *)
  Definition two_calls (c1 c2 : call) : list event :=
    [Define 0; Wrap 0; Call 0 c1 true; Call 0 c2 true].

  Lemma two_calls_outcomes : forall c1 c2 k1 k2 b1,
    canonicalise C c1 = Ok k1 -> canonicalise C c2 = Ok k2 -> bind_spec C c1 = Some b1 ->
    outcomes C (two_calls c1 c2) =
      [ODone; ODone; OMiss (f C (code C 0) b1);
       if digest_eqb C (digest_of C k2) (digest_of C k1) then OHit (f C (code C 0) b1)
       else match bind_spec C c2 with
            | Some b2 => OMiss (f C (code C 0) b2)
            | None => ORaise TypeError
            end].
  Proof.
    intros c1 c2 k1 k2 b1 H1 H2 Hb. unfold outcomes, two_calls.
    lz. rewrite ?Nat.eqb_refl, H1. lz. rewrite ?Nat.eqb_refl. lz. rewrite Hb. lz.
    rewrite ?Nat.eqb_refl, H2. lz.
    destruct (named C 0); lz; rewrite ?Nat.eqb_refl, ?seqb_refl; lz;
      (destruct (digest_eqb C (digest_of C k2) (digest_of C k1)); lz; [reflexivity|]);
      destruct (bind_spec C c2); reflexivity.
  Qed.

  Lemma rejected_call_outcome : forall c e,
    canonicalise C c = Raise e ->
    outcomes C [Define 0; Wrap 0; Call 0 c true] = [ODone; ODone; ORaise e].
  Proof.
    intros c e H. unfold outcomes. lz. rewrite ?Nat.eqb_refl, H. reflexivity.
  Qed.

End Kept.
