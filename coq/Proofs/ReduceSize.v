(* C18: the translated _get_items_to_delete equals the hand model, and the hand model
   returns the shortest prefix of the stably sorted store that meets every limit. *)
From Coq Require Import ZArith List Bool Lia ZifyBool Sorting.Permutation Sorting.Sorted.
Require Import JV.Base.PyPrelude JV.Base.SortBy JV.Model.ReduceSize JV.Gen.T_items_to_delete.
Import ListNotations.
Open Scope Z_scope.

(* ---------- small facts about sum_map / total / len ---------- *)
Lemma sum_map_acc {A} (f : A -> Z) l : forall a, fold_left (fun acc x => acc + f x) l a = a + sum_map f l.
Proof.
  unfold sum_map. induction l as [|x l IH]; intros a; cbn [fold_left]; [lia|].
  rewrite IH. rewrite (IH (0 + f x)). lia.
Qed.
Lemma total_cons x l : total (x :: l) = isize x + total l.
Proof. unfold total, sum_map. cbn [fold_left]. rewrite sum_map_acc. unfold sum_map. lia. Qed.
Lemma total_nil : total [] = 0. Proof. reflexivity. Qed.
Lemma total_app a b : total (a ++ b) = total a + total b.
Proof. induction a as [|x a IH]; [cbn [app]; rewrite total_nil; lia|]. cbn [app]. rewrite !total_cons, IH. lia. Qed.
Lemma len_cons {A} (x : A) l : len (x :: l) = 1 + len l.
Proof. unfold len. cbn [length]. lia. Qed.
Lemma len_app {A} (a b : list A) : len (a ++ b) = len a + len b.
Proof. unfold len. rewrite app_length. lia. Qed.
Lemma len_nonneg {A} (l : list A) : 0 <= len l. Proof. unfold len. lia. Qed.
Lemma total_perm a b : Permutation a b -> total a = total b.
Proof.
  induction 1 as [|x l l' _ IH|x y l|l l' l'' _ IH1 _ IH2]; rewrite ?total_cons in *; lia.
Qed.

(* ---------- min_map is a lower bound ---------- *)
Lemma fold_min_le {A} (f : A -> Z) l : forall a,
  let m := fold_left (fun acc y => if f y <? acc then f y else acc) l a in
  m <= a /\ Forall (fun x => m <= f x) l.
Proof.
  induction l as [|x l IH]; intros a; cbn [fold_left].
  - split; [lia | constructor].
  - destruct (IH (if f x <? a then f x else a)) as [H1 H2]. cbv zeta in *.
    split; [destruct (f x <? a) eqn:E; lia|].
    constructor; [destruct (f x <? a) eqn:E; lia | exact H2].
Qed.
Lemma min_map_lower {A} (f : A -> Z) l m : min_map f l = Ok m -> Forall (fun x => m <= f x) l.
Proof.
  destruct l as [|x l]; cbn [min_map]; [discriminate|]. intros [= <-].
  destruct (fold_min_le f l (f x)) as [H1 H2]. cbv zeta in *. constructor; assumption.
Qed.
Lemma min_map_ok {A} (f : A -> Z) x l : exists m, min_map f (x :: l) = Ok m.
Proof. eexists. reflexivity. Qed.

(* ---------- the translated loop is sel_loop with accumulators ---------- *)
Lemma stop_cond_translated tds tdi dl sz n it :
  ((sz >=? tds) && ((n >=? tdi) && match dl with None => true | Some d => d <? iatime it end))
  = stop_cond tds tdi dl sz n it.
Proof. unfold stop_cond. destruct dl as [d|]; lia. Qed.

(* ---------- translated = hand model ---------- *)
Lemma sel_loop_head_stop tds tdi dl l :
  (forall h t, l = h :: t -> stop_cond tds tdi dl 0 0 h = true) -> sel_loop tds tdi dl l 0 0 = [].
Proof. destruct l as [|h t]; intros H; cbn [sel_loop]; [reflexivity|]. rewrite (H h t eq_refl). reflexivity. Qed.

Theorem translated_eq_model now l bl il al :
  get_items_to_delete now l bl il al = items_to_delete_model now l bl il al.
Proof.
  unfold get_items_to_delete, items_to_delete_model.
  destruct l as [|x0 l0]; [reflexivity|].
  cbn [is_nil negb]. set (l := x0 :: l0).
  change (sum_map (fun item => isize item) l) with (total l).
  (* generic statement about the loop *)
  assert (Hloop : forall tds tdi dl (s : list item) acc sz n,
    (fix loop (l__ : list item) (st__ : list item * Z * Z) {struct l__} : result (list item * Z * Z) :=
       let '(items_to_delete, size_so_far, items_so_far) := st__ in
       match l__ with
       | [] => Ok (items_to_delete, size_so_far, items_so_far)
       | item :: rest__ =>
         if (size_so_far >=? tds) && ((items_so_far >=? tdi) &&
             match dl with None => true | Some deadline => deadline <? iatime item end)
         then Ok (items_to_delete, size_so_far, items_so_far)
         else loop rest__ (items_to_delete ++ [item], size_so_far + isize item, items_so_far + 1)
       end) s (acc, sz, n)
    = Ok (acc ++ sel_loop tds tdi dl s sz n,
          sz + total (sel_loop tds tdi dl s sz n), n + len (sel_loop tds tdi dl s sz n))).
  { intros tds tdi dl s. induction s as [|it s IH]; intros acc sz n.
    - cbn [sel_loop]. rewrite app_nil_r, total_nil. change (len (@nil item)) with 0. rewrite !Z.add_0_r. reflexivity.
    - cbn [sel_loop]. rewrite stop_cond_translated.
      destruct (stop_cond tds tdi dl sz n it).
      + rewrite app_nil_r, total_nil. change (len (@nil item)) with 0. rewrite !Z.add_0_r. reflexivity.
      + rewrite IH. rewrite <- app_assoc. cbn [app]. rewrite total_cons, len_cons.
        rewrite !Z.add_assoc. reflexivity. }
  assert (Hfin : forall tds tdi dl,
     (tds <=? 0) && ((tdi <=? 0) && match dl with None => true
            | Some d => match min_map iatime l with Ok m => m >? d | Raise _ => false end end)
       = true -> sel_loop tds tdi dl (sort_by iatime l) 0 0 = []).
  { intros tds tdi dl H. apply sel_loop_head_stop. intros h t Hs. unfold stop_cond.
    destruct dl as [d|]; [|lia].
    destruct (min_map_ok iatime x0 l0) as [m Hm]. fold l in Hm. rewrite Hm in H.
    pose proof (min_map_lower _ _ _ Hm) as Hall.
    assert (Hin : In h l).
    { eapply Permutation_in; [apply (sort_by_perm iatime l)|]. rewrite Hs. left. reflexivity. }
    rewrite Forall_forall in Hall. specialize (Hall h Hin). lia. }
  unfold select, to_delete_size, to_delete_items, deadline_of.
  destruct (min_map_ok iatime x0 l0) as [m Hm]. fold l in Hm.
  change (min_map (fun item => iatime item) l) with (min_map iatime l). rewrite Hm.
  destruct bl as [b|], il as [n|], al as [a|]; cbn [bind getvar];
    try (destruct (a <? 0) eqn:Ea; cbn [bind getvar]; [reflexivity|]).
  all: match goal with
    | |- bind (if ?c1 then (if ?c2 then Ok ?e3 else Ok false) else Ok false) _ = _ =>
        destruct c1 eqn:E1; [destruct c2 eqn:E2; [destruct e3 eqn:E3|]|]
    end; cbn [bind]; try discriminate.
  all: try (match goal with
    | |- bind ?L ?K = Ok (sel_loop ?tds ?tdi ?dl ?s 0 0) =>
        replace L with (Ok ([] ++ sel_loop tds tdi dl s 0 0, 0 + total (sel_loop tds tdi dl s 0 0),
                            0 + len (sel_loop tds tdi dl s 0 0)))
          by (symmetry; exact (Hloop tds tdi dl s [] 0 0)); cbn [bind app]; reflexivity
    end).
  all: symmetry; f_equal; apply Hfin; rewrite ?Hm; lia.
Qed.

(* ---------- the hand model computes the declarative specification ---------- *)
Lemma forallb_sorted_head d h t :
  sorted_by iatime (h :: t) -> forallb (fun i => d <? iatime i) (h :: t) = (d <? iatime h).
Proof.
  intros Hs. inversion Hs as [|? ? _ Hall]; subst. cbn [forallb].
  destruct (d <? iatime h) eqn:E; [|reflexivity]. cbn [andb].
  apply forallb_forall. intros x Hx. rewrite Forall_forall in Hall. specialize (Hall x Hx).
  unfold le_key in Hall. lia.
Qed.

Lemma stop_iff_limits now bl il al l sz n h t :
  sorted_by iatime (h :: t) -> total l = sz + total (h :: t) -> len l = n + len (h :: t) ->
  0 <= sz -> 0 <= n ->
  stop_cond (to_delete_size bl l) (to_delete_items il l) (deadline_of now al) sz n h
  = limits_okb now bl il al (h :: t).
Proof.
  intros Hs Ht Hl Hsz Hn. unfold stop_cond, limits_okb, to_delete_size, to_delete_items, deadline_of.
  destruct al as [a|]; [rewrite (forallb_sorted_head _ _ _ Hs)|]; destruct bl as [b|], il as [k|]; lia.
Qed.

Lemma sorted_tail {A} (key : A -> Z) h t : sorted_by key (h :: t) -> sorted_by key t.
Proof. intros H. inversion H; assumption. Qed.

Definition nonneg_sizes (l : list item) : Prop := Forall (fun i => 0 <= isize i) l.

Lemma spec_search_sel now bl il al l : forall s pre_rev,
  nonneg_sizes s -> 0 <= total (rev pre_rev) ->
  sorted_by iatime s -> total l = total (rev pre_rev) + total s -> len l = len (rev pre_rev) + len s ->
  spec_search now bl il al pre_rev s
  = rev pre_rev ++ sel_loop (to_delete_size bl l) (to_delete_items il l) (deadline_of now al) s
                            (total (rev pre_rev)) (len (rev pre_rev)).
Proof.
  induction s as [|h t IH]; intros pre_rev Hnn Hpre Hs Ht Hl.
  - cbn [spec_search sel_loop]. rewrite app_nil_r. destruct (limits_okb _ _ _ _ _); reflexivity.
  - cbn [spec_search sel_loop].
    rewrite (stop_iff_limits now bl il al l _ _ h t Hs Ht Hl Hpre (len_nonneg _)).
    inversion Hnn as [|? ? Hh Hnn']; subst.
    destruct (limits_okb now bl il al (h :: t)); [rewrite app_nil_r; reflexivity|].
    rewrite (IH (h :: pre_rev)).
    + cbn [rev]. rewrite <- app_assoc. cbn [app]. rewrite total_app, len_app, total_cons, total_nil.
      change (len [h]) with 1. rewrite Z.add_0_r. reflexivity.
    + exact Hnn'.
    + cbn [rev]. rewrite total_app, total_cons, total_nil. lia.
    + eapply sorted_tail; exact Hs.
    + cbn [rev]. rewrite total_app, total_cons, total_nil. rewrite total_cons in Ht. lia.
    + cbn [rev]. rewrite len_app. change (len [h]) with 1. rewrite len_cons in Hl. lia.
Qed.

Theorem select_eq_spec now l bl il al :
  nonneg_sizes l -> select now l bl il al = spec_select now l bl il al.
Proof.
  intros Hnn. unfold select, spec_select.
  rewrite (spec_search_sel now bl il al l (sort_by iatime l) []).
  - reflexivity.
  - unfold nonneg_sizes. eapply Permutation_Forall; [symmetry; apply sort_by_perm | exact Hnn].
  - cbn [rev]. rewrite total_nil. lia.
  - apply sort_by_sorted.
  - cbn [rev]. rewrite total_nil. rewrite (total_perm _ _ (sort_by_perm iatime l)). lia.
  - cbn [rev]. unfold len. rewrite sort_by_length. cbn. lia.
Qed.

(* ---------- properties of the declarative specification ---------- *)
Lemma spec_search_prefix now bl il al : forall s pre_rev,
  exists mid rest, spec_search now bl il al pre_rev s = rev pre_rev ++ mid /\ s = mid ++ rest /\
    (limits_okb now bl il al rest = true \/ rest = []) /\
    (forall mid' rest', s = mid' ++ rest' -> (length mid' < length mid)%nat ->
                        limits_okb now bl il al rest' = false).
Proof.
  induction s as [|h t IH]; intros pre_rev.
  - exists [], []. cbn [spec_search]. rewrite app_nil_r.
    split; [destruct (limits_okb _ _ _ _ _); reflexivity|]. split; [reflexivity|].
    split; [right; reflexivity|]. intros mid' rest' _ Hlt. cbn in Hlt. lia.
  - cbn [spec_search]. destruct (limits_okb now bl il al (h :: t)) eqn:E.
    + exists [], (h :: t). rewrite app_nil_r. split; [reflexivity|]. split; [reflexivity|].
      split; [left; exact E|]. intros mid' rest' _ Hlt. cbn in Hlt. lia.
    + destruct (IH (h :: pre_rev)) as (mid & rest & H1 & H2 & H3 & H4).
      exists (h :: mid), rest. split; [rewrite H1; cbn [rev]; rewrite <- app_assoc; reflexivity|].
      split; [cbn [app]; rewrite H2; reflexivity|]. split; [exact H3|].
      intros mid' rest' Heq Hlt. destruct mid' as [|h' mid'].
      * cbn [app] in Heq. subst rest'. exact E.
      * cbn [app] in Heq. injection Heq as <- Heq. apply (H4 mid' rest' Heq). cbn [length] in Hlt. lia.
Qed.

Definition limits_ok (now : Z) (bl il al : option Z) (rest : list item) : Prop :=
  (forall b, bl = Some b -> total rest <= b) /\
  (forall n, il = Some n -> len rest <= n) /\
  (forall a, al = Some a -> Forall (fun i => now - a < iatime i) rest).

Lemma limits_okb_iff now bl il al rest : limits_okb now bl il al rest = true <-> limits_ok now bl il al rest.
Proof.
  unfold limits_okb, limits_ok. split.
  - intros H. apply andb_prop in H as [H Ha]. apply andb_prop in H as [Hb Hi].
    split; [|split].
    + intros b ->. lia.
    + intros n ->. lia.
    + intros a ->. apply Forall_forall. intros x Hx. rewrite forallb_forall in Ha. specialize (Ha x Hx). lia.
  - intros (Hb & Hi & Ha). apply andb_true_intro. split; [apply andb_true_intro; split|].
    + destruct bl as [b|]; [specialize (Hb b eq_refl); lia | reflexivity].
    + destruct il as [n|]; [specialize (Hi n eq_refl); lia | reflexivity].
    + destruct al as [a|]; [|reflexivity]. apply forallb_forall. intros x Hx.
      specialize (Ha a eq_refl). rewrite Forall_forall in Ha. specialize (Ha x Hx). lia.
Qed.

Lemma limits_ok_nil now bl il al :
  (forall b, bl = Some b -> 0 <= b) -> (forall n, il = Some n -> 0 <= n) -> limits_ok now bl il al [].
Proof.
  intros Hb Hn. split; [|split].
  - intros b E. rewrite total_nil. apply Hb; exact E.
  - intros n E. change (len (@nil item)) with 0. apply Hn; exact E.
  - intros a _. constructor.
Qed.

(* ---------- the statements used by Props/C18.v ---------- *)
Theorem select_is_prefix now l bl il al :
  nonneg_sizes l -> exists rest, sort_by iatime l = select now l bl il al ++ rest.
Proof.
  intros Hnn. rewrite (select_eq_spec _ _ _ _ _ Hnn). unfold spec_select.
  destruct (spec_search_prefix now bl il al (sort_by iatime l) []) as (mid & rest & H1 & H2 & _).
  exists rest. rewrite H1. cbn [rev app]. exact H2.
Qed.

Theorem select_meets_limits now l bl il al rest :
  nonneg_sizes l ->
  (forall b, bl = Some b -> 0 <= b) -> (forall n, il = Some n -> 0 <= n) ->
  sort_by iatime l = select now l bl il al ++ rest -> limits_ok now bl il al rest.
Proof.
  intros Hnn Hb Hn Heq. rewrite (select_eq_spec _ _ _ _ _ Hnn) in Heq. unfold spec_select in Heq.
  destruct (spec_search_prefix now bl il al (sort_by iatime l) []) as (mid & rest0 & H1 & H2 & H3 & _).
  rewrite H1 in Heq. cbn [rev app] in Heq. rewrite H2 in Heq at 1.
  apply app_inv_head in Heq. subst rest0.
  destruct H3 as [H3 | ->]; [apply limits_okb_iff; exact H3 | apply limits_ok_nil; assumption].
Qed.

Theorem select_minimal now l bl il al pre' rest' :
  nonneg_sizes l ->
  sort_by iatime l = pre' ++ rest' -> (length pre' < length (select now l bl il al))%nat ->
  ~ limits_ok now bl il al rest'.
Proof.
  intros Hnn Heq Hlt Hok. rewrite (select_eq_spec _ _ _ _ _ Hnn) in Hlt. unfold spec_select in Hlt.
  destruct (spec_search_prefix now bl il al (sort_by iatime l) []) as (mid & rest0 & H1 & H2 & _ & H4).
  rewrite H1 in Hlt. cbn [rev app] in Hlt.
  specialize (H4 pre' rest' Heq Hlt). apply limits_okb_iff in Hok. congruence.
Qed.

(* everything evicted was accessed no later than everything kept *)
Theorem select_lru now l bl il al rest x y :
  sort_by iatime l = select now l bl il al ++ rest -> In x (select now l bl il al) -> In y rest ->
  iatime x <= iatime y.
Proof.
  intros Heq Hx Hy. pose proof (sort_by_sorted iatime l) as Hs. rewrite Heq in Hs.
  clear Heq. induction (select now l bl il al) as [|d ds IH]; [destruct Hx|].
  cbn [app] in Hs. inversion Hs as [|? ? Hs' Hall]; subst.
  destruct Hx as [-> | Hx]; [|apply IH; assumption].
  rewrite Forall_forall in Hall. apply (Hall y). apply in_or_app. right. exact Hy.
Qed.

(* ---------- lifted to the function translated from the source ---------- *)
Lemma translated_ok_select now l bl il al del :
  get_items_to_delete now l bl il al = Ok del -> del = select now l bl il al.
Proof.
  rewrite translated_eq_model. unfold items_to_delete_model.
  destruct l as [|x l']; [intros [= <-]; reflexivity|].
  destruct al as [a|]; [destruct (a <? 0)|]; intros H; inversion H; reflexivity.
Qed.

Lemma translated_outcome now l bl il al :
  (exists del, get_items_to_delete now l bl il al = Ok del) \/
  (get_items_to_delete now l bl il al = Raise ValueError /\ l <> [] /\ exists a, al = Some a /\ a < 0).
Proof.
  rewrite translated_eq_model. unfold items_to_delete_model.
  destruct l as [|x l']; [left; eexists; reflexivity|].
  destruct al as [a|]; [destruct (a <? 0) eqn:E|]; try (left; eexists; reflexivity).
  right. split; [reflexivity|]. split; [discriminate|]. exists a. split; [reflexivity | lia].
Qed.

Lemma translated_valid_ok now l bl il al :
  (forall a, al = Some a -> 0 <= a) -> exists del, get_items_to_delete now l bl il al = Ok del.
Proof.
  intros Ha. destruct (translated_outcome now l bl il al) as [H | (_ & _ & a & -> & Hlt)]; [exact H|].
  specialize (Ha a eq_refl). lia.
Qed.
