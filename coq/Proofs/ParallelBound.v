(* M1 proofs, part 8: the laziness bound of C09.
   With pre_dispatch = p items, n_jobs workers and batch sizes at most B, as long as no completion callback
   ran its dispatch section while the caller was still inside _start (ghost flag [noisy], finding F26):
     taken - n_completed <= p*B + n_jobs*B      and      at most p batches are in flight. *)
From Coq Require Import List Bool Arith Lia PeanoNat.
Require Import JV.Model.ParallelCore JV.Proofs.ParallelLemmas JV.Proofs.ParallelInv1 JV.Proofs.ParallelTrk
               JV.Proofs.ParallelInv2 JV.Proofs.ParallelFrame2 JV.Proofs.ParallelInv3 JV.Proofs.ParallelInv4
               JV.Proofs.ParallelInv5 JV.Proofs.ParallelFrame3 JV.Proofs.ParallelInv6 JV.Proofs.ParallelFrame4.
Import ListNotations.

Section Bound.
Variable B : nat.
Definition okB (b : nat) : Prop := 1 <= b <= B.
Lemma okB_pos b : okB b -> 1 <= b. Proof. unfold okB. lia. Qed.

Definition in_start (ph : phase_t) : Prop := ph = StartFirst \/ ph = StartLoop.

Record InvB (s : st) : Prop := {
  b_ready_sz : Forall (fun t => length t <= B) (ready s);
  b_trk_sz : forall t, is_cur s t = true -> size_of s t <= B;
  b_ready_items : length (concat (ready s)) <= n_jobs (c s) * B;
  b_start : noisy s = false -> ifail s = None -> forall p, pre (c s) = PreN p -> in_start (phase s) ->
            exists q, pre_left s = Some q /\ length (opens s) + length (ready s) + q <= p;
  b_after : noisy s = false -> ifail s = None -> forall p, pre (c s) = PreN p -> after_start (phase s) ->
            length (opens s) <= p
}.
Definition InvAB (s : st) : Prop := InvAll s /\ InvB s.
Ltac openB H := destruct H as [Brs Bts Bri Bst Baf].

(* transformations that leave the dispatch side alone and move the phase forward inside its class *)
Lemma invB_same s s' : InvB s ->
  ready s' = ready s -> trk s' = trk s -> cid s' = cid s -> closed s' = closed s -> c s' = c s ->
  ifail s' = ifail s -> pre_left s' = pre_left s -> (noisy s' = false -> noisy s = false) ->
  (in_start (phase s') -> in_start (phase s)) -> (after_start (phase s') -> after_start (phase s)) ->
  InvB s'.
Proof.
  intros HB Er Et Ei Ecl Ec Eif Epl En Es Ea. openB HB.
  constructor; unfold is_cur, size_of, opens; rewrite ?tasks_of_fun; rewrite ?Er, ?Et, ?Ei, ?Ecl, ?Ec, ?Eif, ?Epl; auto.
Qed.

Lemma filter_remove_length t l : NoDup l -> In t l ->
  S (length (filter (fun x => negb (Nat.eqb t x)) l)) = length l.
Proof.
  induction l as [|a l IH]; intros Hnd Hin; [destruct Hin|].
  inversion Hnd as [|? ? Hna Hnd']; subst. cbn [filter].
  destruct Hin as [->|Hin].
  - rewrite Nat.eqb_refl. cbn [negb length]. f_equal.
    change (filter (fun x => negb (t =? x)) l) with (remove_id t l). rewrite (remove_id_notin t l Hna). reflexivity.
  - destruct (Nat.eqb_spec t a) as [->|Hne]; [contradiction|]. cbn [negb length]. rewrite (IH Hnd' Hin). reflexivity.
Qed.

Lemma chunk_sizes b fin items t r : 1 <= b <= B -> fin <= Nat.max 1 b -> chunks fin items = t :: r ->
  Forall (fun x => length x <= B) (t :: r).
Proof.
  intros Hb Hf Hc. apply Forall_forall. intros x Hx. rewrite <- Hc in Hx.
  apply chunks_size in Hx. lia.
Qed.

Lemma length_concat_tail (t : list nat) r : length (concat r) <= length (concat (t :: r)).
Proof. cbn [concat]. rewrite app_length. lia. Qed.

(* what a dispatch does to the quantities of the bound *)
Definition disp_effect (s : st) (fo : bool) (s' : st) : Prop :=
  Forall (fun t => length t <= B) (ready s') /\
  (forall t, is_cur s' t = true -> size_of s' t <= B) /\
  length (concat (ready s')) <= n_jobs (c s') * B /\
  length (opens s') <= S (length (opens s)) /\
  (ifail s = None ->
     (length (opens s') + length (ready s') <= length (opens s) + length (ready s) /\ pre_left s' = pre_left s) \/
     (ready s = [] /\ exists k, 1 <= k /\ length (opens s') + length (ready s') <= length (opens s) + k /\
        (fo = true -> pre_left s' = pre_left s) /\
        (fo = false -> forall q, pre_left s = Some q -> k <= q /\ pre_left s' = Some (q - k)))).

Lemma invB_dispatch s b fo s' r : Inv2 s -> InvB s -> 1 <= n_jobs (c s) -> okB b -> dispatch_shape s b fo s' r ->
  disp_effect s fo s'.
Proof.
  intros H2 HB Hnj Hb Hsh. openB HB. unfold disp_effect.
  assert (Hidc : ~ In (length (trk s)) (closed s)) by (apply not_in_valid, allcur_valid, (j_closed s H2)).
  assert (Hnew : forall (k : tracker) u, tk_cid k = cid s -> length (tk_tasks k) <= B ->
     cur_of (trk s ++ [k]) (cid s) u = true -> length (tasks_in (trk s ++ [k]) u) <= B).
  { intros k u Hc Hk Hu. destruct (Nat.lt_ge_cases u (length (trk s))) as [Hlt|Hge].
    - rewrite cur_of_app_old in Hu by exact Hlt. rewrite tasks_in_app_old by exact Hlt. apply (Bts u Hu).
    - unfold cur_of in Hu. destruct (nth_error (trk s ++ [k]) u) eqn:E; [|discriminate].
      assert (u < length (trk s ++ [k])) by (apply nth_error_Some; congruence).
      rewrite app_length in H. cbn in H. assert (u = length (trk s)) by lia. subst u.
      rewrite tasks_in_app_new. exact Hk. }
  assert (Hop : forall k, tk_cid k = cid s -> opens_of (trk s ++ [k]) (cid s) (closed s) = opens s ++ [length (trk s)]).
  { intros k Hc. apply opens_of_app_new; [exact Hc | exact Hidc]. }
  inversion Hsh; subst.
  - (* abort *)
    split; [exact Brs|]. split; [exact Bts|]. split; [exact Bri|]. split; [lia|]. intros _. left. split; [lia | reflexivity].
  - (* from the look-ahead queue *)
    match goal with Hr : ready s = _ |- _ => rewrite Hr in Brs, Bri; rename Hr into Hrd end.
    apply Forall_cons_iff in Brs as [Ht Hr'].
    set (k := {| tk_cid := cid s; tk_tasks := t; tk_status := Pending |}).
    assert (Eo : opens (submit_state s (taken s) (pre_left s) r0 t) = opens s ++ [length (trk s)]) by (apply (Hop k); reflexivity).
    split; [exact Hr'|]. split.
    { intros u Hu. unfold size_of. rewrite tasks_of_fun. apply (Hnew k u eq_refl Ht Hu). }
    split.
    { cbn [ready c submit_state do_submit upd_dispatch]. pose proof (length_concat_tail t r0). lia. }
    split; [rewrite Eo, app_length; cbn; lia|].
    intros _. left. split; [|reflexivity]. rewrite Eo, app_length, Hrd. cbn. lia.
  - (* iterator failure *)
    set (k := {| tk_cid := cid s; tk_tasks := []; tk_status := Failed ErrIter |}).
    assert (Eo : opens (do_iter_error s f pl) = opens s ++ [length (trk s)]) by (apply (Hop k); reflexivity).
    split; [exact Brs|]. split.
    { intros u Hu. unfold size_of. rewrite tasks_of_fun. apply (Hnew k u eq_refl); [cbn; lia | exact Hu]. }
    split; [exact Bri|]. split; [rewrite Eo, app_length; cbn; lia|].
    intros Hi. congruence.
  - (* none *)
    split; [exact Brs|]. split; [exact Bts|]. split; [exact Bri|]. split; [lia|]. intros _. left. split; [lia | reflexivity].
  - (* a new slice *)
    match goal with Hc : chunks _ _ = _ |- _ => pose proof Hc as Hchunks end.
    assert (Hsz : Forall (fun x => length x <= B) (t :: r0)) by (eapply chunk_sizes; eauto).
    apply Forall_cons_iff in Hsz as [Ht Hr'].
    set (kk := {| tk_cid := cid s; tk_tasks := t; tk_status := Pending |}).
    assert (Eo : opens (submit_state s (taken s + k) pl r0 t) = opens s ++ [length (trk s)]) by (apply (Hop kk); reflexivity).
    assert (Hcount : length (t :: r0) <= k).
    { rewrite <- Hchunks. etransitivity; [apply chunks_count|]. rewrite seq_length. lia. }
    assert (Hitems : length (concat (t :: r0)) = k) by (rewrite <- Hchunks, chunks_concat, seq_length; reflexivity).
    split; [exact Hr'|]. split.
    { intros u Hu. unfold size_of. rewrite tasks_of_fun. apply (Hnew kk u eq_refl Ht Hu). }
    split.
    { cbn [ready c submit_state do_submit upd_dispatch]. pose proof (length_concat_tail t r0). unfold okB in Hb. nia. }
    split; [rewrite Eo, app_length; cbn; lia|].
    intros _. right. split; [assumption|]. exists k. split; [assumption|]. split.
    { rewrite Eo, app_length. cbn [length ready submit_state do_submit upd_dispatch] in *. lia. }
    split.
    { intros E. match goal with H : fo = true -> _ |- _ => rewrite (H E) end. reflexivity. }
    intros E q Hq. match goal with H : fo = false -> _ |- _ => destruct (H E) as [Hk ->] end.
    split; [apply Hk; exact Hq|]. cbn. rewrite Hq. reflexivity.
Qed.

Lemma phase_cases (ph : phase_t) : ph = Idle \/ in_start ph \/ after_start ph.
Proof. destruct ph; cbn; auto; right; left; unfold in_start; auto. Qed.

Lemma in_start_not_after ph : in_start ph -> after_start ph -> False.
Proof. intros [-> | ->] H; exact H. Qed.

(* the caller's dispatch inside _start (both combined steps share this) *)
Lemma invB_start_step_any s b s1 r : InvAll s -> InvB s -> 1 <= n_jobs (c s) -> okB b -> in_start (phase s) ->
  dispatch_shape s b false s1 r ->
  forall s2, ready s2 = ready s1 -> trk s2 = trk s1 -> cid s2 = cid s1 -> closed s2 = closed s1 -> c s2 = c s1 ->
    ifail s2 = ifail s1 -> pre_left s2 = pre_left s1 -> noisy s2 = noisy s1 -> InvB s2.
Proof.
  intros HA HB Hnj Hb Hst Hsh s2 Er Et Ei Ecl Ec Eif Epl En.
  destruct HA as [[[[[H1 H2] H3] H4] H5] H6].
  pose proof (invB_dispatch s b false s1 r H2 HB Hnj Hb Hsh) as (D1 & D2 & D3 & D4 & D5).
  assert (Hc1 : c s1 = c s) by (inversion Hsh; subst; reflexivity).
  assert (Hn1 : noisy s1 = noisy s) by (inversion Hsh; subst; reflexivity).
  assert (Hi1 : ifail s1 = ifail s) by (inversion Hsh; subst; reflexivity).
  openB HB.
  assert (Hsum : noisy s = false -> ifail s = None -> forall p, pre (c s) = PreN p ->
            exists q, pre_left s1 = Some q /\ length (opens s1) + length (ready s1) + q <= p).
  { intros Hn Hi p Hp. destruct (Bst Hn Hi p Hp Hst) as (q & Hq & Hle).
    destruct (D5 Hi) as [[A Bq] | (Hr0 & k & Hk1 & Hk2 & _ & Hk4)].
    - exists q. split; [congruence | lia].
    - destruct (Hk4 eq_refl q Hq) as [Hkq Hq']. exists (q - k). split; [exact Hq'|]. rewrite Hr0 in Hle. cbn in Hle. lia. }
  constructor; unfold is_cur, size_of, opens; rewrite ?tasks_of_fun; rewrite ?Er, ?Et, ?Ei, ?Ecl, ?Ec, ?Eif, ?Epl, ?En.
  - exact D1.
  - exact D2.
  - exact D3.
  - rewrite Hn1, Hi1, Hc1. intros Hn Hi p Hp _. exact (Hsum Hn Hi p Hp).
  - rewrite Hn1, Hi1, Hc1. intros Hn Hi p Hp _. destruct (Hsum Hn Hi p Hp) as (q & _ & Hle). unfold opens in Hle. lia.
Qed.

Lemma invB_start_step s b s1 r : InvAll s -> InvB s -> 1 <= n_jobs (c s) -> okB b -> in_start (phase s) ->
  dispatch_shape s b false s1 r ->
  forall s2, ready s2 = ready s1 -> trk s2 = trk s1 -> cid s2 = cid s1 -> closed s2 = closed s1 -> c s2 = c s1 ->
    ifail s2 = ifail s1 -> pre_left s2 = pre_left s1 -> noisy s2 = noisy s1 ->
    (phase s2 = StartLoop \/ phase s2 = Retrieving) -> InvB s2.
Proof. intros HA HB Hnj Hb Hst Hsh s2 Er Et Ei Ecl Ec Eif Epl En _. eapply invB_start_step_any; eassumption. Qed.

Lemma invB_cb_close s t k : Inv2 s -> InvB s -> nth_error (trk s) t = Some k -> In t (cbmid s) -> tk_cid k = cid s ->
  InvB (closed_state s t k) /\
  (noisy (closed_state s t k) = false -> in_start (phase s) -> False) /\
  S (length (opens (closed_state s t k))) = length (opens s).
Proof.
  intros H2 HB Hk Hin Hc. openB HB.
  assert (Hct : is_cur s t = true) by (unfold is_cur, cur_of; rewrite Hk; apply Nat.eqb_eq; exact Hc).
  assert (Htc : ~ In t (closed s)) by (intros A; destruct (j_cl_mid s H2 t A) as [X _]; exact (X Hin)).
  assert (Hto : In t (opens s)) by (apply opens_of_In; split; assumption).
  assert (Eo : opens (closed_state s t k) = filter (fun x => negb (Nat.eqb t x)) (opens s)).
  { unfold opens, closed_state. cbn [trk cid closed mark_closed add_comp]. apply opens_of_close. }
  assert (Hlen : S (length (opens (closed_state s t k))) = length (opens s)).
  { rewrite Eo. apply filter_remove_length; [apply opens_of_NoDup | exact Hto]. }
  assert (Hnoisy : noisy (closed_state s t k) = false -> in_start (phase s) -> False).
  { unfold closed_state. cbn [noisy mark_closed add_comp phase]. intros A [E | E]; rewrite E in A; rewrite orb_true_r in A; discriminate. }
  split; [|split; assumption].
  constructor; unfold is_cur, size_of; rewrite ?tasks_of_fun;
    cbn [ready trk cid c ifail pre_left phase closed_state mark_closed add_comp]; auto.
  - intros Hn Hi p Hp Hs. exfalso. exact (Hnoisy Hn Hs).
  - intros Hn Hi p Hp Ha. assert (Hn0 : noisy s = false).
    { unfold closed_state in Hn. cbn [noisy mark_closed add_comp] in Hn. apply orb_false_iff in Hn. tauto. }
    specialize (Baf Hn0 Hi p Hp Ha). lia.
Qed.

Theorem reachb_invab : forall s, reachb okB s -> InvAB s.
Proof.
  apply (ParallelFrame4.P_reach okB okB_pos InvAB).
  - split; [exact invall_init|]. constructor; cbn; auto; try lia.
    { intros t Hc. unfold is_cur, cur_of in Hc. cbn in Hc. destruct t; discriminate. }
    { intros _ _ p E. discriminate E. }
  - (* call *)
    intros s cf n f [HA HB] Hcf Hr Hp. split; [apply invall_call; assumption|].
    destruct HA as [[[[[H1 H2] H3] H4] H5] H6].
    assert (Hfresh : curids_of (trk s) (S (cid s)) = []) by (apply curids_of_fresh, (j_cids s H2)).
    constructor; unfold is_cur, size_of, opens, opens_of; rewrite ?tasks_of_fun; cbn [ready trk cid closed c ifail pre_left phase noisy do_call].
    + constructor.
    + intros t Hc. assert (Hin : In t (curids_of (trk s) (S (cid s)))) by (apply curids_of_In; exact Hc).
      rewrite Hfresh in Hin. destruct Hin.
    + cbn. lia.
    + intros _ _ p Hp' _. rewrite Hp'. cbn. exists p. rewrite Hfresh. cbn. split; [reflexivity | lia].
    + intros _ _ p _ [].
  - (* start_first *)
    intros s b s1 r [HA HB] Hnj Hb Hph Hsh. split; [eapply invall_start_first; [exact HA | exact Hnj | apply okB_pos; exact Hb | exact Hph | exact Hsh]|].
    unfold ParallelFrame4.start_first_next.
    destruct (aborting _); (eapply (invB_start_step s b s1 r HA HB Hnj Hb (or_introl Hph) Hsh); try reflexivity; cbn; auto).
  - (* start_loop *)
    intros s b s1 r [HA HB] Hnj Hb Hph Hsh. split; [eapply invall_start_loop; [exact HA | exact Hnj | apply okB_pos; exact Hb | exact Hph | exact Hsh]|].
    pose proof (dispatch_shape_phase _ _ _ _ _ Hsh) as Hp1. rewrite Hph in Hp1.
    unfold ParallelFrame4.start_loop_next.
    destruct r; [destruct (aborting s1)|];
      (eapply (invB_start_step s b s1 _ HA HB Hnj Hb (or_intror Hph) Hsh); try reflexivity; cbn; auto).
  - (* cb_start *)
    intros s t o [HA HB]. split; [apply invall_cb_start; exact HA|].
    destruct (cb_start_fields3 s t o) as (A1 & A2 & A3 & A4 & A5 & A6 & A7 & A8 & A9 & A10 & A11).
    openB HB.
    assert (Et : forall u, tasks_in (trk (cb_start s t o)) u = tasks_in (trk s) u /\ is_cur (cb_start s t o) u = is_cur s u).
    { intros u. unfold cb_start. destruct (get_trk s t) as [k|]; [|auto].
      destruct (negb (mem_id t (inflight s))); [auto|]. destruct (negb (tk_cid k =? cid s) || aborting s); [auto|].
      unfold is_cur. cbn [trk cid]. destruct (tk_status k); auto.
      rewrite set_status_eq. split; [apply tasks_in_set_status | apply cur_of_set_status]. }
    assert (Ei : ifail (cb_start s t o) = ifail s /\ noisy (cb_start s t o) = noisy s).
    { unfold cb_start. destruct (get_trk s t) as [k|]; [|auto].
      destruct (negb (mem_id t (inflight s))); [auto|]. destruct (negb (tk_cid k =? cid s) || aborting s); auto. }
    destruct Ei as [Ei En].
    assert (Eo : opens (cb_start s t o) = opens s).
    { unfold opens, opens_of. rewrite A9. unfold curids in A8. rewrite A8. reflexivity. }
    constructor; rewrite ?A6, ?A1, ?A5, ?A11, ?Ei, ?En, ?Eo; auto.
    intros u Hu. destruct (Et u) as [E1 E2]. unfold size_of. rewrite tasks_of_fun, E1. rewrite E2 in Hu. apply (Bts u Hu).
  - (* cb_finish, no dispatch *)
    intros s t k [HA HB] Hk Hin Hc Ho. split; [apply invall_cb_finish_noorig; assumption|].
    destruct HA as [[[[[H1 H2] H3] H4] H5] H6].
    destruct (invB_cb_close s t k H2 HB Hk Hin Hc) as [A _]. exact A.
  - (* cb_finish with dispatch_next *)
    intros s t k b s2 r [HA HB] Hnj Hb Hk Hin Hc Ho Hsh.
    split; [eapply invall_cb_finish_orig; [exact HA | exact Hnj | apply okB_pos; exact Hb | exact Hk | exact Hin | exact Hc | exact Ho | exact Hsh]|].
    pose proof (inv12345_cb_close s t k (proj1 HA) Hk Hin Hc) as HA1. fold (closed_state s t k) in HA1.
    destruct HA as [[[[[H1 H2] H3] H4] H5] H6].
    destruct (invB_cb_close s t k H2 HB Hk Hin Hc) as (HB1 & Hnz & Hlen).
    assert (H21 : Inv2 (closed_state s t k)).
    { destruct HA1 as [Ha _]. destruct Ha as [Hb' _]. destruct Hb' as [Hc' _]. destruct Hc' as [_ HX]. exact HX. }
    pose proof (invB_dispatch (closed_state s t k) b true s2 r H21 HB1 Hnj Hb Hsh) as (D1 & D2 & D3 & D4 & D5).
    assert (Hc2 : c s2 = c s) by (inversion Hsh; subst; reflexivity).
    assert (Hn2 : noisy s2 = noisy (closed_state s t k)) by (inversion Hsh; subst; reflexivity).
    assert (Hi2 : ifail s2 = ifail s) by (inversion Hsh; subst; reflexivity).
    assert (Hp2 : phase s2 = phase s) by (inversion Hsh; subst; reflexivity).
    openB HB.
    assert (HB2 : InvB s2).
    { constructor; auto.
      - rewrite Hn2, Hp2. intros Hn Hi0 p0 Hp0 Hs. exfalso. exact (Hnz Hn Hs).
      - rewrite Hn2, Hi2, Hc2, Hp2. intros Hn Hi p Hp Ha.
        assert (Hn0 : noisy s = false).
        { unfold closed_state in Hn. cbn [noisy mark_closed add_comp] in Hn. apply orb_false_iff in Hn. tauto. }
        specialize (Baf Hn0 Hi p Hp Ha). lia. }
    destruct r; [exact HB2|].
    eapply invB_same; [exact HB2 | reflexivity ..| cbn; auto | cbn; auto | cbn; auto].
  - (* cb_stale *)
    intros s t k [HA HB] Hk Hin Hc. split; [eapply invall_cb_stale; eassumption|].
    eapply invB_same; [exact HB | reflexivity ..| cbn; auto | cbn; auto | cbn; auto].
  - intros s [HA HB]. split; [apply invall_want; exact HA|].
    eapply invB_same; [exact HB | reflexivity ..| cbn; auto | cbn; auto | cbn; auto].
  - intros s [HA HB] Hp. split; [apply invall_close_try; assumption|].
    eapply invB_same; [exact HB | reflexivity ..| cbn; auto | cbn; unfold in_start; intros [A|A]; discriminate | cbn; rewrite Hp; auto].
  - (* the backend refuses a batch *)
    intros s b s1 [HA HB] Hnj Hb Hph Hsh. split; [eapply invall_refuse; [exact HA | exact Hnj | apply okB_pos; exact Hb | left; exact Hph | exact Hsh]|].
    eapply (invB_start_step_any s b s1 true HA HB Hnj Hb (or_introl Hph) Hsh); reflexivity.
  - intros s b s1 [HA HB] Hnj Hb Hph Hsh. split; [eapply invall_refuse; [exact HA | exact Hnj | apply okB_pos; exact Hb | right; exact Hph | exact Hsh]|].
    eapply (invB_start_step_any s b s1 true HA HB Hnj Hb (or_intror Hph) Hsh); reflexivity.
  - intros s r [HA HB] Hp. split; [eapply invall_close_drain; eassumption|].
    eapply invB_same; [exact HB | reflexivity ..| cbn; auto | cbn; unfold in_start; intros [A|A]; discriminate | cbn; rewrite Hp; auto].
  - intros s j [HA HB] Hw Ht Hst. split; [apply invall_timeout; assumption|].
    openB HB. constructor; unfold is_cur, size_of, opens; rewrite ?tasks_of_fun; cbn [ready trk cid closed c ifail pre_left phase noisy do_timeout];
      rewrite ?set_status_eq, ?opens_of_set_status; auto.
    intros u Hu. rewrite cur_of_set_status in Hu. rewrite tasks_in_set_status. apply (Bts u Hu).
  - intros s v r [HA HB] Hp. split; [eapply invall_yield; eassumption|].
    eapply invB_same; [exact HB | reflexivity ..| cbn; auto | cbn; auto | cbn; auto].
  - intros s e [HA HB] Hp Hpo Hab Hff. split; [eapply invall_raise_fast; eassumption|].
    eapply invB_same; [exact HB | reflexivity ..| cbn; auto | cbn; unfold in_start; intros [A|A]; discriminate | cbn; rewrite Hp; auto].
  - intros s [HA HB] Hp Hpo Hc. split; [apply invall_loop_exit; assumption|].
    eapply invB_same; [exact HB | reflexivity ..| cbn; auto | cbn; unfold in_start; intros [A|A]; discriminate | cbn; rewrite Hp; auto].
  - intros s j js [HA HB] Hp Hpo Hab Hj Hst. split; [eapply invall_pop_done; eassumption|].
    eapply invB_same; [exact HB | reflexivity ..| cbn; auto | cbn; unfold in_start; intros [A|A]; discriminate | cbn; rewrite Hp; auto].
  - intros s j js e [HA HB] Hp Hpo Hab Hj Hst. split; [eapply invall_pop_failed; eassumption|].
    eapply invB_same; [exact HB | reflexivity ..| cbn; auto | cbn; unfold in_start; intros [A|A]; discriminate | cbn; rewrite Hp; auto].
  - intros s [HA HB] Hp Hpo. split; [apply invall_drain_end; assumption|].
    eapply invB_same; [exact HB | reflexivity ..| cbn; auto | cbn; unfold in_start; intros [A|A]; discriminate | cbn; rewrite Hp; auto].
  - intros s j js [HA HB] Hp Hpo Hst. split; [eapply invall_drain_pop; eassumption|].
    eapply invB_same; [exact HB | reflexivity ..| cbn; auto | cbn; unfold in_start; intros [A|A]; discriminate | cbn; rewrite Hp; auto].
  - intros s j js [HA HB] Hp Hpo Hst. split; [eapply invall_drain_bad; eassumption|].
    eapply invB_same; [exact HB | reflexivity ..| cbn; auto | cbn; unfold in_start; intros [A|A]; discriminate | cbn; rewrite Hp; auto].
  - intros s [HA _]. apply invall_wf. exact HA.
Qed.
End Bound.

(* ---------------- the bound ---------------- *)
Lemma sum_sizes_le B s l : (forall t, In t l -> size_of s t <= B) -> sum_list (map (size_of s) l) <= length l * B.
Proof.
  induction l as [|a l IH]; intros H; cbn [map sum_list fold_right length]; [lia|].
  fold (sum_list (map (size_of s) l)). specialize (IH (fun t Ht => H t (or_intror Ht))).
  pose proof (H a (or_introl eq_refl)). lia.
Qed.

Theorem laziness_bound B s p : reachb (okB B) s -> noisy s = false -> ifail s = None -> pre (c s) = PreN p ->
  phase s <> Idle ->
  taken s - n_comp s <= p * B + n_jobs (c s) * B /\
  length (opens s) <= p /\
  length (filter (is_cur s) (inflight s)) <= p.
Proof.
  intros Hr Hn Hi Hp Hph. destruct (reachb_invab B s Hr) as [HA HB].
  destruct HA as [[[[[H1 H2] H3] H4] H5] H6]. destruct HB as [Brs Bts Bri Bst Baf].
  assert (Hop : length (opens s) <= p).
  { destruct (phase_cases (phase s)) as [A | [A | A]]; [contradiction | |].
    - destruct (Bst Hn Hi p Hp A) as (q & _ & Hq). lia.
    - apply (Baf Hn Hi p Hp A). }
  split; [|split; [exact Hop|]].
  - destruct H1 as [_ Hpart _ _ _]. specialize (Hpart Hi).
    apply (f_equal (@length nat)) in Hpart. rewrite app_length, seq_length in Hpart.
    pose proof (j_ndisp s H2) as Hd. pose proof (j_cnt s H2) as Hc.
    assert (Hs : sum_list (map (size_of s) (opens s)) <= length (opens s) * B).
    { apply sum_sizes_le. intros t Ht. apply Bts. apply opens_of_In in Ht. tauto. }
    nia.
  - etransitivity; [|exact Hop]. apply NoDup_incl_length.
    + apply NoDup_filter. apply (j_nd_infl s H2).
    + intros t Ht. apply filter_In in Ht. destruct Ht as [Hin Hc]. apply opens_of_In. split; [exact Hc|].
      intros Hcl. destruct (j_cl_mid s H2 t Hcl) as [_ X]. exact (X Hin).
Qed.

(* F26: when a completion callback runs its dispatch section while the caller is still inside _start, the
   caller drains the look-ahead queue the callback refilled and the bound is exceeded *)
Definition f26_events : list ev :=
  [ECall {| n_jobs := 4; pre := PreN 1; mode := Ordered |} 18 None; EDispatch 2; ECbStart 0 None; ECbFinish 0 2;
   EDispatch 2; EDispatch 2; ECbStart 3 None; EDispatch 2; ECbFinish 3 2].

Lemma f26_witness :
  let s := fst (run_events true init f26_events) in
  noisy s = true /\ taken s - n_comp s = 14 /\ 1 * 2 + 4 * 2 = 10 /\ length (opens s) = 4 /\ pre (c s) = PreN 1.
Proof. vm_compute. repeat split. Qed.

Lemma f26_wf : Forall wf_ev f26_events.
Proof. unfold f26_events. repeat constructor; cbn; lia. Qed.
