(* Proofs about M8 (Model/NJobs.v) and about the functions regenerated from the source (Gen/T_njobs.v). *)
From Coq Require Import ZArith List Bool Lia ZifyBool.
Require Import JV.Base.PyPrelude JV.Model.NJobs JV.Gen.T_njobs JV.Gen.T_nested JV.Gen.T_call.
Import ListNotations.
Open Scope Z_scope.

(* ------------------------------------------------------------------ translated = hand model *)
(* robust against behaviour-preserving rewrites of the source: split on every condition of both sides, then
   linear arithmetic (ZifyBool lets lia see through the boolean connectives) *)
Ltac split_ifs :=
  repeat match goal with
         | |- context [if ?c then _ else _] => let E := fresh "E" in destruct c eqn:E
         end.
Ltac same_result :=
  cbn [bind]; split_ifs; cbn [bind];
  first [ reflexivity | f_equal; lia | exfalso; lia ].

Lemma gen_seq_eq : forall e l n, seq_effective_n_jobs n = eff_model KSeq e l n.
Proof. intros. unfold seq_effective_n_jobs, eff_model. same_result. Qed.

Lemma gen_pool_eq : forall mp cpus n, pool_effective_n_jobs mp cpus n = pool_eff mp cpus n.
Proof. intros. unfold pool_effective_n_jobs, pool_eff, resolve. same_result. Qed.

Lemma gen_loky_eq : forall e l n,
  loky_effective_n_jobs (e_mp_none e) (e_cpus e) (e_daemon e) (e_depth e) (e_main e) l n = eff_model KLoky e l n.
Proof. intros. unfold loky_effective_n_jobs, eff_model, thread_guard, resolve. same_result. Qed.

Lemma gen_mp_eq : forall e l n,
  mp_effective_n_jobs (e_mp_none e) (e_cpus e) (e_daemon e) (e_depth e) (e_main e) l n = eff_model KMp e l n.
Proof.
  intros. unfold mp_effective_n_jobs, eff_model, thread_guard. rewrite ?gen_pool_eq. unfold pool_eff, resolve. same_result.
Qed.

(* effective_n_jobs of backend class k as the SOURCE says it (regenerated functions) *)
Definition eff_gen (k : kind) (e : penv) (level n : Z) : result Z :=
  match k with
  | KSeq => seq_effective_n_jobs n
  | KThr => pool_effective_n_jobs (e_mp_none e) (e_cpus e) n
  | KLoky => loky_effective_n_jobs (e_mp_none e) (e_cpus e) (e_daemon e) (e_depth e) (e_main e) level n
  | KMp => mp_effective_n_jobs (e_mp_none e) (e_cpus e) (e_daemon e) (e_depth e) (e_main e) level n
  end.

Lemma eff_gen_eq_model : forall k e l n, eff_gen k e l n = eff_model k e l n.
Proof.
  intros [] e l n; cbn [eff_gen].
  - reflexivity.
  - apply gen_pool_eq.
  - apply gen_loky_eq.
  - apply gen_mp_eq.
Qed.

Lemma gen_cpu_count_eq : forall os_raw aff cg loky_env phys,
  cpu_count os_raw aff cg loky_env phys false = Ok (cpu_count_model os_raw aff cg loky_env).
Proof.
  intros. unfold cpu_count, cpu_count_user, cpu_count_model, os_count, orelse. cbn [bind negb].
  destruct os_raw, aff, cg, loky_env; same_result.
Qed.

(* ------------------------------------------------------------------------------ arithmetic *)
Lemma resolve_ge1 : forall cpus n, n <> 0 -> resolve cpus n >= 1.
Proof. intros. unfold resolve. destruct (n <? 0) eqn:E; lia. Qed.

Lemma resolve_pos : forall cpus n, 0 < n -> resolve cpus n = n.
Proof. intros. unfold resolve. destruct (n <? 0) eqn:E; lia. Qed.

Lemma resolve_neg : forall cpus n, n < 0 -> resolve cpus n = Z.max (cpus + 1 + n) 1.
Proof. intros. unfold resolve. destruct (n <? 0) eqn:E; lia. Qed.

Lemma resolve_le_cpus : forall cpus n, n < 0 -> 1 <= cpus -> resolve cpus n <= cpus.
Proof. intros. rewrite resolve_neg by assumption. lia. Qed.

(* an environment in which no nesting guard fires *)
Definition unguarded (e : penv) (level : Z) : Prop :=
  e_mp_none e = false /\ e_daemon e = false /\ e_depth e <= 0 /\ (e_main e = true \/ level = 0).

Lemma unguarded_thread_guard : forall e l, (e_main e = true \/ l = 0) -> thread_guard e l = false.
Proof. intros e l [H|H]; unfold thread_guard; [rewrite H; reflexivity|]. subst. rewrite orb_true_r. reflexivity. Qed.

Lemma eff_unguarded : forall k e l n, n <> 0 -> unguarded e l ->
  eff_model k e l n = Ok (match k with KSeq => 1 | _ => resolve (e_cpus e) n end).
Proof.
  intros k e l n Hn (Hm & Hd & Hdep & Hth).
  assert (n =? 0 = false) as Hz by lia.
  assert (e_depth e >? 0 = false) as Hdz by lia.
  destruct k; cbn [eff_model]; unfold pool_eff; rewrite ?Hz, ?Hm, ?Hd, ?Hdz, ?(unguarded_thread_guard _ _ Hth); reflexivity.
Qed.

Lemma eff_zero : forall k e l,
  (k = KMp -> unguarded e l) -> eff_model k e l 0 = Raise ValueError.
Proof.
  intros [] e l H; cbn [eff_model]; unfold pool_eff; try reflexivity.
  destruct (H eq_refl) as (Hm & Hd & Hdep & Hth).
  assert (e_depth e >? 0 = false) as Hdz by lia.
  rewrite Hm, Hd, Hdz, (unguarded_thread_guard _ _ Hth). reflexivity.
Qed.

Lemma eff_ge1 : forall k e l n v, eff_model k e l n = Ok v -> v >= 1.
Proof.
  intros k e l n v. pose proof (resolve_ge1 (e_cpus e) n) as R.
  destruct k; cbn [eff_model]; unfold pool_eff;
  repeat match goal with
         | |- context [if ?c then _ else _] => destruct c eqn:?
         end; intros H; inversion H; subst; try lia; apply R; lia.
Qed.

(* process backends asked from a worker thread below level 0, or from a daemonic process, get 1 *)
Lemma eff_guarded_loky : forall e l n, n <> 0 ->
  (e_daemon e = true \/ (e_main e = false /\ l <> 0)) -> eff_model KLoky e l n = Ok 1.
Proof.
  intros e l n Hn H. cbn [eff_model]. assert (n =? 0 = false) as -> by lia.
  destruct (e_mp_none e); [reflexivity|]. destruct H as [-> | [Hm Hl]]; [reflexivity|].
  destruct (e_daemon e); [reflexivity|]. unfold thread_guard. rewrite Hm.
  assert (l =? 0 = false) as -> by lia. reflexivity.
Qed.

Lemma eff_guarded_mp : forall e l n,
  (e_daemon e = true \/ e_depth e > 0 \/ (e_main e = false /\ l <> 0)) -> eff_model KMp e l n = Ok 1.
Proof.
  intros e l n H. cbn [eff_model].
  destruct (e_mp_none e); [reflexivity|]. destruct H as [-> | [Hd | [Hm Hl]]]; [reflexivity| |].
  - destruct (e_daemon e); [reflexivity|]. assert (e_depth e >? 0 = true) as -> by lia. reflexivity.
  - destruct (e_daemon e); [reflexivity|]. destruct (e_depth e >? 0); [reflexivity|].
    unfold thread_guard. rewrite Hm. assert (l =? 0 = false) as -> by lia. reflexivity.
Qed.

(* n_jobs = 1 always ends in the sequential backend, in the calling thread *)
Lemma configure_one : forall b e, configure b e 1 = Ok ({| bkind := KSeq; blevel := blevel b |}, 1).
Proof.
  intros [k l] e. unfold configure. cbn [bkind blevel].
  assert (eff_model k e l 1 = Ok 1) as ->.
  { destruct k; cbn [eff_model]; unfold pool_eff, resolve; cbn;
    repeat match goal with |- context [if ?c then _ else _] => destruct c end; reflexivity. }
  cbn [bind]. destruct k; reflexivity.
Qed.

Lemma configure_spec : forall b e n b' eff, configure b e n = Ok (b', eff) ->
  eff >= 1 /\ blevel b' = blevel b /\
  ((bkind b' = KSeq /\ eff = 1) \/ (b' = b /\ eff <> 1)).
Proof.
  intros [k l] e n b' eff. unfold configure. cbn [bkind blevel].
  destruct (eff_model k e l n) as [v|] eqn:E; cbn [bind]; [|discriminate].
  pose proof (eff_ge1 _ _ _ _ _ E) as Hv.
  assert (forall X : result (bk * Z),
            (if v =? 1 then bind (eff_model KSeq e l n) (fun eff' => Ok ({| bkind := KSeq; blevel := l |}, eff'))
             else Ok ({| bkind := k; blevel := l |}, v)) = X -> X = Ok (b', eff) ->
            eff >= 1 /\ blevel b' = l /\ ((bkind b' = KSeq /\ eff = 1) \/ (b' = {| bkind := k; blevel := l |} /\ eff <> 1))) as G.
  { intros X HX HE. subst X. destruct (v =? 1) eqn:E1.
    - cbn [eff_model] in HE. destruct (n =? 0); cbn [bind] in HE; inversion HE; subst. cbn. repeat split; auto; lia.
    - inversion HE; subst. cbn. split; [lia|]. split; [reflexivity|]. right. split; [reflexivity|lia]. }
  destruct k.
  - intros H; inversion H; subst. cbn in E. destruct (n =? 0); inversion E; subst. cbn. auto.
  - intros H. exact (G _ eq_refl H).
  - intros H. exact (G _ eq_refl H).
  - intros H. exact (G _ eq_refl H).
Qed.

(* at the level of a Parallel call n_jobs = 0 is always rejected, by every backend in every environment *)
Lemma configure_zero : forall b e, configure b e 0 = Raise ValueError.
Proof.
  intros [k l] e. unfold configure. cbn [bkind blevel].
  destruct (eff_model k e l 0) as [v|[]] eqn:E; cbn [bind]; try reflexivity;
    try (destruct k; cbn [eff_model] in E; unfold pool_eff in E; cbn in E;
         repeat match type of E with context [if ?c then _ else _] => destruct c end; discriminate).
  destruct k.
  - cbn in E. discriminate.
  - cbn in E. discriminate.
  - cbn in E. discriminate.
  - assert (v = 1) as ->.
    { cbn [eff_model] in E. unfold pool_eff in E. cbn in E.
      repeat match type of E with context [if ?c then _ else _] => destruct c end; inversion E; reflexivity. }
    reflexivity.
Qed.

(* ---------------------------------------------------------------------------- cpu_count *)
Lemma cpu_count_ge1 : forall os_raw aff cg loky_env, cpu_count_model os_raw aff cg loky_env >= 1.
Proof. intros. unfold cpu_count_model. lia. Qed.

Lemma os_count_ge1 : forall os_raw, (forall c, os_raw = Some c -> 0 <= c) -> os_count os_raw >= 1.
Proof.
  intros [c|] H; cbn; [|lia]. specialize (H c eq_refl). destruct (c =? 0) eqn:E; lia.
Qed.

(* the result never exceeds a constraint that allows at least one CPU *)
Lemma cpu_count_le_constraint : forall os_raw aff cg loky_env c,
  1 <= c ->
  (c = os_count os_raw \/ aff = Some c \/ cg = Some c \/ loky_env = Some c) ->
  cpu_count_model os_raw aff cg loky_env <= c.
Proof.
  intros os_raw aff cg loky_env c Hc H. unfold cpu_count_model.
  destruct H as [-> | [-> | [-> | ->]]]; cbn [orelse]; lia.
Qed.

(* it is exactly the minimum of the constraints, floored at 1 *)
Lemma cpu_count_is_min : forall os_raw aff cg loky_env,
  let os := os_count os_raw in
  cpu_count_model os_raw aff cg loky_env =
  Z.max 1 (Z.min os (Z.min (orelse aff os) (Z.min (orelse cg os) (orelse loky_env os)))).
Proof. intros. unfold cpu_count_model. fold os. lia. Qed.

Lemma cgroup_count_spec : forall os q p, 0 < q -> 0 < p ->
  let c := cgroup_count os (Some q) p in (c - 1) * p < q <= c * p.
Proof.
  intros os q p Hq Hp. cbn. assert (q >? 0 = true) as -> by lia. assert (p >? 0 = true) as -> by lia. cbn.
  pose proof (Z.div_mod (q + p - 1) p ltac:(lia)) as D.
  pose proof (Z.mod_pos_bound (q + p - 1) p Hp) as B. nia.
Qed.

(* ------------------------------------------------------------------------------ nesting *)
Lemma nested_level0 : forall k, nested_backend {| bkind := k; blevel := 0 |} = {| bkind := KThr; blevel := 1 |}.
Proof. reflexivity. Qed.

Lemma nested_level_ge1 : forall k l, 1 <= l ->
  nested_backend {| bkind := k; blevel := l |} = {| bkind := KSeq; blevel := l + 1 |}.
Proof. intros. unfold nested_backend. cbn [blevel]. assert (l + 1 >? 1 = true) as -> by lia. reflexivity. Qed.

(* induction principle for call trees (nested through list) *)
Section CallInd.
  Variable P : call -> Prop.
  Hypothesis H : forall bsel h n children, Forall P children -> P (Call bsel h n children).
  Fixpoint call_ind' (c : call) : P c :=
    match c with
    | Call bsel h n children =>
        H bsel h n children
          ((fix go (l : list call) : Forall P l :=
              match l with [] => Forall_nil P | ch :: t => Forall_cons ch (call_ind' ch) (go t) end) children)
    end.
End CallInd.

(* a site inside a worker of a default call: the context backend is thread-based or sequential, at level >= 1 *)
Definition worker_inv (s : site) : Prop :=
  exists b, s_ctx s = Some b /\ (bkind b = KThr \/ bkind b = KSeq) /\ 1 <= blevel b.

Definition sum_procs (ws : site) :=
  fix go (l : list call) : Z := match l with [] => 0 | ch :: t => procs ws ch + go t end.

Lemma procs_unfold : forall s bsel h n children,
  procs s (Call bsel h n children) =
  match call_outcome s bsel h n with
  | Raise _ => 0
  | Ok (b, eff) => (if is_process_kind (bkind b) then eff else 0) + sum_procs (worker_site s b) children
  end.
Proof. intros. cbn [procs]. destruct (call_outcome s bsel h n) as [[b eff]|]; reflexivity. Qed.

Definition all_default :=
  fix go (l : list call) : bool := match l with [] => true | ch :: t => default_tree ch && go t end.

Lemma default_tree_unfold : forall bsel h n children,
  default_tree (Call bsel h n children) = match bsel with None => true | Some _ => false end && all_default children.
Proof. reflexivity. Qed.

Lemma sum_procs_zero : forall ws children,
  Forall (fun c => forall s, worker_inv s -> default_tree c = true -> procs s c = 0) children ->
  worker_inv ws -> all_default children = true -> sum_procs ws children = 0.
Proof.
  intros ws children HF Hw. induction HF as [|c t Hc _ IH]; cbn; [reflexivity|].
  intros Hd. apply andb_prop in Hd as [Hd1 Hd2]. rewrite (Hc ws Hw Hd1), (IH Hd2). reflexivity.
Qed.

(* a backend named by the context is explicit: with a thread-based / sequential one no hint of the call changes it *)
Lemma chosen_ctx_shm : forall s b h, s_ctx s = Some b -> kind_shm (bkind b) = true ->
  chosen_r s None h = if hint_valid h then Ok b else Raise ValueError.
Proof.
  intros s b h Hctx Hk. unfold chosen_r, active_h. rewrite Hctx, Hk. destruct (hint_valid h); cbn [negb bind]; [|reflexivity].
  rewrite andb_false_r. reflexivity.
Qed.

Lemma chosen_top_nohint : forall cpus, chosen_r (top_site cpus) None no_hint = Ok default_backend.
Proof. reflexivity. Qed.

Lemma is_no_hint_eq : forall h, is_no_hint h = true -> h = no_hint.
Proof. intros [p r] H. unfold is_no_hint in H. cbn in H. unfold no_hint. f_equal; lia. Qed.

(* below a worker of a default call, default calls start no process at all: whatever the tree *)
Lemma procs_below_worker : forall c s, worker_inv s -> default_tree c = true -> procs s c = 0.
Proof.
  induction c as [bsel h n children IH] using call_ind'. intros s Hw Hd.
  rewrite default_tree_unfold in Hd. apply andb_prop in Hd as [Hb Hch].
  destruct bsel; [discriminate|]. rewrite procs_unfold. destruct Hw as (b & Hctx & Hk & Hl). unfold call_outcome.
  rewrite (chosen_ctx_shm s b h Hctx) by (destruct Hk as [Hk|Hk]; rewrite Hk; reflexivity).
  destruct (hint_valid h); cbn [bind]; [|reflexivity].
  destruct (configure b (s_env s) n) as [[b' eff]|] eqn:E; [|reflexivity].
  destruct (configure_spec _ _ _ _ _ E) as (Hge & Hlev & [[Hseq He] | [Heq Hne]]).
  - (* sequential: tasks run inline, at the same site *)
    rewrite Hseq. cbn [is_process_kind]. unfold worker_site. rewrite Hseq.
    rewrite (sum_procs_zero s children IH); [reflexivity| |assumption].
    exists b; auto.
  - subst b'. destruct Hk as [Hk|Hk].
    + (* thread pool at level >= 1: its tasks see SequentialBackend(level+1) *)
      rewrite Hk. cbn [is_process_kind]. unfold worker_site. rewrite Hk.
      rewrite (sum_procs_zero _ children IH); [reflexivity| |assumption].
      eexists; cbn [s_ctx]; split; [reflexivity|].
      destruct b as [k l]. cbn in *. subst k. rewrite nested_level_ge1 by assumption. cbn. split; [auto|lia].
    + (* the context backend is sequential: eff = 1, contradiction with eff <> 1 *)
      exfalso. destruct b as [k l]. cbn in Hk. subst k. unfold configure in E. cbn in E.
      destruct (n =? 0); cbn in E; inversion E. lia.
Qed.

(* a default call made from the top level: its own workers and nothing else *)
Lemma procs_top_parallel : forall cpus n children,
  n <> 0 -> resolve cpus n <> 1 -> all_default children = true ->
  procs (top_site cpus) (Call None no_hint n children) = resolve cpus n.
Proof.
  intros cpus n children Hn Hr Hd. rewrite procs_unfold. unfold call_outcome. rewrite chosen_top_nohint. cbn [bind].
  unfold configure, default_backend. cbn [bkind blevel].
  rewrite eff_unguarded; [|assumption|]. 2:{ unfold unguarded; cbn; repeat split; auto; lia. }
  cbn [bind]. change (e_cpus (s_env (top_site cpus))) with cpus.
  assert (resolve cpus n =? 1 = false) as -> by lia. cbn [bkind is_process_kind].
  rewrite (sum_procs_zero _ children); [lia| | |assumption].
  - apply Forall_forall. intros c _ s Hw Hdc. apply procs_below_worker; assumption.
  - unfold worker_site. cbn [bkind]. eexists; cbn [s_ctx]; split; [reflexivity|]. cbn. split; [auto|lia].
Qed.

(* a default call that resolves to one worker runs inline: its children are again top-level calls *)
Lemma procs_top_sequential : forall cpus n children,
  n <> 0 -> resolve cpus n = 1 ->
  procs (top_site cpus) (Call None no_hint n children) = sum_procs (top_site cpus) children.
Proof.
  intros cpus n children Hn Hr. rewrite procs_unfold. unfold call_outcome. rewrite chosen_top_nohint. cbn [bind].
  unfold configure, default_backend. cbn [bkind blevel].
  rewrite eff_unguarded; [|assumption|]. 2:{ unfold unguarded; cbn; repeat split; auto; lia. }
  cbn [bind]. change (e_cpus (s_env (top_site cpus))) with cpus. rewrite Hr. cbn [Z.eqb Pos.eqb eff_model].
  assert (n =? 0 = false) as -> by lia. cbn. reflexivity.
Qed.

(* the first parallel call on each path from the root bounds everything below it *)
Fixpoint frontier (cpus : Z) (c : call) : Z :=
  match c with
  | Call _ _ n children =>
      if n =? 0 then 0
      else if resolve cpus n =? 1
      then (fix go (l : list call) : Z := match l with [] => 0 | ch :: t => frontier cpus ch + go t end) children
      else resolve cpus n
  end.

Definition all_nohint :=
  fix go (l : list call) : bool := match l with [] => true | ch :: t => nohint_tree ch && go t end.

Lemma nohint_tree_unfold : forall bsel h n children,
  nohint_tree (Call bsel h n children) =
  match bsel with None => true | Some _ => false end && is_no_hint h && all_nohint children.
Proof. reflexivity. Qed.

Lemma nohint_default : forall c, nohint_tree c = true -> default_tree c = true.
Proof.
  induction c as [bsel h n children IH] using call_ind'. rewrite nohint_tree_unfold, default_tree_unfold. intros H.
  apply andb_prop in H as [H Hch]. apply andb_prop in H as [Hb _]. rewrite Hb. cbn [andb].
  induction IH as [|c t Hc _ IHt]; [reflexivity|]. cbn in Hch |- *. apply andb_prop in Hch as [H1 H2].
  rewrite (Hc H1), (IHt H2). reflexivity.
Qed.

Lemma all_nohint_default : forall l, all_nohint l = true -> all_default l = true.
Proof.
  induction l as [|c t IH]; [reflexivity|]. cbn. intros H. apply andb_prop in H as [H1 H2].
  rewrite (nohint_default c H1), (IH H2). reflexivity.
Qed.

Lemma procs_top_frontier : forall c cpus, nohint_tree c = true -> procs (top_site cpus) c = frontier cpus c.
Proof.
  induction c as [bsel h n children IH] using call_ind'. intros cpus Hd.
  rewrite nohint_tree_unfold in Hd. apply andb_prop in Hd as [Hb Hch]. apply andb_prop in Hb as [Hb Hh].
  destruct bsel; [discriminate|]. rewrite (is_no_hint_eq h Hh).
  cbn [frontier]. destruct (n =? 0) eqn:Hn.
  - assert (n = 0) by lia. subst. reflexivity.
  - destruct (resolve cpus n =? 1) eqn:Hr.
    + rewrite procs_top_sequential by lia. clear Hn Hr.
      induction IH as [|c t Hc _ IHt]; [reflexivity|]. cbn in Hch. apply andb_prop in Hch as [H1 H2].
      cbn. rewrite (Hc cpus H1), (IHt H2). reflexivity.
    + apply procs_top_parallel; [lia|lia|]. apply all_nohint_default, Hch.
Qed.

(* ------------------------------------------- regenerated get_nested_backend / configure = the model *)
Lemma gen_nested_eq : forall b, base_get_nested_backend (blevel b) = Ok (nested_backend b, None).
Proof. intros b. unfold base_get_nested_backend, nested_backend. destruct (blevel b + 1 >? 1); reflexivity. Qed.

Lemma gen_seq_nested_eq : forall a, seq_get_nested_backend a = Ok a.
Proof. reflexivity. Qed.

(* <class k>.configure(n_jobs) as the source says it; Raise (OtherError 1) = FallbackToBackend(Sequential at my level) *)
Definition configure_gen (k : kind) (e : penv) (level n : Z) : result Z :=
  match k with
  | KSeq => base_configure (e_mp_none e) (e_cpus e) (e_daemon e) (e_depth e) (e_main e) level n
  | KThr => thr_configure (e_mp_none e) (e_cpus e) (e_daemon e) (e_depth e) (e_main e) level n
  | KLoky => loky_configure (e_mp_none e) (e_cpus e) (e_daemon e) (e_depth e) (e_main e) level n
  | KMp => mp_configure (e_mp_none e) (e_cpus e) (e_daemon e) (e_depth e) (e_main e) level n
  end.

Lemma configure_gen_eq : forall k e l n,
  configure_gen k e l n =
  match eff_model k e l n with
  | Raise x => Raise x
  | Ok v => match k with KSeq => Ok v | _ => if v =? 1 then Raise (OtherError 1) else Ok v end
  end.
Proof.
  intros [] e l n; unfold configure_gen, base_configure, thr_configure, loky_configure, mp_configure.
  - rewrite (gen_seq_eq e l n). destruct (eff_model KSeq e l n); reflexivity.
  - rewrite gen_pool_eq. change (pool_eff (e_mp_none e) (e_cpus e) n) with (eff_model KThr e l n).
    destruct (eff_model KThr e l n); reflexivity.
  - rewrite gen_loky_eq. destruct (eff_model KLoky e l n); reflexivity.
  - rewrite gen_mp_eq. destruct (eff_model KMp e l n); reflexivity.
Qed.

(* Parallel._initialize_backend: configure; on FallbackToBackend(b') replace the backend by b' and configure that one
   (the try/except itself is hand-modelled; the configure functions are the regenerated ones) *)
Definition initialize_backend_gen (b : bk) (e : penv) (n : Z) : result (bk * Z) :=
  match configure_gen (bkind b) e (blevel b) n with
  | Ok v => Ok (b, v)
  | Raise (OtherError 1) =>
      let sb := {| bkind := KSeq; blevel := blevel b |} in
      rmap (fun v => (sb, v)) (configure_gen KSeq e (blevel b) n)
  | Raise x => Raise x
  end.

Lemma eff_model_no_fallback : forall k e l n c, eff_model k e l n <> Raise (OtherError c).
Proof.
  intros k e l n c. destruct k; cbn [eff_model]; unfold pool_eff;
  repeat match goal with |- context [if ?x then _ else _] => destruct x end; discriminate.
Qed.

Lemma initialize_backend_gen_eq : forall b e n, initialize_backend_gen b e n = configure b e n.
Proof.
  intros [k l] e n. unfold initialize_backend_gen, configure. cbn [bkind blevel]. rewrite !configure_gen_eq.
  pose proof (eff_model_no_fallback k e l n) as NF.
  destruct (eff_model k e l n) as [v|x] eqn:E; cbn [bind].
  - destruct k; try reflexivity; destruct (v =? 1); try reflexivity;
      destruct (eff_model KSeq e l n) as [w|y] eqn:E2; cbn [rmap bind]; try reflexivity;
      pose proof (eff_model_no_fallback KSeq e l n) as NF2; rewrite E2 in NF2; destruct y; try reflexivity.
  - destruct x; try reflexivity. exfalso. apply (NF code). reflexivity.
Qed.

Lemma pool_sizes : forall n, thr_pool_size n = n /\ loky_pool_size n = n /\ mp_pool_size n = n.
Proof. intros. unfold thr_pool_size, loky_pool_size, mp_pool_size. repeat split; lia. Qed.

(* --------------------------------------------------- how many tasks can be in flight at once *)
Definition max_conc (ws : site) :=
  fix go (l : list call) : Z := match l with [] => 1 | ch :: t => Z.max (conc ws ch) (go t) end.
Definition max_maxres (cpus : Z) :=
  fix go (l : list call) : Z := match l with [] => 1 | ch :: t => Z.max (maxres cpus ch) (go t) end.

Lemma conc_unfold : forall s bsel h n children,
  conc s (Call bsel h n children) =
  match call_outcome s bsel h n with
  | Raise _ => 0
  | Ok (b, eff) => eff * max_conc (worker_site s b) children
  end.
Proof. intros. cbn [conc]. destruct (call_outcome s bsel h n) as [[b eff]|]; reflexivity. Qed.

Lemma maxres_unfold : forall cpus bsel h n children,
  maxres cpus (Call bsel h n children) = Z.max (Z.max 1 (resolve cpus n)) (max_maxres cpus children).
Proof. reflexivity. Qed.

Lemma max_maxres_ge1 : forall cpus l, 1 <= max_maxres cpus l.
Proof. induction l; cbn; lia. Qed.

Lemma maxres_ge1 : forall cpus c, 1 <= maxres cpus c.
Proof. intros cpus [b h n ch]. rewrite maxres_unfold. lia. Qed.

Lemma max_conc_bound : forall (B : call -> Z) ws children,
  Forall (fun c => conc ws c <= B c) children ->
  max_conc ws children <= (fix go (l : list call) : Z := match l with [] => 1 | ch :: t => Z.max (B ch) (go t) end) children.
Proof. intros B ws children H. induction H; cbn; lia. Qed.

Lemma max_conc_le1 : forall ws children, Forall (fun c => conc ws c <= 1) children -> max_conc ws children = 1.
Proof. intros ws children H. induction H; cbn; lia. Qed.

Definition seq_site (s : site) : Prop := exists b, s_ctx s = Some b /\ bkind b = KSeq.
Definition thr_site (s : site) : Prop := exists b, s_ctx s = Some b /\ bkind b = KThr /\ 1 <= blevel b.

(* below a sequential context every default call runs one task at a time, whatever its n_jobs and whatever is below it *)
Lemma conc_seq : forall c s, seq_site s -> default_tree c = true -> conc s c <= 1.
Proof.
  induction c as [bsel h n children IH] using call_ind'. intros s Hs Hd.
  rewrite default_tree_unfold in Hd. apply andb_prop in Hd as [Hb Hch]. destruct bsel; [discriminate|].
  rewrite conc_unfold. unfold call_outcome. destruct Hs as (b & Hctx & Hk).
  rewrite (chosen_ctx_shm s b h Hctx) by (rewrite Hk; reflexivity). destruct (hint_valid h); cbn [bind]; [|lia].
  destruct b as [k l]. cbn in Hk. subst k. unfold configure. cbn [bkind blevel eff_model].
  destruct (n =? 0); cbn [bind]; [lia|]. unfold worker_site. cbn [bkind].
  rewrite max_conc_le1; [lia|].
  clear - IH Hch Hctx. induction IH as [|c t Hc _ IHt]; [constructor|].
  cbn in Hch. apply andb_prop in Hch as [H1 H2]. constructor; [|exact (IHt H2)].
  apply Hc; [|assumption]. eexists; split; [eassumption|reflexivity].
Qed.

Lemma all_default_Forall : forall (P : call -> Prop) children,
  Forall (fun c => default_tree c = true -> P c) children -> all_default children = true -> Forall P children.
Proof.
  intros P children H. induction H as [|c t Hc _ IH]; intros Hd; [constructor|].
  cbn in Hd. apply andb_prop in Hd as [H1 H2]. constructor; auto.
Qed.

(* in a worker thread of a first-level call: at most the largest resolved n_jobs of the subtree, never a product *)
Lemma conc_thr : forall c s, thr_site s -> default_tree c = true -> conc s c <= maxres (e_cpus (s_env s)) c.
Proof.
  induction c as [bsel h n children IH] using call_ind'. intros s Hs Hd.
  rewrite default_tree_unfold in Hd. apply andb_prop in Hd as [Hb Hch]. destruct bsel; [discriminate|].
  rewrite conc_unfold, maxres_unfold. unfold call_outcome.
  destruct Hs as (b & Hctx & Hk & Hl). pose proof (max_maxres_ge1 (e_cpus (s_env s)) children) as G1.
  rewrite (chosen_ctx_shm s b h Hctx) by (rewrite Hk; reflexivity). destruct (hint_valid h); cbn [bind]; [|lia].
  destruct b as [k l]. cbn in Hk, Hl. subst k.
  destruct (configure {| bkind := KThr; blevel := l |} (s_env s) n) as [[b' eff]|] eqn:E; [|lia].
  destruct (configure_spec _ _ _ _ _ E) as (Hge & Hlev & [[Hseq He] | [Heq Hne]]).
  - (* resolved to one worker: sequential, the children are calls of the same thread *)
    subst eff. unfold worker_site. rewrite Hseq.
    assert (max_conc s children <= max_maxres (e_cpus (s_env s)) children) as M.
    { apply (max_conc_bound (maxres (e_cpus (s_env s)))).
      apply all_default_Forall; [|assumption]. eapply Forall_impl; [|exact IH]. cbn. intros c Hc Hdc. apply Hc; [|assumption].
      exists {| bkind := KThr; blevel := l |}. auto. }
    lia.
  - (* a thread pool at level >= 1: its tasks see a sequential context *)
    subst b'. assert (eff = resolve (e_cpus (s_env s)) n) as ->.
    { unfold configure in E. cbn [bkind blevel eff_model] in E. unfold pool_eff in E.
      destruct (n =? 0); [discriminate|]. destruct (e_mp_none (s_env s)); cbn [bind] in E.
      - cbn in E. inversion E.
      - destruct (resolve (e_cpus (s_env s)) n =? 1) eqn:E1; cbn in E; inversion E; reflexivity. }
    unfold worker_site. cbn [bkind]. rewrite max_conc_le1; [lia|].
    apply all_default_Forall; [|assumption]. apply Forall_forall. intros c _ Hdc. apply conc_seq; [|assumption].
    eexists; cbn [s_ctx]; split; [reflexivity|]. rewrite nested_level_ge1 by assumption. reflexivity.
Qed.

Lemma worker_site_cpus : forall s b, e_cpus (s_env (worker_site s b)) = e_cpus (s_env s).
Proof. intros s [[] l]; reflexivity. Qed.

(* from the top level: never more than two factors -- the first call that goes parallel and the largest n_jobs below it *)
Lemma conc_top : forall c cpus, nohint_tree c = true ->
  conc (top_site cpus) c <= maxres cpus c * maxres cpus c.
Proof.
  induction c as [bsel h n children IH] using call_ind'. intros cpus Hd.
  rewrite nohint_tree_unfold in Hd. apply andb_prop in Hd as [Hb Hch]. apply andb_prop in Hb as [Hb Hh].
  destruct bsel; [discriminate|]. rewrite (is_no_hint_eq h Hh).
  rewrite conc_unfold, maxres_unfold. unfold call_outcome. rewrite chosen_top_nohint. cbn [bind].
  pose proof (max_maxres_ge1 cpus children) as G1.
  destruct (n =? 0) eqn:Hn.
  - assert (n = 0) by lia. subst. rewrite configure_zero. nia.
  - unfold configure, default_backend. cbn [bkind blevel].
    rewrite eff_unguarded; [|lia|]. 2:{ unfold unguarded; cbn; repeat split; auto; lia. }
    cbn [bind]. change (e_cpus (s_env (top_site cpus))) with cpus.
    pose proof (resolve_ge1 cpus n ltac:(lia)) as R.
    destruct (resolve cpus n =? 1) eqn:Hr.
    + cbn [eff_model]. rewrite Hn. cbn [bind]. unfold worker_site. cbn [bkind].
      assert (max_conc (top_site cpus) children <= max_maxres cpus children * max_maxres cpus children) as M.
      { clear - IH Hch. induction IH as [|c t Hc _ IHt]; [cbn; lia|].
        cbn in Hch. apply andb_prop in Hch as [H1 H2]. specialize (Hc cpus H1). specialize (IHt H2).
        pose proof (maxres_ge1 cpus c). pose proof (max_maxres_ge1 cpus t). cbn. nia. }
      nia.
    + unfold worker_site. cbn [bkind].
      assert (max_conc {| s_ctx := Some (nested_backend {| bkind := KLoky; blevel := 0 |});
                          s_env := with_env (s_env (top_site cpus)) true (e_daemon (s_env (top_site cpus))) (e_depth (s_env (top_site cpus)) + 1) |}
                       children <= max_maxres cpus children) as M.
      { apply (max_conc_bound (maxres cpus)). apply all_default_Forall; [|apply all_nohint_default, Hch].
        apply Forall_forall. intros c _ Hdc.
        match goal with |- conc ?s c <= _ => change cpus with (e_cpus (s_env s)) at 2 end.
        apply conc_thr; [|assumption]. eexists; cbn [s_ctx]; split; [reflexivity|]. cbn. split; [reflexivity|lia]. }
      nia.
Qed.

(* ... and exactly one factor survives below the first parallel call when the nested calls are themselves parallel:
   a top-level call that goes parallel runs at most  n_jobs(root) x max n_jobs(below)  tasks at once *)
Lemma conc_top_parallel : forall cpus n children,
  n <> 0 -> resolve cpus n <> 1 -> all_default children = true ->
  conc (top_site cpus) (Call None no_hint n children) <= resolve cpus n * max_maxres cpus children.
Proof.
  intros cpus n children Hn Hr Hch. rewrite conc_unfold. unfold call_outcome. rewrite chosen_top_nohint. cbn [bind].
  unfold configure, default_backend. cbn [bkind blevel].
  rewrite eff_unguarded; [|lia|]. 2:{ unfold unguarded; cbn; repeat split; auto; lia. }
  cbn [bind]. change (e_cpus (s_env (top_site cpus))) with cpus.
  assert (resolve cpus n =? 1 = false) as -> by lia. unfold worker_site. cbn [bkind].
  pose proof (resolve_ge1 cpus n Hn) as R.
  apply Z.mul_le_mono_nonneg_l; [lia|].
  apply (max_conc_bound (maxres cpus)). apply all_default_Forall; [|assumption].
  apply Forall_forall. intros c _ Hdc.
  match goal with |- conc ?s c <= _ => change cpus with (e_cpus (s_env s)) at 2 end.
  apply conc_thr; [|assumption]. eexists; cbn [s_ctx]; split; [reflexivity|]. cbn. split; [reflexivity|lia].
Qed.

Lemma gen_cpu_count_physical_eq : forall os_raw aff cg loky_env phys,
  cpu_count os_raw aff cg loky_env phys true = Ok (cpu_count_physical_model os_raw aff cg loky_env phys).
Proof.
  intros. unfold cpu_count, cpu_count_user, cpu_count_physical_model, cpu_user_model, cpu_count_model, os_count, orelse.
  cbn [bind negb]. destruct os_raw, aff, cg, loky_env, phys; same_result.
Qed.

(* with only_physical_cores=True: at least 1 (physical counts reported are >= 1); a user limit below the machine's CPU count
   is what comes back (floored at 1) whatever the physical count is; without such a limit the physical count, if known *)
Lemma cpu_count_physical_spec : forall os_raw aff cg loky_env phys,
  (forall p, phys = Some p -> 1 <= p) ->
  let v := cpu_count_physical_model os_raw aff cg loky_env phys in
  let user := cpu_user_model os_raw aff cg loky_env in
  v >= 1 /\
  (user < os_count os_raw -> v = Z.max user 1 /\ v = cpu_count_model os_raw aff cg loky_env) /\
  (os_count os_raw <= user -> forall p, phys = Some p -> v = p).
Proof.
  intros os_raw aff cg loky_env phys Hp. cbn zeta. unfold cpu_count_physical_model.
  pose proof (cpu_count_ge1 os_raw aff cg loky_env) as G.
  destruct (cpu_user_model os_raw aff cg loky_env <? os_count os_raw) eqn:E.
  - split; [lia|]. split; [|intros; lia]. intros _. split; [reflexivity|].
    unfold cpu_count_model, cpu_user_model in *. lia.
  - split; [destruct phys as [p|]; [specialize (Hp p eq_refl); lia|lia]|]. split; [intros; lia|].
    intros _ p ->. reflexivity.
Qed.

(* ---------------------------------------------------------------- statements of Props/C15.v (the file Props/C15.v only restates them and closes each with `exact`) *)
Lemma C15_translation_matches_model_holds : forall k e level n os_raw aff cg loky_env phys,
  eff_gen k e level n = eff_model k e level n /\
  cpu_count os_raw aff cg loky_env phys false = Ok (cpu_count_model os_raw aff cg loky_env).
Proof. intros. split; [apply eff_gen_eq_model | apply gen_cpu_count_eq]. Qed.

Lemma C15_resolve_holds : forall k e level n,
  n <> 0 -> unguarded e level ->
  exists v, eff_gen k e level n = Ok v /\ v >= 1 /\
            v = match k with KSeq => 1
                | _ => if n <? 0 then Z.max (e_cpus e + 1 + n) 1 else n end.
Proof.
  intros k e level n Hn Hu. rewrite eff_gen_eq_model, (eff_unguarded k e level n Hn Hu).
  eexists; split; [reflexivity|]. split; [|reflexivity].
  destruct k; [lia|apply resolve_ge1; assumption..].
Qed.

Lemma C15_negative_le_cpus_holds : forall k e level n v,
  n < 0 -> 1 <= e_cpus e -> eff_gen k e level n = Ok v -> 1 <= v <= e_cpus e.
Proof.
  intros k e level n v Hn Hc H. rewrite eff_gen_eq_model in H. pose proof (eff_ge1 _ _ _ _ _ H) as G.
  split; [lia|]. pose proof (resolve_le_cpus (e_cpus e) n Hn Hc) as R.
  destruct k; cbn [eff_model] in H; unfold pool_eff in H;
  repeat match type of H with
         | context [if ?c then _ else _] => destruct c
         end; inversion H; subst; lia.
Qed.

Lemma C15_at_least_one_holds : forall k e level n v, eff_gen k e level n = Ok v -> v >= 1.
Proof. intros k e level n v H. rewrite eff_gen_eq_model in H. exact (eff_ge1 _ _ _ _ _ H). Qed.

Lemma C15_zero_rejected_holds : forall k e level,
  (k = KMp -> unguarded e level) -> eff_gen k e level 0 = Raise ValueError.
Proof. intros. rewrite eff_gen_eq_model. apply eff_zero; assumption. Qed.

Lemma C15_zero_rejected_refuted_holds : exists e level,
  eff_gen KMp e level 0 = Ok 1.
Proof.
  exists {| e_mp_none := false; e_cpus := 4; e_daemon := false; e_depth := 0; e_main := false |}, 1.
  vm_compute. reflexivity.
Qed.

Lemma C15_one_is_sequential_holds : forall b e,
  configure b e 1 = Ok ({| bkind := KSeq; blevel := blevel b |}, 1) /\
  forall s, worker_site s {| bkind := KSeq; blevel := blevel b |} = s.
Proof. intros. split; [apply configure_one | reflexivity]. Qed.

Lemma C15_cpu_count_holds : forall os_raw aff cg loky_env phys,
  exists v, cpu_count os_raw aff cg loky_env phys false = Ok v /\ v >= 1 /\
  (forall c, 1 <= c -> (c = os_count os_raw \/ aff = Some c \/ cg = Some c \/ loky_env = Some c) -> v <= c) /\
  v = Z.max 1 (Z.min (os_count os_raw) (Z.min (orelse aff (os_count os_raw))
                 (Z.min (orelse cg (os_count os_raw)) (orelse loky_env (os_count os_raw))))).
Proof.
  intros. rewrite gen_cpu_count_eq. eexists; split; [reflexivity|]. split; [apply cpu_count_ge1|].
  split; [intros c Hc H; apply cpu_count_le_constraint; assumption | apply cpu_count_is_min].
Qed.

Lemma C15_nested_process_backend_is_sequential_holds : forall e level n,
  n <> 0 ->
  ((e_daemon e = true \/ (e_main e = false /\ level <> 0)) -> eff_gen KLoky e level n = Ok 1) /\
  ((e_daemon e = true \/ e_depth e > 0 \/ (e_main e = false /\ level <> 0)) -> eff_gen KMp e level n = Ok 1).
Proof.
  intros e level n Hn. rewrite !eff_gen_eq_model. split; intros H.
  - apply eff_guarded_loky; assumption.
  - apply eff_guarded_mp; assumption.
Qed.

Lemma C15_nesting_holds :
  (forall k, nested_backend {| bkind := k; blevel := 0 |} = {| bkind := KThr; blevel := 1 |}) /\
  (forall k l, 1 <= l -> nested_backend {| bkind := k; blevel := l |} = {| bkind := KSeq; blevel := l + 1 |}) /\
  (forall c s, worker_inv s -> default_tree c = true -> procs s c = 0) /\
  (forall cpus n children, n <> 0 -> resolve cpus n <> 1 -> default_tree (Call None no_hint n children) = true ->
     procs (top_site cpus) (Call None no_hint n children) = resolve cpus n) /\
  (forall c cpus, nohint_tree c = true -> procs (top_site cpus) c = frontier cpus c).
Proof.
  split; [exact nested_level0|]. split; [exact nested_level_ge1|]. split; [exact procs_below_worker|].
  split; [|exact procs_top_frontier].
  intros cpus n children Hn Hr Hd. apply procs_top_parallel; assumption.
Qed.

Lemma C15_nested_backend_regenerated_holds : forall b a,
  base_get_nested_backend (blevel b) = Ok (nested_backend b, None) /\
  seq_get_nested_backend a = Ok a /\
  (blevel b = 0 -> base_get_nested_backend (blevel b) = Ok ({| bkind := KThr; blevel := 1 |}, None)) /\
  (1 <= blevel b -> base_get_nested_backend (blevel b) = Ok ({| bkind := KSeq; blevel := blevel b + 1 |}, None)).
Proof.
  intros [k l] a. pose proof (gen_nested_eq {| bkind := k; blevel := l |}) as G. cbn [blevel] in *.
  split; [exact G|]. split; [reflexivity|]. split; intros H.
  - subst. reflexivity.
  - rewrite G, nested_level_ge1 by assumption. reflexivity.
Qed.

Lemma C15_configure_regenerated_holds : forall k e level n b,
  configure_gen k e level n =
    match eff_gen k e level n with
    | Raise x => Raise x
    | Ok v => match k with KSeq => Ok v | _ => if v =? 1 then Raise (OtherError 1) else Ok v end
    end /\
  initialize_backend_gen b e n = configure b e n.
Proof. intros. split; [rewrite eff_gen_eq_model; apply configure_gen_eq | apply initialize_backend_gen_eq]. Qed.

Lemma C15_nesting_concurrency_holds :
  (forall c s, seq_site s -> default_tree c = true -> conc s c <= 1) /\
  (forall c s, thr_site s -> default_tree c = true -> conc s c <= maxres (e_cpus (s_env s)) c) /\
  (forall c cpus, nohint_tree c = true -> conc (top_site cpus) c <= maxres cpus c * maxres cpus c) /\
  (forall cpus n children, n <> 0 -> resolve cpus n <> 1 -> default_tree (Call None no_hint n children) = true ->
     conc (top_site cpus) (Call None no_hint n children) <= resolve cpus n * max_maxres cpus children).
Proof.
  split; [exact conc_seq|]. split; [exact conc_thr|]. split; [exact conc_top|].
  intros cpus n children Hn Hr Hd. apply conc_top_parallel; assumption.
Qed.

(* Parallel.__call__ (regenerated test): the tasks run in the calling thread exactly when the backend's configure returned 1 --
   for ANY backend, built-in (they fall back to SequentialBackend first) or user-defined *)
Lemma call_inline_iff : forall n, call_runs_inline n = true <-> n = 1.
Proof. intros n. unfold call_runs_inline. lia. Qed.

Lemma one_worker_runs_inline : forall b e n b' eff,
  configure b e n = Ok (b', eff) -> (call_runs_inline eff = true <-> bkind b' = KSeq).
Proof.
  intros b e n b' eff H. destruct (configure_spec _ _ _ _ _ H) as (_ & _ & [[Hs He] | [Hb Hne]]).
  - subst eff. rewrite Hs. split; reflexivity.
  - subst b'. rewrite call_inline_iff. split; [intros; contradiction|]. intros Hk.
    destruct b as [k l]. cbn in Hk. subst k. unfold configure in H. cbn in H. destruct (n =? 0); cbn in H; inversion H. lia.
Qed.
