(* pre_dispatch expressions (Model/PreDispatch.v) evaluated with the operator table regenerated from the source. *)
From Coq Require Import QArith ZArith Lia.
Require Import JV.Model.PreDispatch JV.Gen.T_operators.
Open Scope Z_scope.

Definition nj (n : nat) : expr := EConst (inject_Z (Z.of_nat n)).
Definition amount (e : expr) : option Z := pre_amount src_operators src_neg e.

Lemma quot_nonneg a b : 0 <= a -> 0 < b -> Z.quot a b = a / b.
Proof. intros Ha Hb. apply Z.quot_div_nonneg; assumption. Qed.

(* the forms the documentation names: 'n_jobs', '2*n_jobs', '1.5*n_jobs' (and the equivalent '3*n_jobs/2'):
   n, 2n and floor(3n/2) tasks, for every n_jobs *)
Theorem pre_dispatch_documented_forms : forall n,
  amount (nj n) = Some (Z.of_nat n) /\
  amount (EBin OMul (EConst 2) (nj n)) = Some (2 * Z.of_nat n) /\
  amount (EBin OMul (EConst (3 # 2)) (nj n)) = Some (3 * Z.of_nat n / 2) /\
  amount (EBin ODiv (EBin OMul (EConst 3) (nj n)) (EConst 2)) = Some (3 * Z.of_nat n / 2).
Proof.
  intros n. set (z := Z.of_nat n). assert (Hz : 0 <= z) by (unfold z; lia).
  unfold amount, pre_amount, nj. fold z. cbn [eval src_operators apply_op option_map].
  repeat split.
  - unfold Qtrunc. cbn. rewrite Z.quot_1_r. reflexivity.
  - unfold Qtrunc. cbn. rewrite Z.quot_1_r. reflexivity.
  - unfold Qtrunc, Qmult, inject_Z. cbn [Qnum Qden]. change (Z.pos (2 * 1)) with 2. rewrite quot_nonneg by lia. reflexivity.
  - unfold is_zero. cbn [Qnum Z.eqb option_map]. unfold Qtrunc, Qdiv, Qmult, Qinv, inject_Z. cbn [Qnum Qden].
    change (Z.pos (1 * 1 * 2)) with 2. rewrite quot_nonneg by lia. f_equal. f_equal. lia.
Qed.

(* a division is a TRUE division: a fractional quotient that is multiplied up afterwards keeps its fraction
   ('1/2*n_jobs' is n/2 tasks, not 0) *)
Theorem pre_dispatch_division_is_exact : forall n,
  amount (EBin OMul (EBin ODiv (EConst 1) (EConst 2)) (nj n)) = Some (Z.of_nat n / 2).
Proof.
  intros n. set (z := Z.of_nat n). assert (Hz : 0 <= z) by (unfold z; lia).
  unfold amount, pre_amount, nj. fold z. cbn [eval src_operators apply_op option_map]. unfold is_zero. cbn [Qnum Z.eqb].
  cbn [option_map]. unfold Qtrunc, Qdiv, Qmult, Qinv, inject_Z. cbn [Qnum Qden].
  change (Z.pos (1 * 2 * 1)) with 2. rewrite quot_nonneg by lia. f_equal. f_equal. lia.
Qed.

(* int() truncates: the amount never exceeds the value of the expression, and misses it by less than one *)
Theorem pre_dispatch_truncates : forall e q, eval src_operators src_neg e = Some q -> (0 <= q)%Q ->
  exists a, amount e = Some a /\ (inject_Z a <= q)%Q /\ (q < inject_Z (a + 1))%Q.
Proof.
  intros e q He Hq. unfold amount, pre_amount. rewrite He. cbn [option_map]. eexists. split; [reflexivity|].
  unfold Qtrunc. destruct q as [a b]. unfold Qle, Qlt in *. cbn in *.
  assert (Ha : 0 <= a) by lia.
  rewrite quot_nonneg by lia.
  pose proof (Z.div_mod a (Z.pos b) ltac:(lia)) as Hd. pose proof (Z.mod_pos_bound a (Z.pos b) ltac:(lia)) as Hm.
  split; nia.
Qed.
